#!/bin/sh
# builds the MIR fact extractor once (offline, nightly toolchain with rustc-dev)
set -e
cd "$(dirname "$0")/engine/mirfacts"
CARGO_NET_OFFLINE=true CARGO_TARGET_DIR="$PWD/target" cargo +nightly build --release --offline
test -x target/release/mirfacts
