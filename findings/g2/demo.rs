// ============================================================================
// PART 1 of 2 -- append at the end of src/dns_cache.rs  (defect D)
// ============================================================================

#[cfg(test)]
mod verif_demo_g2 {
    use super::*;
    use crate::{
        dns_parser::{DnsAddress, DnsRecordExt, DnsSrv, RRType, CLASS_IN},
        service_info::MyIntf,
    };
    use std::collections::HashSet;
    use std::net::IpAddr;

    fn make_intf(name: &str, index: u32) -> MyIntf {
        MyIntf {
            name: name.to_string(),
            index,
            addrs: HashSet::new(),
        }
    }

    fn intf_id() -> InterfaceId {
        InterfaceId {
            name: "en0".to_string(),
            index: 1,
        }
    }

    /// D (part 1): `service_verify_queries` must shorten the expiry of the address
    /// records of the SRV target, regardless of the letter case of the SRV target.
    fn verify_shortens_addr_expiry(host: &str) {
        let instance = "my-svc._http._tcp.local.";
        let ip: IpAddr = "192.168.1.1".parse().unwrap();
        let intf = make_intf("en0", 1);

        let mut cache = DnsCache::new();
        let mut timers = Vec::new();

        cache.add_or_update(
            &intf,
            DnsSrv::new(instance, CLASS_IN, 4500, 0, 0, 80, host.to_string()).boxed(),
            &mut timers,
            true,
        );
        cache.add_or_update(
            &intf,
            DnsAddress::new(host, RRType::A, CLASS_IN, 4500, ip, intf_id()).boxed(),
            &mut timers,
            true,
        );

        let new_expire = current_time_millis() + 10_000;
        let queries = cache.service_verify_queries(instance, Some(new_expire));
        assert!(queries.contains(&(host.to_string(), RRType::A)));

        // SRV expiry was shortened (sanity).
        let srv_expire = cache.get_srv(instance).unwrap()[0].record.get_expire();
        assert_eq!(srv_expire, new_expire);

        // Address expiry must be shortened too.
        let addrs = cache.get_addr(host).expect("addr record is cached");
        assert_eq!(addrs.len(), 1);
        assert_eq!(
            addrs[0].record.get_expire(),
            new_expire,
            "address record of host {host} was not set to expire sooner by verify"
        );
    }

    #[test]
    fn verify_shortens_addr_expiry_lowercase_host() {
        verify_shortens_addr_expiry("myhost.local.");
    }

    #[test]
    fn verify_shortens_addr_expiry_mixed_case_host() {
        verify_shortens_addr_expiry("MyHost.local.");
    }

    /// D (part 2): `remove` must remove a cached address record regardless of
    /// the letter case of the record name.
    fn remove_addr_record(host: &str) {
        let ip: IpAddr = "192.168.1.1".parse().unwrap();
        let intf = make_intf("en0", 1);

        let mut cache = DnsCache::new();
        let mut timers = Vec::new();

        cache.add_or_update(
            &intf,
            DnsAddress::new(host, RRType::A, CLASS_IN, 4500, ip, intf_id()).boxed(),
            &mut timers,
            true,
        );
        assert_eq!(cache.addr_count(), 1);

        // A "goodbye" record (TTL 0) with exactly the same name as received before.
        let goodbye = DnsAddress::new(host, RRType::A, CLASS_IN, 0, ip, intf_id()).boxed();
        let found = cache.remove(&goodbye);
        assert!(
            found,
            "remove() did not find the address record of {}",
            host
        );
        assert_eq!(cache.addr_count(), 0);
    }

    #[test]
    fn remove_addr_record_lowercase_host() {
        remove_addr_record("myhost.local.");
    }

    #[test]
    fn remove_addr_record_mixed_case_host() {
        remove_addr_record("MyHost.local.");
    }
}

// ============================================================================
// PART 2 of 2 -- append at the end of src/service_daemon.rs  (defects A, B, C)
// Uses UDP ports 5471-5477 via ServiceDaemon::new_with_port.
// ============================================================================

#[cfg(test)]
mod verif_demo_g2 {
    use super::{my_ip_interfaces, HostnameResolutionEvent, ServiceDaemon, ServiceInfo};
    use std::time::Duration;

    fn metric(daemon: &ServiceDaemon, key: &str) -> i64 {
        let metrics = daemon
            .get_metrics()
            .unwrap()
            .recv_timeout(Duration::from_secs(2))
            .unwrap();
        metrics.get(key).copied().unwrap_or(0)
    }

    /// Registers one service with `instance_name` and returns the `register-resend`
    /// counter after the second announcement (1 second after the first one) is due.
    fn register_resend_count(port: u16, instance_name: &str, requires_probe: bool) -> i64 {
        let ip = my_ip_interfaces(false)
            .iter()
            .find(|iface| iface.ip().is_ipv4())
            .map(|iface| iface.ip())
            .expect("Test requires an IPv4 interface");

        let host_name = format!("{}-host.local.", instance_name.to_lowercase());
        let mut info = ServiceInfo::new(
            "_verif-g2-a._udp.local.",
            instance_name,
            &host_name,
            ip,
            8080,
            None,
        )
        .unwrap();
        info.set_requires_probe(requires_probe);

        let daemon = ServiceDaemon::new_with_port(port).unwrap();
        daemon.register(info).unwrap();

        // Probing (if any) takes ~1 second, the resend is 1 second after the first announce.
        let wait_millis = if requires_probe { 3000 } else { 1600 };
        std::thread::sleep(Duration::from_millis(wait_millis));

        let registered = metric(&daemon, "register");
        assert_eq!(registered, 1);
        let count = metric(&daemon, "register-resend");
        daemon.shutdown().unwrap();
        count
    }

    /// A: the second unsolicited announcement is sent for a lower case instance name.
    #[test]
    fn register_resend_lowercase_no_probe() {
        assert!(register_resend_count(5471, "mylower", false) >= 1);
    }

    /// A: the second unsolicited announcement must be sent for an instance name
    /// with capital letters as well. (`send_unsolicited_response` path)
    #[test]
    fn register_resend_uppercase_no_probe() {
        assert!(
            register_resend_count(5472, "MyUpper", false) >= 1,
            "no second announcement for an instance name with capital letters"
        );
    }

    /// A: same as above, `probing_handler` path.
    #[test]
    fn register_resend_uppercase_with_probe() {
        assert!(
            register_resend_count(5473, "MyUpperProbed", true) >= 1,
            "no second announcement (after probing) for an instance name with capital letters"
        );
    }

    /// B: after `stop_resolve_hostname`, the pending rerun must be purged, i.e.
    /// no more queries and no more events.
    fn stop_resolve_hostname_purges_rerun(port: u16, hostname: &str) {
        let daemon = ServiceDaemon::new_with_port(port).unwrap();
        let receiver = daemon.resolve_hostname(hostname, None).unwrap();

        let event = receiver.recv_timeout(Duration::from_millis(500)).unwrap();
        assert!(matches!(event, HostnameResolutionEvent::SearchStarted(_)));
        assert_eq!(metric(&daemon, "resolve-hostname"), 1);

        daemon.stop_resolve_hostname(hostname).unwrap();
        let event = receiver.recv_timeout(Duration::from_millis(500)).unwrap();
        assert!(matches!(event, HostnameResolutionEvent::SearchStopped(_)));

        // The first rerun was scheduled 1 second after the resolve started.
        let after_stop: Vec<_> =
            std::iter::from_fn(|| receiver.recv_timeout(Duration::from_millis(1500)).ok())
                .take(1)
                .collect();
        let count = metric(&daemon, "resolve-hostname");
        daemon.shutdown().unwrap();

        assert!(
            after_stop.is_empty(),
            "events after SearchStopped: {:?}",
            after_stop
        );
        assert_eq!(count, 1, "hostname queries continue after stop");
    }

    #[test]
    fn stop_resolve_hostname_purges_rerun_lowercase() {
        stop_resolve_hostname_purges_rerun(5474, "verif-g2-b-host.local.");
    }

    /// B: the rerun keeps the caller's spelling of the hostname, while the
    /// resolver is keyed by the lower case hostname.
    #[test]
    fn stop_resolve_hostname_purges_rerun_mixed_case() {
        stop_resolve_hostname_purges_rerun(5477, "Verif-G2-B-MiXeD.local.");
    }

    /// Resolves `hostname` with a timeout of 1500 ms and returns
    /// (`resolve-hostname` counter, events received after `SearchStopped`)
    /// observed 2 seconds after the timeout.
    fn resolve_hostname_with_timeout(
        port: u16,
        hostname: &str,
    ) -> (i64, Vec<HostnameResolutionEvent>) {
        let daemon = ServiceDaemon::new_with_port(port).unwrap();
        let receiver = daemon.resolve_hostname(hostname, Some(1500)).unwrap();

        // Runs at 0 ms and 1000 ms. The run at 1000 ms must not schedule a
        // rerun as it would be at 3000 ms, beyond the timeout.
        let mut stopped = false;
        while let Ok(event) = receiver.recv_timeout(Duration::from_millis(2500)) {
            if let HostnameResolutionEvent::SearchStopped(_) = event {
                stopped = true;
                break;
            }
        }
        assert!(stopped, "did not receive SearchStopped after timeout");

        let mut after_stop = Vec::new();
        while let Ok(event) = receiver.recv_timeout(Duration::from_millis(2000)) {
            after_stop.push(event);
        }
        let count = metric(&daemon, "resolve-hostname");
        daemon.shutdown().unwrap();
        (count, after_stop)
    }

    /// C: control, lower case hostname.
    #[test]
    fn resolve_hostname_timeout_lowercase() {
        let (count, after_stop) = resolve_hostname_with_timeout(5475, "verif-g2-c-lower.local.");
        assert!(after_stop.is_empty(), "events after stop: {:?}", after_stop);
        assert_eq!(count, 2);
    }

    /// C: no rerun beyond the timeout for a hostname with capital letters.
    #[test]
    fn resolve_hostname_timeout_mixed_case() {
        let (count, after_stop) = resolve_hostname_with_timeout(5476, "Verif-G2-C-MiXeD.local.");
        assert!(after_stop.is_empty(), "events after stop: {:?}", after_stop);
        assert_eq!(count, 2, "hostname queries continue beyond the timeout");
    }
}
