//! NOT a demonstration of change A or B: this test FAILS ON THE UNMODIFIED HEAD.
//! It was written for a first candidate change (`next_time < timeout` -> `<=` in
//! exec_command_resolve_hostname) that I dropped, because the run shows that the original code
//! already violates C13 around the same boundary (see "Side finding" in notes.md).
//!
//! Put this file at tests/c13_race_demo.rs and run
//!   cargo test --offline --test c13_race_demo -- --nocapture
//!
//! Five resolvers (different names nobody answers for) are started with timeouts
//! 1000..=1004 ms.  The first retransmission of each is due 1000 ms after the first query,
//! i.e. 0..4 ms before the resolver's deadline.  `next_time < deadline` holds, so the rerun is
//! queued; the run loop usually wakes up a millisecond or two late, finds both the deadline and
//! the rerun due, handles the deadline first (SearchTimeout, SearchStopped, resolver removed)
//! and then executes the rerun: SearchStarted after SearchStopped, one more query, and - as the
//! resolver and its deadline are gone - `unwrap_or(true)` keeps the chain alive for ever.
//!
//! Checked on every channel: SearchStarted first, SearchTimeout directly followed by
//! SearchStopped, nothing after SearchStopped (observed for 6 more seconds), and the daemon's
//! "resolve-hostname" counter does not move any more once all resolvers have stopped.

use mdns_sd::{HostnameResolutionEvent, ServiceDaemon};
use std::time::{Duration, Instant};

fn kind(e: &HostnameResolutionEvent) -> &'static str {
    match e {
        HostnameResolutionEvent::SearchStarted(_) => "SearchStarted",
        HostnameResolutionEvent::AddressesFound(..) => "AddressesFound",
        HostnameResolutionEvent::AddressesRemoved(..) => "AddressesRemoved",
        HostnameResolutionEvent::SearchTimeout(_) => "SearchTimeout",
        HostnameResolutionEvent::SearchStopped(_) => "SearchStopped",
        _ => "other",
    }
}

#[test]
fn c13_a_timeout_on_retransmission_boundary() {
    let d = ServiceDaemon::new().expect("daemon");
    let t0 = Instant::now();

    let timeouts: Vec<u64> = (1000..=1004).collect();
    let chans: Vec<_> = timeouts
        .iter()
        .map(|t| {
            let host = format!("c13a-nobody-{t}.local.");
            let rx = d.resolve_hostname(&host, Some(*t)).expect("resolve_hostname");
            (host, rx)
        })
        .collect();

    // Collect events (with arrival time) for 2 s: every resolver must have stopped by then.
    let mut logs: Vec<Vec<(u128, &'static str)>> = vec![Vec::new(); chans.len()];
    let drain = |logs: &mut Vec<Vec<(u128, &'static str)>>, until: Duration| {
        while t0.elapsed() < until {
            for (i, (_, rx)) in chans.iter().enumerate() {
                while let Ok(e) = rx.try_recv() {
                    logs[i].push((t0.elapsed().as_millis(), kind(&e)));
                }
            }
            std::thread::sleep(Duration::from_millis(5));
        }
    };
    drain(&mut logs, Duration::from_millis(2000));

    let queries_at_stop = d.get_metrics().unwrap().recv().unwrap()["resolve-hostname"];

    // Keep watching the channels and the query counter long after the stop.
    drain(&mut logs, Duration::from_millis(8000));
    let queries_later = d.get_metrics().unwrap().recv().unwrap()["resolve-hostname"];

    let mut violations = Vec::new();
    for (i, (host, _)) in chans.iter().enumerate() {
        println!("{host}: {:?}", logs[i]);
        let kinds: Vec<&str> = logs[i].iter().map(|(_, k)| *k).collect();
        if kinds.first() != Some(&"SearchStarted") {
            violations.push(format!("{host}: first event is {:?}", kinds.first()));
        }
        match kinds.iter().position(|k| *k == "SearchStopped") {
            None => violations.push(format!("{host}: no SearchStopped")),
            Some(p) => {
                if p == 0 || kinds[p - 1] != "SearchTimeout" {
                    violations.push(format!("{host}: SearchStopped not preceded by SearchTimeout"));
                }
                if p + 1 != kinds.len() {
                    violations.push(format!(
                        "{host}: {} event(s) after SearchStopped: {:?}",
                        kinds.len() - p - 1,
                        &logs[i][p + 1..]
                    ));
                }
            }
        }
    }
    println!("resolve-hostname query rounds: {queries_at_stop} at t=2s, {queries_later} at t=8s");
    if queries_later != queries_at_stop {
        violations.push(format!(
            "{} more A/AAAA query round(s) were sent after every resolver had stopped",
            queries_later - queries_at_stop
        ));
    }

    d.shutdown().unwrap();
    assert!(violations.is_empty(), "C13 violated:\n  {}", violations.join("\n  "));
}
