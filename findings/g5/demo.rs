
// Demonstration tests for suspected defects A-D in src/dns_cache.rs.
// Appended at the end of src/dns_cache.rs; every test FAILS on unmodified 0.20.1, except
// `b_foreign_record_still_updates_known_name` which is a regression guard for repair B.
#[cfg(test)]
mod verif_demo_g5 {
    use super::*;
    use crate::{
        dns_parser::{
            DnsAddress, DnsNSec, DnsPointer, DnsRecordExt, DnsSrv, DnsTxt, RRType, CLASS_IN,
        },
        service_info::MyIntf,
    };
    use std::collections::HashSet;
    use std::net::IpAddr;

    const TY: &str = "_http._tcp.local.";
    const SUB_TY: &str = "_printer._sub._http._tcp.local.";
    const INSTANCE: &str = "my-svc._http._tcp.local.";
    const HOST: &str = "myhost.local.";

    fn make_intf(name: &str, index: u32) -> MyIntf {
        MyIntf {
            name: name.to_string(),
            index,
            addrs: HashSet::new(),
        }
    }

    fn intf_id(name: &str, index: u32) -> InterfaceId {
        InterfaceId {
            name: name.to_string(),
            index,
        }
    }

    // ---------------------------------------------------------------- A

    /// A1: SRV / TXT / NSEC records cached (is_for_us) without any PTR record
    /// are never evicted by the TTL sweep.
    #[test]
    fn a1_srv_txt_nsec_without_ptr_are_evicted_on_expiry() {
        let intf = make_intf("en0", 1);
        let mut cache = DnsCache::new();
        let mut timers = Vec::new();

        cache.add_or_update(
            &intf,
            DnsSrv::new(INSTANCE, CLASS_IN, 1, 0, 0, 80, HOST.to_string()).boxed(),
            &mut timers,
            true,
        );
        cache.add_or_update(
            &intf,
            DnsTxt::new(INSTANCE, CLASS_IN, 1, vec![]).boxed(),
            &mut timers,
            true,
        );
        cache.add_or_update(
            &intf,
            DnsNSec::new(INSTANCE, CLASS_IN, 1, INSTANCE.to_string(), vec![]).boxed(),
            &mut timers,
            true,
        );
        assert_eq!(
            (cache.srv_count(), cache.txt_count(), cache.nsec_count()),
            (1, 1, 1)
        );

        let now = current_time_millis();
        let expired = cache.evict_expired_services(now + 5000);

        // No PTR -> nothing to report to listeners.
        assert!(expired.is_empty(), "unexpected report: {:?}", expired);

        assert_eq!(
            (cache.srv_count(), cache.txt_count(), cache.nsec_count()),
            (0, 0, 0),
            "(srv, txt, nsec) records still cached 4 s after their TTL"
        );
        assert_eq!(
            (cache.srv.len(), cache.txt.len(), cache.nsec.len()),
            (0, 0, 0),
            "(srv, txt, nsec) keys left behind"
        );
    }

    /// A2: an expired NSEC is never evicted even when the instance is PTR-reachable,
    /// and the TXT key is left behind with an empty Vec.
    #[test]
    fn a2_nsec_and_txt_key_of_ptr_reachable_instance_are_evicted() {
        let intf = make_intf("en0", 1);
        let mut cache = DnsCache::new();
        let mut timers = Vec::new();

        cache.add_or_update(
            &intf,
            DnsPointer::new(TY, RRType::PTR, CLASS_IN, 1, INSTANCE.to_string()).boxed(),
            &mut timers,
            true,
        );
        cache.add_or_update(
            &intf,
            DnsSrv::new(INSTANCE, CLASS_IN, 1, 0, 0, 80, HOST.to_string()).boxed(),
            &mut timers,
            true,
        );
        cache.add_or_update(
            &intf,
            DnsTxt::new(INSTANCE, CLASS_IN, 1, vec![]).boxed(),
            &mut timers,
            true,
        );
        cache.add_or_update(
            &intf,
            DnsNSec::new(INSTANCE, CLASS_IN, 1, INSTANCE.to_string(), vec![]).boxed(),
            &mut timers,
            true,
        );

        let now = current_time_millis();
        let expired = cache.evict_expired_services(now + 5000);

        // The report for the PTR-reachable instance is what it has always been.
        assert_eq!(expired.len(), 1);
        assert_eq!(expired[TY], HashSet::from([INSTANCE.to_string()]));

        assert_eq!(cache.ptr_count(), 0);
        assert_eq!(cache.srv_count(), 0);
        assert_eq!(cache.txt_count(), 0);
        assert_eq!(cache.nsec_count(), 0, "expired NSEC still cached");
        assert_eq!(
            (
                cache.ptr.len(),
                cache.srv.len(),
                cache.txt.len(),
                cache.nsec.len()
            ),
            (0, 0, 0, 0),
            "(ptr, srv, txt, nsec) keys left behind"
        );
    }

    /// A3: `subtype` never shrinks: the mapping stays after the PTR records of
    /// the instance have expired and were evicted.
    #[test]
    fn a3_subtype_entry_is_dropped_when_ptr_expires() {
        let intf = make_intf("en0", 1);
        let mut cache = DnsCache::new();
        let mut timers = Vec::new();

        for i in 0..10 {
            let instance = format!("svc-{i}.{TY}");
            cache.add_or_update(
                &intf,
                DnsPointer::new(SUB_TY, RRType::PTR, CLASS_IN, 1, instance).boxed(),
                &mut timers,
                true,
            );
        }
        // one long-lived instance must keep its mapping.
        cache.add_or_update(
            &intf,
            DnsPointer::new(SUB_TY, RRType::PTR, CLASS_IN, 4500, INSTANCE.to_string()).boxed(),
            &mut timers,
            true,
        );
        assert_eq!(cache.subtype_count(), 11);

        let now = current_time_millis();
        let expired = cache.evict_expired_services(now + 5000);
        assert_eq!(expired[SUB_TY].len(), 10);
        assert_eq!(cache.ptr_count(), 1);

        assert_eq!(
            cache.subtype_count(),
            1,
            "subtype mappings of evicted instances still cached"
        );
        assert_eq!(
            cache.get_subtype(INSTANCE).map(|s| s.as_str()),
            Some(SUB_TY)
        );
    }

    // ---------------------------------------------------------------- B

    /// B: records that are not for us must not leave map keys behind.
    #[test]
    fn b_foreign_records_do_not_create_keys() {
        let intf = make_intf("en0", 1);
        let mut cache = DnsCache::new();
        let mut timers = Vec::new();

        for i in 0..100 {
            let ty = format!("_foreign{i}._tcp.local.");
            let instance = format!("inst-{i}.{ty}");
            let host = format!("Host-{i}.local.");
            let ip: IpAddr = format!("10.0.0.{i}").parse().unwrap();

            let records: Vec<DnsRecordBox> = vec![
                DnsPointer::new(&ty, RRType::PTR, CLASS_IN, 4500, instance.clone()).boxed(),
                DnsSrv::new(&instance, CLASS_IN, 120, 0, 0, 80, host.clone()).boxed(),
                DnsTxt::new(&instance, CLASS_IN, 4500, vec![]).boxed(),
                DnsAddress::new(&host, RRType::A, CLASS_IN, 120, ip, intf_id("en0", 1)).boxed(),
                DnsNSec::new(&instance, CLASS_IN, 120, instance.clone(), vec![]).boxed(),
            ];
            for record in records {
                assert!(cache
                    .add_or_update(&intf, record, &mut timers, false)
                    .is_none());
            }
        }

        // The metrics look fine ...
        assert_eq!(
            (
                cache.ptr_count(),
                cache.srv_count(),
                cache.txt_count(),
                cache.addr_count(),
                cache.nsec_count()
            ),
            (0, 0, 0, 0, 0)
        );
        // ... but the key sets must be empty as well.
        assert_eq!(
            (
                cache.ptr.len(),
                cache.srv.len(),
                cache.txt.len(),
                cache.addr.len(),
                cache.nsec.len()
            ),
            (0, 0, 0, 0, 0),
            "(ptr, srv, txt, addr, nsec) keys created by foreign traffic"
        );
    }

    /// B (regression guard): a record that is not for us still refreshes a
    /// record that is already cached, incl. address records stored lower-cased.
    #[test]
    fn b_foreign_record_still_updates_known_name() {
        let intf = make_intf("en0", 1);
        let mut cache = DnsCache::new();
        let mut timers = Vec::new();
        let ip: IpAddr = "10.0.0.1".parse().unwrap();

        let (_, is_new) = cache
            .add_or_update(
                &intf,
                DnsAddress::new(
                    "MyHost.local.",
                    RRType::A,
                    CLASS_IN,
                    120,
                    ip,
                    intf_id("en0", 1),
                )
                .boxed(),
                &mut timers,
                true,
            )
            .unwrap();
        assert!(is_new);

        let (_, is_new) = cache
            .add_or_update(
                &intf,
                DnsAddress::new(
                    "MyHost.local.",
                    RRType::A,
                    CLASS_IN,
                    120,
                    ip,
                    intf_id("en0", 1),
                )
                .boxed(),
                &mut timers,
                false,
            )
            .expect("known name must be updated even if the packet is not for us");
        assert!(!is_new);
        assert_eq!(cache.addr_count(), 1);
        assert_eq!(cache.addr.len(), 1);
    }

    // ---------------------------------------------------------------- C

    fn fill_one_subtyped_instance(cache: &mut DnsCache, intf: &MyIntf, id: InterfaceId) {
        let mut timers = Vec::new();
        let ip: IpAddr = "192.168.1.1".parse().unwrap();
        let records: Vec<DnsRecordBox> = vec![
            DnsPointer::new(TY, RRType::PTR, CLASS_IN, 4500, INSTANCE.to_string()).boxed(),
            DnsPointer::new(SUB_TY, RRType::PTR, CLASS_IN, 4500, INSTANCE.to_string()).boxed(),
            DnsSrv::new(INSTANCE, CLASS_IN, 120, 0, 0, 80, HOST.to_string()).boxed(),
            DnsTxt::new(INSTANCE, CLASS_IN, 4500, vec![]).boxed(),
            DnsAddress::new(HOST, RRType::A, CLASS_IN, 120, ip, id).boxed(),
            DnsNSec::new(INSTANCE, CLASS_IN, 120, INSTANCE.to_string(), vec![]).boxed(),
        ];
        for record in records {
            cache.add_or_update(intf, record, &mut timers, true);
        }
        assert_eq!(cache.ptr_count(), 2);
        assert_eq!(cache.srv_count(), 1);
        assert_eq!(cache.txt_count(), 1);
        assert_eq!(cache.addr_count(), 1);
        assert_eq!(cache.nsec_count(), 1);
        assert_eq!(cache.subtype_count(), 1);
    }

    /// C1: stop-browse leaves the NSEC and subtype entries of the instances.
    #[test]
    fn c1_remove_service_type_drops_nsec_and_subtype() {
        let intf = make_intf("en0", 1);
        let mut cache = DnsCache::new();
        fill_one_subtyped_instance(&mut cache, &intf, intf_id("en0", 1));

        cache.remove_service_type(SUB_TY);
        cache.remove_service_type(TY);

        assert_eq!(cache.ptr_count(), 0);
        assert_eq!(cache.srv_count(), 0);
        assert_eq!(cache.txt_count(), 0);
        assert_eq!(cache.addr_count(), 0);
        assert_eq!(cache.nsec_count(), 0, "NSEC left behind by stop-browse");
        assert_eq!(
            cache.subtype_count(),
            0,
            "subtype left behind by stop-browse"
        );
    }

    /// C2: interface removal leaves the subtype entry of fully removed instances.
    #[test]
    fn c2_remove_records_on_intf_drops_subtype() {
        let intf = make_intf("en0", 1);
        let mut cache = DnsCache::new();
        fill_one_subtyped_instance(&mut cache, &intf, intf_id("en0", 1));

        let result = cache.remove_records_on_intf(intf_id("en0", 1));
        assert_eq!(result.removed_instances.len(), 2);
        assert!(result.removed_instances[TY].contains(INSTANCE));
        assert!(result.removed_instances[SUB_TY].contains(INSTANCE));

        assert_eq!(cache.ptr_count(), 0);
        assert_eq!(cache.srv_count(), 0);
        assert_eq!(cache.txt_count(), 0);
        assert_eq!(cache.addr_count(), 0);
        assert_eq!(cache.nsec_count(), 0);
        assert_eq!(
            cache.subtype_count(),
            0,
            "subtype left behind by interface removal"
        );
    }

    // ---------------------------------------------------------------- D

    /// D: an address record past its TTL that was not evicted yet must not be
    /// listed (the result feeds `HostnameResolutionEvent::AddressesFound`).
    #[test]
    fn d_get_addresses_for_host_skips_expired_records() {
        let intf = make_intf("en0", 1);
        let mut cache = DnsCache::new();
        let mut timers = Vec::new();
        let stale: IpAddr = "192.168.1.1".parse().unwrap();
        let live: IpAddr = "192.168.1.2".parse().unwrap();

        cache.add_or_update(
            &intf,
            DnsAddress::new(HOST, RRType::A, CLASS_IN, 1, stale, intf_id("en0", 1)).boxed(),
            &mut timers,
            true,
        );
        cache.add_or_update(
            &intf,
            DnsAddress::new(HOST, RRType::A, CLASS_IN, 120, live, intf_id("en0", 1)).boxed(),
            &mut timers,
            true,
        );

        let ips = |cache: &DnsCache| -> HashSet<IpAddr> {
            cache
                .get_addresses_for_host(HOST)
                .values()
                .flatten()
                .map(|scoped| scoped.to_ip_addr())
                .collect()
        };
        assert_eq!(ips(&cache), HashSet::from([stale, live]));

        // Let the TTL-1 record expire, no eviction in between.
        std::thread::sleep(std::time::Duration::from_millis(1100));
        assert_eq!(cache.addr_count(), 2);

        assert_eq!(
            ips(&cache),
            HashSet::from([live]),
            "expired address reported as found"
        );
    }
}
