// ---------------------------------------------------------------------------
// Finding g10 (C04): when an interface loses its address, DnsCache::remove_addrs_on_disabled_intf
// removes the address records learned there but leaves the host's (now empty) vector in the `addr`
// map. `query_unresolved` decides that addresses are missing with `get_addr(host).is_none()`, so for
// an instance of that host whose SRV is still cached it never asks the A/AAAA follow-up question: the
// retry chain `Command::Resolve` stops at once and the instance stays unresolved until the responder
// happens to re-announce.
// Append this module to src/service_daemon.rs and run
//   cargo test --offline --lib verif_demo_g10 -- --nocapture --test-threads=1
// ---------------------------------------------------------------------------
#[cfg(test)]
mod verif_demo_g10 {
    use super::{my_ip_interfaces, Command, Zeroconf, LOOPBACK_V4};
    use crate::{
        dns_parser::{
            DnsAddress, DnsIncoming, DnsOutgoing, DnsPointer, DnsSrv, DnsTxt, InterfaceId, RRType, CLASS_CACHE_FLUSH,
            CLASS_IN, FLAGS_AA, FLAGS_QR_RESPONSE,
        },
        Receiver,
    };
    use flume::bounded;
    use if_addrs::Interface;
    use mio::{net::UdpSocket as MioUdpSocket, Poll};
    use std::net::{SocketAddrV4, UdpSocket};

    fn zeroconf_on_port(port: u16) -> (Zeroconf, Receiver<Command>) {
        let signal_sock = UdpSocket::bind(SocketAddrV4::new(LOOPBACK_V4, 0)).unwrap();
        let signal_addr = signal_sock.local_addr().unwrap();
        signal_sock.set_nonblocking(true).unwrap();
        let poller = Poll::new().unwrap();
        let (sender, receiver) = bounded(100);
        let zc = Zeroconf::new(MioUdpSocket::from_std(signal_sock), poller, port, sender, signal_addr);
        (zc, receiver)
    }

    fn ipv4_intf() -> Interface {
        my_ip_interfaces(false)
            .into_iter()
            .find(|intf| intf.ip().is_ipv4())
            .expect("test requires an IPv4 interface")
    }

    #[test]
    fn verif_demo_g10_no_address_followup_after_interface_lost_its_address() {
        let (mut zc, _rx) = zeroconf_on_port(54110);
        let intf = ipv4_intf();
        let if_index = intf.index.unwrap_or(0);
        let ty = "_g10._udp.local.";
        let instance = "inst._g10._udp.local.";
        let host = "g10-host.local.";

        // a browse for the type is running
        let (browse_tx, _browse_rx) = bounded(100);
        zc.service_queriers.insert(ty.to_string(), browse_tx);

        // the complete record set of the instance arrives
        let mut out = DnsOutgoing::new(FLAGS_QR_RESPONSE | FLAGS_AA);
        out.add_answer_at_time(DnsPointer::new(ty, RRType::PTR, CLASS_IN, 4500, instance.to_string()), 0);
        out.add_answer_at_time(
            DnsSrv::new(instance, CLASS_IN | CLASS_CACHE_FLUSH, 120, 0, 0, 5200, host.to_string()),
            0,
        );
        out.add_answer_at_time(DnsTxt::new(instance, CLASS_IN | CLASS_CACHE_FLUSH, 4500, vec![0]), 0);
        out.add_answer_at_time(
            DnsAddress::new(host, RRType::A, CLASS_IN | CLASS_CACHE_FLUSH, 120, intf.ip(), InterfaceId::from(&intf)),
            0,
        );
        let data = out.to_data_on_wire().pop().unwrap();
        zc.handle_response(DnsIncoming::new(data, InterfaceId::from(&intf)).unwrap(), if_index);
        assert_eq!(zc.cache.get_addr(host).map(|v| v.len()), Some(1), "address cached");
        assert!(zc.cache.get_srv(instance).is_some(), "SRV cached");

        // the interface loses its address (DHCP change, cable pulled, ...)
        zc.del_interface_addr(&intf);
        zc.add_interface(intf.clone());

        let left = zc.cache.get_addr(host).map(|v| v.len());
        println!("g10: addr entry of the host after the interface lost its address: {left:?}");
        assert!(zc.cache.get_srv(instance).is_some(), "SRV is still cached");

        // the follow-up of a pending resolve: the address is missing, so it has to ask for it
        let asked = zc.query_unresolved(instance);
        println!("g10: query_unresolved asked for the missing address: {asked}");
        assert!(
            asked,
            "no address record of {} is cached (entry: {:?}) but the A/AAAA follow-up question is not sent", host, left
        );
    }
}
