// ---------------------------------------------------------------------------
// Finding g9 (C08, C06): after a conflict rename, direct SRV/TXT/ANY questions are matched through
// `resolve_name(<lower-cased my_services key>)`, but DnsRegistry.name_changes is keyed by the name as
// registered. For an instance name with a capital letter the lookup misses: the renamed service does
// not answer for its NEW name and keeps answering for the name it LOST.
// Append this module to src/service_daemon.rs and run
//   cargo test --offline --lib verif_demo_g9 -- --nocapture --test-threads=1
// ---------------------------------------------------------------------------
#[cfg(test)]
mod verif_demo_g9 {
    use super::{my_ip_interfaces, Command, Zeroconf, LOOPBACK_V4};
    use crate::{
        dns_parser::{DnsIncoming, DnsOutgoing, DnsSrv, InterfaceId, RRType, FLAGS_QR_QUERY},
        service_info::{ServiceInfo, ServiceStatus},
        Receiver,
    };
    use flume::bounded;
    use if_addrs::Interface;
    use mio::{net::UdpSocket as MioUdpSocket, Poll};
    use std::{
        net::{SocketAddrV4, UdpSocket},
        time::Duration,
    };

    fn zeroconf_on_port(port: u16) -> (Zeroconf, Receiver<Command>) {
        let signal_sock = UdpSocket::bind(SocketAddrV4::new(LOOPBACK_V4, 0)).unwrap();
        let signal_addr = signal_sock.local_addr().unwrap();
        signal_sock.set_nonblocking(true).unwrap();
        let poller = Poll::new().unwrap();
        let (sender, receiver) = bounded(100);
        let zc = Zeroconf::new(
            MioUdpSocket::from_std(signal_sock),
            poller,
            port,
            sender,
            signal_addr,
        );
        (zc, receiver)
    }

    fn ipv4_intf() -> Interface {
        my_ip_interfaces(false)
            .into_iter()
            .find(|intf| intf.ip().is_ipv4())
            .expect("test requires an IPv4 interface")
    }

    /// Asks one SRV question by legacy unicast and returns the SRV answers' owner names.
    fn ask_srv(zc: &mut Zeroconf, intf: &Interface, qname: &str) -> Vec<String> {
        let if_index = intf.index.unwrap_or(0);
        let querier = UdpSocket::bind((intf.ip(), 0)).unwrap();
        querier
            .set_read_timeout(Some(Duration::from_millis(500)))
            .unwrap();
        let mut query = DnsOutgoing::new(FLAGS_QR_QUERY);
        query.add_question(qname, RRType::SRV);
        let data = query.to_data_on_wire().pop().unwrap();
        let msg = DnsIncoming::new(data, InterfaceId::from(intf)).unwrap();
        zc.handle_query(msg, if_index, querier.local_addr().unwrap());
        let mut buf = [0u8; 1500];
        let Ok((len, _)) = querier.recv_from(&mut buf) else {
            return Vec::new();
        };
        let resp = DnsIncoming::new(buf[..len].to_vec(), InterfaceId::from(intf)).unwrap();
        resp.answers()
            .iter()
            .filter(|r| r.any().downcast_ref::<DnsSrv>().is_some())
            .map(|r| r.get_name().to_string())
            .collect()
    }

    fn renamed_service(zc: &mut Zeroconf, intf: &Interface, instance: &str, ty: &str) -> (String, String) {
        let if_index = intf.index.unwrap_or(0);
        let mut info = ServiceInfo::new(ty, instance, "g9-host.local.", intf.ip(), 5200, None).unwrap();
        info.set_status(if_index, ServiceStatus::Announced);
        let fullname = info.get_fullname().to_string();
        let new_name = format!("{instance} (2).{ty}");
        zc.my_services.insert(fullname.to_lowercase(), info);
        // the state a lost conflict leaves behind (what handle_expired_probes / conflict_handler insert)
        zc.dns_registry_map
            .get_mut(&if_index)
            .unwrap()
            .name_changes
            .insert(fullname.clone(), new_name.clone());
        (fullname, new_name)
    }

    #[test]
    fn g9_renamed_service_answers_for_its_new_name_only() {
        let (mut zc, _rx) = zeroconf_on_port(5478);
        let intf = ipv4_intf();
        let mut failures = Vec::new();
        for instance in ["g9lower", "G9Mixed"] {
            let (old, new) = renamed_service(&mut zc, &intf, instance, "_g9._udp.local.");
            let for_new = ask_srv(&mut zc, &intf, &new);
            let for_old = ask_srv(&mut zc, &intf, &old);
            println!("{instance}: SRV question for the NEW name answered with {for_new:?}; for the LOST name with {for_old:?}");
            if for_new.is_empty() {
                failures.push(format!("{instance}: no answer to a SRV question for its new name {new}"));
            }
            if !for_old.is_empty() {
                failures.push(format!("{instance}: still answers SRV questions for the name it lost ({old})"));
            }
        }
        assert!(failures.is_empty(), "C08/C06 broken: {:#?}", failures);
    }
}
