// ---------------------------------------------------------------------------
// Finding g11 (C05): an instance is browsed both by its type and by a subtype.  The responder vanishes without a goodbye,
// so the SRV (TTL 120 s) runs out long before the PTRs (TTL 4500 s).  DnsCache::evict_expired_services walks the PTR
// names; for the first name that lists the instance it empties `srv[instance]`, reports the instance under that name and
// removes the key — for the second name `srv.get_mut(instance)` is None and nothing is reported.  One of the two browsers
// never hears ServiceRemoved at the SRV's expiry (which of them depends on HashMap iteration order).
// Append this module to src/service_daemon.rs and run
//   cargo test --offline --lib verif_demo_g11 -- --nocapture --test-threads=1
// ---------------------------------------------------------------------------
#[cfg(test)]
mod verif_demo_g11 {
    use super::{my_ip_interfaces, Command, Zeroconf, LOOPBACK_V4};
    use crate::{
        dns_parser::{
            DnsAddress, DnsIncoming, DnsOutgoing, DnsPointer, DnsSrv, DnsTxt, InterfaceId, RRType,
            CLASS_CACHE_FLUSH, CLASS_IN, FLAGS_AA, FLAGS_QR_RESPONSE,
        },
        current_time_millis, Receiver, ServiceEvent,
    };
    use flume::bounded;
    use if_addrs::Interface;
    use mio::{net::UdpSocket as MioUdpSocket, Poll};
    use std::net::{SocketAddrV4, UdpSocket};

    fn zeroconf_on_port(port: u16) -> (Zeroconf, Receiver<Command>) {
        let signal_sock = UdpSocket::bind(SocketAddrV4::new(LOOPBACK_V4, 0)).unwrap();
        let signal_addr = signal_sock.local_addr().unwrap();
        signal_sock.set_nonblocking(true).unwrap();
        let poller = Poll::new().unwrap();
        let (sender, receiver) = bounded(100);
        let zc = Zeroconf::new(MioUdpSocket::from_std(signal_sock), poller, port, sender, signal_addr);
        (zc, receiver)
    }

    fn ipv4_intf() -> Interface {
        my_ip_interfaces(false)
            .into_iter()
            .find(|intf| intf.ip().is_ipv4())
            .expect("test requires an IPv4 interface")
    }

    fn removed(rx: &Receiver<ServiceEvent>) -> Vec<String> {
        let mut out = Vec::new();
        while let Ok(ev) = rx.try_recv() {
            if let ServiceEvent::ServiceRemoved(ty, name) = ev {
                out.push(format!("{ty} {name}"));
            }
        }
        out
    }

    #[test]
    fn verif_demo_g11_srv_expiry_is_reported_to_type_and_subtype_browsers() {
        let (mut zc, _rx) = zeroconf_on_port(54111);
        let intf = ipv4_intf();
        let if_index = intf.index.unwrap_or(0);
        let ty = "_g11._udp.local.";
        let sub = "_printer._sub._g11._udp.local.";
        let instance = "inst._g11._udp.local.";
        let host = "g11-host.local.";

        // one browse for the type and one for the subtype
        let (ty_tx, ty_rx) = bounded(100);
        let (sub_tx, sub_rx) = bounded(100);
        zc.service_queriers.insert(ty.to_string(), ty_tx);
        zc.service_queriers.insert(sub.to_string(), sub_tx);

        // the announcement: PTRs and address with the long TTL, SRV with the short (host) TTL
        let mut out = DnsOutgoing::new(FLAGS_QR_RESPONSE | FLAGS_AA);
        out.add_answer_at_time(DnsPointer::new(ty, RRType::PTR, CLASS_IN, 4500, instance.to_string()), 0);
        out.add_answer_at_time(DnsPointer::new(sub, RRType::PTR, CLASS_IN, 4500, instance.to_string()), 0);
        out.add_answer_at_time(
            DnsSrv::new(instance, CLASS_IN | CLASS_CACHE_FLUSH, 120, 0, 0, 5200, host.to_string()),
            0,
        );
        out.add_answer_at_time(DnsTxt::new(instance, CLASS_IN | CLASS_CACHE_FLUSH, 4500, vec![0]), 0);
        out.add_answer_at_time(
            DnsAddress::new(host, RRType::A, CLASS_IN | CLASS_CACHE_FLUSH, 4500, intf.ip(), InterfaceId::from(&intf)),
            0,
        );
        let data = out.to_data_on_wire().pop().unwrap();
        zc.handle_response(DnsIncoming::new(data, InterfaceId::from(&intf)).unwrap(), if_index);
        let resolved = |rx: &Receiver<ServiceEvent>| {
            let mut n = 0;
            while let Ok(ev) = rx.try_recv() {
                if matches!(ev, ServiceEvent::ServiceResolved(_)) {
                    n += 1;
                }
            }
            n
        };
        assert_eq!((resolved(&ty_rx), resolved(&sub_rx)), (1, 1), "both browsers were told about the instance");

        // 121 s later the SRV has run out unrefreshed: what the run loop does on that wake-up
        let later = current_time_millis() + 121_000;
        let expired = zc.cache.evict_expired_services(later);
        zc.notify_service_removal(expired);

        let (a, b) = (removed(&ty_rx), removed(&sub_rx));
        println!("g11: type browser got {a:?}, subtype browser got {b:?}");
        assert_eq!(a.len(), 1, "the type browser hears ServiceRemoved when the SRV runs out");
        assert_eq!(b.len(), 1, "the subtype browser hears ServiceRemoved when the SRV runs out");
    }
}
