// demo.rs -- demonstration tests for defect group g4 (mdns-sd 0.20.1)
//
// WHERE IT GOES: all four tests are unit tests. Append the module below verbatim
// to the END of `src/service_daemon.rs` (after the existing `mod tests { .. }`);
// it needs the private items `Zeroconf`, `Command`, `LOOPBACK_V4`,
// `ServiceStatus`, `unregister_service`, `handle_query`,
// `exec_command_unregister`, `cleanup`.
//
// Run:  cargo test --offline --lib verif_demo_g4
//
// The module compiles unchanged against both the unmodified tree and the
// repaired tree (defect A is exercised through `handle_query`, so the changed
// signature of `add_answer_of_service` does not matter).
//
//   test                                      defect  unmodified  repaired
//   g4_a_srv_answer_uses_renamed_host           A       FAIL        ok
//   g4_b_goodbye_uses_renamed_names             B       FAIL        ok
//   g4_c_unregister_skips_unannounced_intf      C       FAIL        ok
//   g4_c_cleanup_skips_unannounced_intf         C       FAIL        ok
//
// The tests use private UDP ports 5474..5477 and need one non-loopback IPv4
// interface with multicast loopback (same requirement as the crate's own tests).

/// Demonstration tests for defect group g4 (renamed names / goodbye scope).
///
/// All tests build a `Zeroconf` directly (no daemon thread) on a private UDP
/// port, set up `my_services` / `dns_registry_map` by hand, call the function
/// under test and inspect the packet it produced.
#[cfg(test)]
mod verif_demo_g4 {
    use super::{my_ip_interfaces, Command, UnregisterStatus, Zeroconf, LOOPBACK_V4};
    use crate::{
        dns_parser::{
            DnsAddress, DnsIncoming, DnsOutgoing, DnsPointer, DnsRecordExt, DnsSrv, InterfaceId,
            RRType, FLAGS_QR_QUERY,
        },
        service_info::{ServiceInfo, ServiceStatus},
        Receiver,
    };
    use flume::bounded;
    use if_addrs::Interface;
    use mio::{net::UdpSocket as MioUdpSocket, Poll};
    use std::{
        net::{SocketAddrV4, UdpSocket},
        thread::sleep,
        time::Duration,
    };
    use test_log::test;

    /// Builds a `Zeroconf` the same way `ServiceDaemon::daemon_thread` does,
    /// but without running its event loop.
    fn zeroconf_on_port(port: u16) -> (Zeroconf, Receiver<Command>) {
        let signal_sock = UdpSocket::bind(SocketAddrV4::new(LOOPBACK_V4, 0)).unwrap();
        let signal_addr = signal_sock.local_addr().unwrap();
        signal_sock.set_nonblocking(true).unwrap();
        let poller = Poll::new().unwrap();
        let (sender, receiver) = bounded(100);
        let zc = Zeroconf::new(
            MioUdpSocket::from_std(signal_sock),
            poller,
            port,
            sender,
            signal_addr,
        );
        (zc, receiver)
    }

    /// The first non-loopback IPv4 interface, like other tests in this crate.
    fn ipv4_intf() -> Interface {
        my_ip_interfaces(false)
            .into_iter()
            .find(|intf| intf.ip().is_ipv4())
            .expect("test requires an IPv4 interface")
    }

    /// Reads everything pending on the daemon's own IPv4 socket (it receives
    /// its own multicasts via IP_MULTICAST_LOOP) and returns all goodbye records
    /// as (name, type) pairs. Note: `DnsIncoming` stores a wire TTL of 0 as 1.
    fn drain_goodbyes(zc: &Zeroconf, intf: &Interface) -> Vec<(String, RRType)> {
        let sock = zc.ipv4_sock.as_ref().unwrap();
        let mut goodbyes = Vec::new();
        let mut buf = vec![0u8; 9000];
        while let Ok((sz, _)) = sock.pktinfo.recv(&mut buf) {
            let Ok(msg) = DnsIncoming::new(buf[..sz].to_vec(), InterfaceId::from(intf)) else {
                continue;
            };
            for record in msg.all_records() {
                if record.get_record().get_ttl() <= 1 {
                    goodbyes.push((record.get_name().to_string(), record.get_type()));
                }
            }
        }
        goodbyes
    }

    /// Defect A: a direct SRV question for an instance whose *host* was renamed
    /// on this interface must be answered with the new host name, both in the
    /// SRV target and in the additional address records.
    #[test]
    fn g4_a_srv_answer_uses_renamed_host() {
        let (mut zc, _rx) = zeroconf_on_port(5474);
        let intf = ipv4_intf();
        let if_index = intf.index.unwrap_or(0);
        let ip = intf.ip();

        let host = "g4a-host.local.";
        let new_host = "g4a-host-2.local.";
        let mut info = ServiceInfo::new("_g4a._udp.local.", "inst", host, ip, 5200, None).unwrap();
        info.set_status(if_index, ServiceStatus::Announced);
        let fullname = info.get_fullname().to_string();
        zc.my_services.insert(fullname.to_lowercase(), info);

        // The state left behind by a host name conflict on `if_index`.
        zc.dns_registry_map
            .get_mut(&if_index)
            .unwrap()
            .name_changes
            .insert(host.to_string(), new_host.to_string());

        // A legacy (non-5353 source port) querier gets a unicast reply, which
        // lets the test read exactly the response `handle_query` built.
        let querier = UdpSocket::bind((ip, 0)).unwrap();
        querier
            .set_read_timeout(Some(Duration::from_secs(2)))
            .unwrap();

        let mut query = DnsOutgoing::new(FLAGS_QR_QUERY);
        query.add_question(&fullname, RRType::SRV);
        let data = query.to_data_on_wire().pop().unwrap();
        let msg = DnsIncoming::new(data, InterfaceId::from(&intf)).unwrap();

        zc.handle_query(msg, if_index, querier.local_addr().unwrap());

        let mut buf = [0u8; 1500];
        let (len, _) = querier
            .recv_from(&mut buf)
            .expect("no unicast response to the SRV query");
        let resp = DnsIncoming::new(buf[..len].to_vec(), InterfaceId::from(&intf)).unwrap();

        let srv = resp
            .answers()
            .iter()
            .find_map(|r| r.any().downcast_ref::<DnsSrv>())
            .expect("response has no SRV answer");
        let addr_names: Vec<_> = resp
            .additionals()
            .iter()
            .filter(|r| r.any().downcast_ref::<DnsAddress>().is_some())
            .map(|r| r.get_name().to_string())
            .collect();
        assert!(
            !addr_names.is_empty(),
            "expected additional address records"
        );

        assert_eq!(
            (srv.host(), addr_names.iter().all(|name| name == new_host)),
            (new_host, true),
            "SRV target and additional address records must use the renamed host; \
             SRV target: {}, address record names: {:?}",
            srv.host(),
            addr_names
        );
    }

    /// Defect B: the goodbye packet must withdraw the names that were actually
    /// announced on the interface, i.e. the renamed instance and host names.
    #[test]
    fn g4_b_goodbye_uses_renamed_names() {
        let (mut zc, _rx) = zeroconf_on_port(5475);
        let intf = ipv4_intf();
        let if_index = intf.index.unwrap_or(0);
        let ip = intf.ip();

        let host = "g4b-host.local.";
        let new_host = "g4b-host-2.local.";
        // with a subtype, so that both PTR records are covered.
        let info =
            ServiceInfo::new("_sub1._sub._g4b._udp.local.", "inst", host, ip, 5200, None).unwrap();
        let fullname = info.get_fullname().to_string();
        let new_fullname = "inst (2)._g4b._udp.local.";
        assert_eq!(fullname, "inst._g4b._udp.local.");

        let registry = zc.dns_registry_map.get_mut(&if_index).unwrap();
        registry
            .name_changes
            .insert(fullname.clone(), new_fullname.to_string());
        registry
            .name_changes
            .insert(host.to_string(), new_host.to_string());

        let my_intf = zc.my_intfs.get(&if_index).unwrap();
        let sock = zc.ipv4_sock.as_ref().unwrap();
        let packet = zc.unregister_service(&info, my_intf, &sock.pktinfo);
        assert!(!packet.is_empty(), "a goodbye packet is expected");

        let msg = DnsIncoming::new(packet, InterfaceId::from(&intf)).unwrap();
        let mut seen = Vec::new();
        let mut wrong = Vec::new();
        for record in msg.answers() {
            // goodbye: TTL 0 on the wire, which `DnsIncoming` stores as 1.
            assert_eq!(record.get_record().get_ttl(), 1);
            let rtype = record.get_type();
            seen.push(rtype);
            match rtype {
                RRType::PTR => {
                    let ptr = record.any().downcast_ref::<DnsPointer>().unwrap();
                    if ptr.alias() != new_fullname {
                        wrong.push(format!("PTR {} -> {}", ptr.get_name(), ptr.alias()));
                    }
                }
                RRType::SRV => {
                    let srv = record.any().downcast_ref::<DnsSrv>().unwrap();
                    if srv.get_name() != new_fullname || srv.host() != new_host {
                        wrong.push(format!("SRV {} -> {}", srv.get_name(), srv.host()));
                    }
                }
                RRType::TXT => {
                    if record.get_name() != new_fullname {
                        wrong.push(format!("TXT {}", record.get_name()));
                    }
                }
                RRType::A => {
                    if record.get_name() != new_host {
                        wrong.push(format!("A {}", record.get_name()));
                    }
                }
                other => panic!("unexpected record type {} in goodbye", other),
            }
        }
        assert_eq!(
            seen,
            vec![
                RRType::PTR,
                RRType::PTR,
                RRType::SRV,
                RRType::TXT,
                RRType::A
            ]
        );
        assert!(
            wrong.is_empty(),
            "goodbye records still use the un-renamed names: {:#?}",
            wrong
        );
    }

    /// Defect C, `unregister`: a service that is still probing on an interface
    /// was never announced there, so no goodbye (and no goodbye re-send) is due
    /// on that interface. An announced service is still withdrawn.
    #[test]
    fn g4_c_unregister_skips_unannounced_intf() {
        let (mut zc, _rx) = zeroconf_on_port(5476);
        let intf = ipv4_intf();
        let if_index = intf.index.unwrap_or(0);
        let ip = intf.ip();

        let mut probing = ServiceInfo::new(
            "_g4c._udp.local.",
            "probing",
            "g4c-host.local.",
            ip,
            5200,
            None,
        )
        .unwrap();
        probing.set_status(if_index, ServiceStatus::Probing);
        let probing_name = probing.get_fullname().to_string();

        let mut announced = ServiceInfo::new(
            "_g4c._udp.local.",
            "announced",
            "g4c-host.local.",
            ip,
            5200,
            None,
        )
        .unwrap();
        announced.set_status(if_index, ServiceStatus::Announced);
        let announced_name = announced.get_fullname().to_string();

        zc.my_services.insert(probing_name.clone(), probing);
        zc.my_services.insert(announced_name.clone(), announced);

        let resend_count = |zc: &Zeroconf| {
            zc.retransmissions
                .iter()
                .filter(|r| matches!(r.command, Command::UnregisterResend(..)))
                .count()
        };

        // Control: the announced service is withdrawn (goodbye + one re-send).
        let (resp_s, resp_r) = bounded(1);
        zc.exec_command_unregister(false, announced_name.clone(), resp_s);
        assert!(matches!(resp_r.recv().unwrap(), UnregisterStatus::OK));
        assert_eq!(resend_count(&zc), 1, "announced service must be withdrawn");
        sleep(Duration::from_millis(100));
        let goodbyes = drain_goodbyes(&zc, &intf);
        assert!(
            goodbyes.iter().any(|(name, _)| name == &announced_name),
            "control: goodbye of the announced service not seen, got {:?}",
            goodbyes
        );
        zc.retransmissions.clear();

        // The service that never got past probing.
        let (resp_s, resp_r) = bounded(1);
        zc.exec_command_unregister(false, probing_name.clone(), resp_s);
        assert!(matches!(resp_r.recv().unwrap(), UnregisterStatus::OK));
        assert!(!zc.my_services.contains_key(&probing_name));
        sleep(Duration::from_millis(100));
        let goodbyes = drain_goodbyes(&zc, &intf);
        assert!(
            !goodbyes.iter().any(|(name, _)| name == &probing_name),
            "goodbye sent for a service that was never announced: {:?}",
            goodbyes
        );
        assert_eq!(
            resend_count(&zc),
            0,
            "goodbye re-send queued for a service that was never announced"
        );
    }

    /// Defect C, shutdown `cleanup`: same rule as for `unregister`.
    #[test]
    fn g4_c_cleanup_skips_unannounced_intf() {
        let (mut zc, _rx) = zeroconf_on_port(5477);
        let intf = ipv4_intf();
        let if_index = intf.index.unwrap_or(0);
        let ip = intf.ip();

        let mut probing = ServiceInfo::new(
            "_g4d._udp.local.",
            "probing",
            "g4d-host.local.",
            ip,
            5200,
            None,
        )
        .unwrap();
        probing.set_status(if_index, ServiceStatus::Probing);
        let probing_name = probing.get_fullname().to_string();

        let mut announced = ServiceInfo::new(
            "_g4d._udp.local.",
            "announced",
            "g4d-host.local.",
            ip,
            5200,
            None,
        )
        .unwrap();
        announced.set_status(if_index, ServiceStatus::Announced);
        let announced_name = announced.get_fullname().to_string();

        zc.my_services.insert(probing_name.clone(), probing);
        zc.my_services.insert(announced_name.clone(), announced);

        zc.cleanup();
        assert!(zc.my_services.is_empty());

        sleep(Duration::from_millis(100));
        let goodbyes = drain_goodbyes(&zc, &intf);
        assert!(
            goodbyes.iter().any(|(name, _)| name == &announced_name),
            "control: goodbye of the announced service not seen, got {:?}",
            goodbyes
        );
        assert!(
            !goodbyes.iter().any(|(name, _)| name == &probing_name),
            "goodbye sent for a service that was never announced: {:?}",
            goodbyes
        );
    }
}
