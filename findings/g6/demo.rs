// ---------------------------------------------------------------------------
// Demonstration tests for defects A-E (group g6).
// Belongs to: src/service_daemon.rs (append at the end of the file).
// ---------------------------------------------------------------------------
#[cfg(test)]
mod verif_demo_g6 {
    use super::{
        check_service_name, hostname_change, my_ip_interfaces, name_change, DaemonStatus,
        ServiceDaemon, ServiceInfo, GROUP_ADDR_V4, MDNS_PORT,
    };
    use crate::dns_parser::{DnsIncoming, DnsOutgoing, InterfaceId, RRType, FLAGS_QR_QUERY};
    use std::{
        net::{IpAddr, UdpSocket},
        panic::catch_unwind,
        thread::sleep,
        time::{Duration, Instant, SystemTime},
    };

    /// True if the daemon thread still answers commands within 2 seconds.
    ///
    /// Note: `status()` answers `Shutdown` by itself when the command channel is
    /// disconnected, i.e. when the daemon thread is gone.
    fn daemon_alive(daemon: &ServiceDaemon) -> bool {
        let status_ok = match daemon.status() {
            Ok(r) => matches!(
                r.recv_timeout(Duration::from_secs(2)),
                Ok(DaemonStatus::Running)
            ),
            Err(_) => false,
        };
        let metrics_ok = match daemon.get_metrics() {
            Ok(r) => r.recv_timeout(Duration::from_secs(2)).is_ok(),
            Err(_) => false,
        };
        status_ok && metrics_ok
    }

    fn browse_metric(daemon: &ServiceDaemon, key: &str) -> i64 {
        let metrics = daemon
            .get_metrics()
            .expect("get_metrics")
            .recv_timeout(Duration::from_secs(2))
            .expect("metrics within 2s");
        metrics.get(key).copied().unwrap_or(0)
    }

    // ---------------- A ----------------

    #[test]
    fn demo_a_check_service_name_empty_label() {
        for fullname in ["._tcp.local.", "inst.._tcp.local.", "inst.._udp.local."] {
            let res = catch_unwind(|| check_service_name(fullname));
            assert!(
                matches!(res, Ok(Err(_))),
                "check_service_name({:?}) must return Err, got {:?}",
                fullname,
                res
            );
        }
    }

    #[test]
    fn demo_a_check_service_name_multibyte_first_char() {
        for fullname in ["inst.\u{e9}._tcp.local.", "inst.\u{e9}abc._udp.local."] {
            let res = catch_unwind(|| check_service_name(fullname));
            assert!(
                matches!(res, Ok(Err(_))),
                "check_service_name({:?}) must return Err, got {:?}",
                fullname,
                res
            );
        }
        // Valid names are still accepted, invalid ones still rejected.
        assert!(check_service_name("inst._abc._tcp.local.").is_ok());
        assert!(check_service_name("inst._\u{e9}a._tcp.local.").is_ok());
        assert!(check_service_name("inst.abc._tcp.local.").is_err());
        assert!(check_service_name("inst._._tcp.local.").is_err());
    }

    #[test]
    fn demo_a_register_returns_err_instead_of_panicking_the_caller() {
        let daemon = ServiceDaemon::new_with_port(5460).expect("daemon");
        // ServiceInfo::new() does not validate the service type, register() does.
        let info = ServiceInfo::new("._tcp.local.", "inst", "host-a.local.", "", 1234, None)
            .expect("service info");
        assert_eq!(info.get_fullname(), "inst.._tcp.local.");

        let res = catch_unwind(std::panic::AssertUnwindSafe(|| daemon.register(info)));
        daemon.shutdown().unwrap();
        assert!(
            matches!(res, Ok(Err(_))),
            "register() must return Err for an empty service label, got {:?}",
            res
        );
    }

    // ---------------- B ----------------

    #[test]
    fn demo_b1_resolve_hostname_huge_timeout_keeps_daemon_alive() {
        let daemon = ServiceDaemon::new_with_port(5461).expect("daemon");
        assert!(daemon_alive(&daemon));

        let _receiver = daemon
            .resolve_hostname("demo-b1-host.local.", Some(u64::MAX))
            .expect("resolve_hostname accepted");
        sleep(Duration::from_millis(200));

        let alive = daemon_alive(&daemon);
        let _ = daemon.shutdown();
        assert!(
            alive,
            "daemon thread died after resolve_hostname(_, Some(u64::MAX))"
        );
    }

    #[test]
    fn demo_b2_verify_huge_timeout_keeps_daemon_alive() {
        let daemon = ServiceDaemon::new_with_port(5462).expect("daemon");
        assert!(daemon_alive(&daemon));

        daemon
            .verify("demo-b2._demo-b2._tcp.local.".to_string(), Duration::MAX)
            .expect("verify accepted");
        sleep(Duration::from_millis(200));

        let alive = daemon_alive(&daemon);
        let _ = daemon.shutdown();
        assert!(alive, "daemon thread died after verify(_, Duration::MAX)");
    }

    #[test]
    fn demo_b3_name_change_u32_max_suffix() {
        let res = catch_unwind(|| name_change("foo (4294967295)._demo._tcp.local."));
        let new_name = res.expect("name_change must not panic on ' (4294967295)'");
        assert_ne!(new_name, "foo (4294967295)._demo._tcp.local.");
        assert_ne!(new_name, "foo (0)._demo._tcp.local.");
        assert!(new_name.ends_with("._demo._tcp.local."), "{}", new_name);
        assert!(new_name.starts_with("foo (4294967295)"), "{}", new_name);

        // normal behaviour is unchanged
        assert_eq!(
            name_change("foo (4294967294).local."),
            "foo (4294967295).local."
        );
        assert_eq!(name_change("foo (2).local."), "foo (3).local.");
        assert_eq!(name_change("foo.local."), "foo (2).local.");
    }

    #[test]
    fn demo_b3_hostname_change_u32_max_suffix() {
        let res = catch_unwind(|| hostname_change("foo-4294967295.local."));
        let new_name = res.expect("hostname_change must not panic on '-4294967295'");
        assert_ne!(new_name, "foo-4294967295.local.");
        assert_ne!(new_name, "foo-0.local.");
        assert!(new_name.ends_with(".local."), "{}", new_name);
        assert!(new_name.starts_with("foo-4294967295"), "{}", new_name);

        // normal behaviour is unchanged
        assert_eq!(
            hostname_change("foo-4294967294.local."),
            "foo-4294967295.local."
        );
        assert_eq!(hostname_change("foo-2.local."), "foo-3.local.");
        assert_eq!(hostname_change("foo.local."), "foo-2.local.");
    }

    // ---------------- C ----------------

    #[test]
    fn demo_c_legacy_unicast_response_echoes_query_id() {
        const PORT: u16 = 5463;
        const QUERY_ID: u16 = 0x1234;

        let Some(intf_ip) = my_ip_interfaces(false)
            .into_iter()
            .find_map(|intf| match intf.ip() {
                IpAddr::V4(ip) => Some(ip),
                IpAddr::V6(_) => None,
            })
        else {
            println!("No IPv4 interface available; skipping test.");
            return;
        };

        let daemon = ServiceDaemon::new_with_port(PORT).expect("daemon");
        let unique = SystemTime::now()
            .duration_since(SystemTime::UNIX_EPOCH)
            .unwrap()
            .as_micros();
        let hostname = format!("demo-c-{unique}.local.");
        let info = ServiceInfo::new(
            "_demo-c._udp.local.",
            "demo_c",
            &hostname,
            &[IpAddr::V4(intf_ip)] as &[IpAddr],
            4000,
            None,
        )
        .expect("service info");
        daemon.register(info).expect("register");

        // Legacy one-shot querier: ephemeral source port (neither 5353 nor PORT).
        let querier = UdpSocket::bind((intf_ip, 0)).expect("bind querier");
        querier.set_multicast_loop_v4(true).unwrap();
        querier
            .set_read_timeout(Some(Duration::from_millis(500)))
            .unwrap();
        let src_port = querier.local_addr().unwrap().port();
        assert!(src_port != MDNS_PORT && src_port != PORT);

        let mut query = DnsOutgoing::new(FLAGS_QR_QUERY);
        query.add_question(&hostname, RRType::A);
        let mut query_packet = query.to_data_on_wire().pop().expect("one packet");
        // A legacy resolver uses a non-zero query ID: patch it into the header.
        query_packet[0..2].copy_from_slice(&QUERY_ID.to_be_bytes());

        let if_id = InterfaceId {
            name: "test".to_string(),
            index: 0,
        };

        let deadline = Instant::now() + Duration::from_secs(8);
        let mut response: Option<Vec<u8>> = None;
        'outer: while Instant::now() < deadline {
            querier
                .send_to(&query_packet, (GROUP_ADDR_V4, PORT))
                .expect("send query");
            let mut buf = [0u8; 1500];
            while let Ok((len, _from)) = querier.recv_from(&mut buf) {
                let Ok(msg) = DnsIncoming::new(buf[..len].to_vec(), if_id.clone()) else {
                    continue;
                };
                if msg.is_response()
                    && msg
                        .answers()
                        .iter()
                        .any(|a| a.get_name().eq_ignore_ascii_case(&hostname))
                {
                    response = Some(buf[..len].to_vec());
                    break 'outer;
                }
            }
        }
        daemon.shutdown().unwrap();

        let data = response.expect("expected a legacy unicast response");
        let id = u16::from_be_bytes([data[0], data[1]]);
        assert_eq!(
            id, QUERY_ID,
            "RFC 6762 section 6.7: legacy unicast response must echo the query ID"
        );
    }

    // ---------------- D ----------------

    #[test]
    fn demo_d_browse_twice_single_retransmission_chain() {
        let daemon = ServiceDaemon::new_with_port(5464).expect("daemon");
        let ty = "_demo-d._tcp.local.";

        let receiver1 = daemon.browse(ty).expect("first browse");
        let receiver2 = daemon.browse(ty).expect("second browse");

        // Each browse: initial query at t=0, then reruns at t=1s, t=3s, t=7s ...
        sleep(Duration::from_millis(3700));
        let count = browse_metric(&daemon, "browse");

        daemon.shutdown().unwrap();
        drop(receiver1);
        drop(receiver2);

        // 2 initial queries + reruns at 1s and 3s of ONE chain.
        assert_eq!(
            count, 4,
            "browsing the same type twice must not double the retransmission chain"
        );
    }

    #[test]
    fn demo_d_resolve_hostname_twice_single_retransmission_chain() {
        let daemon = ServiceDaemon::new_with_port(5465).expect("daemon");

        let receiver1 = daemon
            .resolve_hostname("demo-d-host.local.", None)
            .expect("first resolve");
        // Same hostname, different case: hostname resolvers are case-insensitive.
        let receiver2 = daemon
            .resolve_hostname("Demo-D-Host.local.", None)
            .expect("second resolve");

        sleep(Duration::from_millis(3700));
        let count = browse_metric(&daemon, "resolve-hostname");

        daemon.shutdown().unwrap();
        drop(receiver1);
        drop(receiver2);

        assert_eq!(
            count, 4,
            "resolving the same hostname twice must not double the retransmission chain"
        );
    }

    /// Guard (passes before and after the repair): a cache-only browse does not
    /// schedule reruns itself, so it must not cancel the reruns of a regular browse.
    #[test]
    fn guard_d_browse_cache_keeps_regular_browse_chain() {
        let daemon = ServiceDaemon::new_with_port(5468).expect("daemon");
        let ty = "_guard-d._tcp.local.";

        let receiver1 = daemon.browse(ty).expect("browse");
        let receiver2 = daemon.browse_cache(ty).expect("browse_cache");

        sleep(Duration::from_millis(3700));
        let count = browse_metric(&daemon, "browse");

        daemon.shutdown().unwrap();
        drop(receiver1);
        drop(receiver2);

        // initial query + reruns at 1s and 3s of the regular browse.
        assert_eq!(count, 3);
    }

    // ---------------- E ----------------

    #[test]
    fn demo_e_browse_with_oversized_label() {
        let daemon = ServiceDaemon::new_with_port(5466).expect("daemon");
        assert!(daemon_alive(&daemon));

        let ty = format!("_{}._tcp.local.", "a".repeat(70));
        let res = daemon.browse(&ty);
        sleep(Duration::from_millis(200));

        let alive = daemon_alive(&daemon);
        let _ = daemon.shutdown();
        assert!(
            alive,
            "daemon thread died after browse() with a 71-byte label (api returned ok: {})",
            res.is_ok()
        );
        assert!(res.is_err(), "browse() must reject a 71-byte label");
    }

    #[test]
    fn demo_e_resolve_hostname_with_oversized_label() {
        let daemon = ServiceDaemon::new_with_port(5467).expect("daemon");
        assert!(daemon_alive(&daemon));

        let hostname = format!("{}.local.", "h".repeat(70));
        let res = daemon.resolve_hostname(&hostname, None);
        sleep(Duration::from_millis(200));

        let alive = daemon_alive(&daemon);
        let _ = daemon.shutdown();
        assert!(
            alive,
            "daemon thread died after resolve_hostname() with a 70-byte label (api returned ok: {})",
            res.is_ok()
        );
        assert!(
            res.is_err(),
            "resolve_hostname() must reject a 70-byte label"
        );
    }

    #[test]
    fn demo_e_register_with_oversized_labels() {
        let daemon = ServiceDaemon::new_with_port(5469).expect("daemon");
        let long = "x".repeat(64);

        // 64-byte instance label, 64-byte host label, 64-byte subtype label.
        let by_instance =
            ServiceInfo::new("_demo-e._tcp.local.", &long, "demo-e.local.", "", 1, None).unwrap();
        let host = format!("{}.local.", long);
        let by_host = ServiceInfo::new("_demo-e._tcp.local.", "inst", &host, "", 1, None).unwrap();
        let sub = format!("_{}._sub._demo-e._tcp.local.", long);
        let by_subtype = ServiceInfo::new(&sub, "inst", "demo-e.local.", "", 1, None).unwrap();

        let results = [
            daemon.register(by_instance.enable_addr_auto()).is_err(),
            daemon.register(by_host.enable_addr_auto()).is_err(),
            daemon.register(by_subtype.enable_addr_auto()).is_err(),
        ];
        sleep(Duration::from_millis(500));

        let alive = daemon_alive(&daemon);
        let _ = daemon.shutdown();
        assert!(
            alive,
            "daemon thread died after register() with 64-byte labels"
        );
        assert_eq!(
            results,
            [true, true, true],
            "register() must reject 64-byte labels"
        );

        // 63-byte labels and escaped dots are still accepted.
        let ok = format!("{}._demo-e._tcp.local.", "x".repeat(63));
        assert!(check_service_name(&ok).is_ok());
        let escaped = format!(
            "{}\\.{}._demo-e._tcp.local.",
            "x".repeat(31),
            "y".repeat(31)
        );
        assert!(check_service_name(&escaped).is_ok());
        let escaped_long = format!(
            "{}\\.{}._demo-e._tcp.local.",
            "x".repeat(32),
            "y".repeat(31)
        );
        assert!(check_service_name(&escaped_long).is_err());
    }

    /// NOT fixed by patch_e: a conflict rename makes a valid 62-byte label too long.
    #[test]
    #[ignore]
    fn demo_e_unfixed_conflict_rename_overflows_label() {
        let fullname = format!("{}._demo-e._tcp.local.", "i".repeat(62));
        assert!(check_service_name(&fullname).is_ok());

        let renamed = name_change(&fullname); // appends " (2)": 66 bytes
        let mut out = DnsOutgoing::new(FLAGS_QR_QUERY);
        out.add_question(&renamed, RRType::ANY);
        let res = catch_unwind(std::panic::AssertUnwindSafe(|| out.to_data_on_wire()));
        assert!(res.is_ok(), "encoding the renamed instance panics");
    }

    /// NOT fixed by patch_e: a name learned from the wire. `read_name` does not escape
    /// a backslash inside a label, so a label that ends with a backslash is merged with
    /// the next one when the daemon writes the name into its follow-up SRV/TXT query.
    /// One multicast packet kills the daemon thread of a browsing client.
    #[test]
    #[ignore]
    fn demo_e_unfixed_wire_name_kills_browsing_daemon() {
        const PORT: u16 = 5470;
        let Some(intf_ip) = my_ip_interfaces(false)
            .into_iter()
            .find_map(|intf| match intf.ip() {
                IpAddr::V4(ip) => Some(ip),
                IpAddr::V6(_) => None,
            })
        else {
            println!("No IPv4 interface available; skipping test.");
            return;
        };

        fn push_name(buf: &mut Vec<u8>, labels: &[&str]) {
            for label in labels {
                assert!(label.len() < 64);
                buf.push(label.len() as u8);
                buf.extend(label.as_bytes());
            }
            buf.push(0);
        }

        let label1 = format!("{}\\", "a".repeat(40)); // ends with one backslash
        let label2 = "b".repeat(40);
        let mut rdata = Vec::new();
        push_name(
            &mut rdata,
            &[&label1, &label2, "_demo-e-wire", "_tcp", "local"],
        );

        let mut packet: Vec<u8> = vec![0, 0, 0x84, 0, 0, 0, 0, 1, 0, 0, 0, 0];
        push_name(&mut packet, &["_demo-e-wire", "_tcp", "local"]);
        packet.extend(&[0, 12, 0, 1]); // TYPE PTR, CLASS IN
        packet.extend(&120u32.to_be_bytes()); // TTL
        packet.extend(&(rdata.len() as u16).to_be_bytes());
        packet.extend(&rdata);

        let daemon = ServiceDaemon::new_with_port(PORT).expect("daemon");
        let receiver = daemon.browse("_demo-e-wire._tcp.local.").expect("browse");
        sleep(Duration::from_millis(300));
        assert!(daemon_alive(&daemon));

        let sender = UdpSocket::bind((intf_ip, 0)).expect("bind sender");
        sender.set_multicast_loop_v4(true).unwrap();
        sender
            .send_to(&packet, (GROUP_ADDR_V4, PORT))
            .expect("send response");
        sleep(Duration::from_millis(500));

        let alive = daemon_alive(&daemon);
        let _ = daemon.shutdown();
        drop(receiver);
        assert!(alive, "daemon thread died after receiving one PTR response");
    }
}
