// demo.rs -- demonstration tests for verif group g3 (timer arming), mdns-sd 0.20.1.
//
// ALL tests below belong to ONE file: append this whole module to the end of
//     src/service_daemon.rs
// (it needs the private items `Zeroconf`, `Probe`, `DnsRegistry`, `Command`, ...).
// Run with:  cargo test --offline --lib verif_demo_g3 -- --nocapture
//
//   a_tiebreaking_loss_arms_a_timer                  defect A (unit level, calls Zeroconf::handle_query)
//   a_e2e_lost_tiebreak_restarts_probing_on_time     defect A (real daemon, port 5396, crafted probe via unicast to 127.0.0.1)
//   b1_register_resend_drains_new_timers             defect B (exec_command_register_resend)
//   b2_probing_handler_drains_new_timers             defect B (probing_handler)
//   b3_announce_v4_ok_v6_probing_drains_new_timers   defect B (send_unsolicited_response, mixed IP versions)
//   c_ip_check_interval_zero_is_idle                 defect C (real daemon thread, port 5395, reads /proc/self/task)
//
// Against the unmodified code all 6 fail; with patch.diff applied all 6 pass.
// No demo was needed in src/service_info.rs: `Probe::tiebreaking` is exercised through `handle_query`.

// ---------------------------------------------------------------------------
// Demonstrations for verif group g3 (timer arming). Belongs at the end of
// src/service_daemon.rs so that private items are reachable.
// ---------------------------------------------------------------------------
#[cfg(test)]
mod verif_demo_g3 {
    use super::*;
    use std::time::Instant;

    /// Builds a `Zeroconf` exactly like `ServiceDaemon::new_with_port` does, but
    /// without spawning the daemon thread, so that its methods can be called
    /// directly and its private state inspected. The command receiver is returned
    /// to keep the channel open.
    fn new_zeroconf(port: u16) -> (Zeroconf, Receiver<Command>) {
        let signal_sock = UdpSocket::bind(SocketAddrV4::new(LOOPBACK_V4, 0)).unwrap();
        let signal_addr = signal_sock.local_addr().unwrap();
        signal_sock.set_nonblocking(true).unwrap();
        let poller = Poll::new().unwrap();
        let (sender, receiver) = bounded(100);
        let zc = Zeroconf::new(
            MioUdpSocket::from_std(signal_sock),
            poller,
            port,
            sender,
            signal_addr,
        );
        (zc, receiver)
    }

    /// Keeps only the loopback interface in `zc` and returns its index.
    fn only_loopback(zc: &mut Zeroconf) -> u32 {
        zc.my_intfs
            .retain(|_, intf| intf.addrs.iter().any(|a| a.ip().is_loopback()));
        assert_eq!(
            zc.my_intfs.len(),
            1,
            "expect exactly one loopback interface"
        );
        let if_index = *zc.my_intfs.keys().next().unwrap();
        assert!(zc.dns_registry_map.contains_key(&if_index));
        if_index
    }

    /// Pretend `millis` have elapsed for all probes of `if_index`.
    fn backdate_probes(zc: &mut Zeroconf, if_index: u32, millis: u64) {
        for probe in zc
            .dns_registry_map
            .get_mut(&if_index)
            .unwrap()
            .probing
            .values_mut()
        {
            probe.start_time -= millis;
            probe.next_send -= millis;
        }
    }

    fn timer_values(zc: &Zeroconf) -> Vec<u64> {
        let mut v: Vec<u64> = zc.timers.iter().map(|Reverse(t)| *t).collect();
        v.sort_unstable();
        v
    }

    /// Every probe in the registry of `if_index` must have a timer at its `next_send`,
    /// otherwise the run loop does not wake up for it on a quiet network.
    fn assert_probes_armed(zc: &Zeroconf, if_index: u32, context: &str) {
        let timers = timer_values(zc);
        for (name, probe) in zc.dns_registry_map[&if_index].probing.iter() {
            assert!(
                timers.contains(&probe.next_send),
                "{context}: probe '{name}' is due at {} but no such timer is armed: {:?}",
                probe.next_send,
                timers
            );
        }
    }

    // ---------------------------------------------------------------- A

    /// A. When we lose a simultaneous-probe tiebreak, the probe is postponed by
    /// one second. `handle_query` must arm a timer for the postponed time.
    #[test]
    fn a_tiebreaking_loss_arms_a_timer() {
        let (mut zc, _rx) = new_zeroconf(5391);
        let if_index = only_loopback(&mut zc);
        let if_name = zc.my_intfs[&if_index].name.clone();

        let name = "g3a._g3a._udp.local.";
        let now = current_time_millis();

        // Our probe started 100 ms ago: first query sent, second one due in 150 ms
        // and a timer was armed for that (as `check_probing` does).
        let mut probe = Probe::new(now - 100);
        probe.next_send = now + 150;
        probe.insert_record(Box::new(DnsSrv::new(
            name,
            CLASS_IN | CLASS_CACHE_FLUSH,
            120,
            0,
            0,
            5200,
            "g3a-host.local.".to_string(),
        )));
        zc.dns_registry_map
            .get_mut(&if_index)
            .unwrap()
            .probing
            .insert(name.to_string(), probe);
        zc.timers.push(Reverse(now + 150));

        // The other host probes for the same name with lexicographically later rdata.
        let mut out = DnsOutgoing::new(FLAGS_QR_QUERY);
        out.add_question(name, RRType::ANY);
        out.add_authority(Box::new(DnsSrv::new(
            name,
            CLASS_IN | CLASS_CACHE_FLUSH,
            120,
            0,
            0,
            5201, // greater port: they win.
            "g3a-host.local.".to_string(),
        )));
        let data = out.to_data_on_wire().remove(0);
        let msg = DnsIncoming::new(
            data,
            InterfaceId {
                name: if_name,
                index: if_index,
            },
        )
        .unwrap();
        assert_eq!(msg.num_authorities(), 1);

        zc.handle_query(msg, if_index, "127.0.0.1:5391".parse().unwrap());

        let probe = &zc.dns_registry_map[&if_index].probing[name];
        assert!(
            probe.next_send >= now + 1000,
            "tiebreaking lost: probe must be postponed by 1 second"
        );
        assert_probes_armed(&zc, if_index, "after a lost tiebreak");
    }

    /// A (end to end). A real daemon probing for a new service receives a
    /// competing probe that wins the tiebreak. Per RFC 6762 section 8.2 it waits
    /// one second and probes again (3 x 250 ms), i.e. it should announce roughly
    /// 1.75 s after the lost tiebreak. The network is quiet (custom port).
    #[test]
    fn a_e2e_lost_tiebreak_restarts_probing_on_time() {
        let port = 5396;
        let d = ServiceDaemon::new_with_port(port).unwrap();
        let monitor = d.monitor().unwrap();

        let info = ServiceInfo::new(
            "_g3a._udp.local.",
            "e2e",
            "g3a-e2e.local.",
            "127.0.0.1",
            5200,
            None,
        )
        .unwrap();
        let fullname = info.get_fullname().to_string();
        d.register(info).unwrap();

        // Probing starts within 250 ms. Then send the competing probe. Our probe
        // has [TXT, SRV] (sorted by rrtype), theirs starts with SRV (33 > 16): they win.
        thread::sleep(Duration::from_millis(400));
        let mut out = DnsOutgoing::new(FLAGS_QR_QUERY);
        out.add_question(&fullname, RRType::ANY);
        out.add_authority(Box::new(DnsSrv::new(
            &fullname,
            CLASS_IN | CLASS_CACHE_FLUSH,
            120,
            0,
            0,
            5201,
            "g3a-other.local.".to_string(),
        )));
        let data = out.to_data_on_wire().remove(0);
        let sock = UdpSocket::bind("127.0.0.1:0").unwrap();
        sock.send_to(&data, ("127.0.0.1", port)).unwrap();
        let lost_at = Instant::now();

        let mut announced_after = None;
        while lost_at.elapsed() < Duration::from_secs(8) {
            match monitor.recv_timeout(Duration::from_millis(200)) {
                Ok(DaemonEvent::Announce(name, _)) if name == fullname => {
                    announced_after = Some(lost_at.elapsed());
                    break;
                }
                _ => {}
            }
        }
        d.shutdown().unwrap();

        let announced_after = announced_after.expect("service never announced");
        println!("announced {:?} after the lost tiebreak", announced_after);
        assert!(
            announced_after >= Duration::from_millis(1700),
            "announced too early ({:?}): the tiebreak was not lost?",
            announced_after
        );
        assert!(
            announced_after < Duration::from_millis(2500),
            "probing restarted late: announced {:?} after the lost tiebreak",
            announced_after
        );
    }

    // ---------------------------------------------------------------- B

    fn service_v4(instance: &str, host: &str) -> ServiceInfo {
        ServiceInfo::new("_g3b._udp.local.", instance, host, "127.0.0.1", 5200, None).unwrap()
    }

    /// B1. `exec_command_register_resend` -> `announce_service_on_intf` creates
    /// probes (their due times go to `DnsRegistry::new_timers`) but never moves
    /// them to the daemon timers.
    #[test]
    fn b1_register_resend_drains_new_timers() {
        let (mut zc, _rx) = new_zeroconf(5392);
        let if_index = only_loopback(&mut zc);

        let info = service_v4("b1", "g3b1-host.local.");
        let fullname = info.get_fullname().to_lowercase();
        zc.my_services.insert(fullname.clone(), info);

        zc.exec_command_register_resend(fullname, if_index).unwrap();

        let registry = &zc.dns_registry_map[&if_index];
        assert!(!registry.probing.is_empty(), "probes were created");
        assert_probes_armed(&zc, if_index, "after register-resend");
        assert_eq!(
            registry.new_timers.len(),
            0,
            "left-over new_timers (metric dns-registry-timer): {:?}",
            registry.new_timers
        );
    }

    /// B2. `probing_handler`: a finished probe wakes up a waiting service whose
    /// other name is still probing. The announce attempt pushes to `new_timers`
    /// and nobody drains it.
    #[test]
    fn b2_probing_handler_drains_new_timers() {
        let (mut zc, _rx) = new_zeroconf(5393);
        let if_index = only_loopback(&mut zc);

        // Service 1 probes for its instance name and for the host name.
        zc.register_service(service_v4("b2-one", "g3b2-host.local."));
        // One second later ...
        backdate_probes(&mut zc, if_index, 1000);
        // ... service 2 on the same host registers: a new probe for its instance
        // name, and it joins the existing probe for the host name.
        zc.register_service(service_v4("b2-two", "g3b2-host.local."));

        assert_eq!(zc.dns_registry_map[&if_index].new_timers.len(), 0);
        assert_eq!(zc.dns_registry_map[&if_index].probing.len(), 3);

        // The probes of service 1 (incl. the host name) are finished now. Both
        // services are woken up. Service 2 cannot announce yet.
        zc.probing_handler();

        let registry = &zc.dns_registry_map[&if_index];
        assert_eq!(registry.probing.len(), 1, "only 'b2-two' is still probing");
        assert_probes_armed(&zc, if_index, "after probing_handler");
        assert_eq!(
            registry.new_timers.len(),
            0,
            "left-over new_timers (metric dns-registry-timer): {:?}",
            registry.new_timers
        );
    }

    /// B3. `send_unsolicited_response`: IPv4 announces fine while IPv6 has to
    /// probe a new AAAA record. Because something was announced, the new probe's
    /// timer is not armed.
    #[test]
    fn b3_announce_v4_ok_v6_probing_drains_new_timers() {
        let (mut zc, _rx) = new_zeroconf(5394);
        let if_index = only_loopback(&mut zc);
        if zc.ipv6_sock.is_none()
            || !zc.my_intfs[&if_index]
                .addrs
                .iter()
                .any(|a| a.ip().is_ipv6())
        {
            println!("no IPv6 loopback, skipped");
            return;
        }

        // Register with an IPv4 address only and let probing finish.
        zc.register_service(service_v4("b3", "g3b3-host.local."));
        backdate_probes(&mut zc, if_index, 1000);
        zc.probing_handler();
        let fullname = "b3._g3b._udp.local.";
        assert_eq!(
            zc.my_services[fullname].get_status(if_index),
            ServiceStatus::Announced
        );
        assert!(zc.dns_registry_map[&if_index].probing.is_empty());
        assert_eq!(zc.dns_registry_map[&if_index].new_timers.len(), 0);
        zc.timers.clear();

        // Register again, now with an additional IPv6 address.
        let info = ServiceInfo::new(
            "_g3b._udp.local.",
            "b3",
            "g3b3-host.local.",
            "127.0.0.1,::1",
            5200,
            None,
        )
        .unwrap();
        zc.register_service(info);

        let registry = &zc.dns_registry_map[&if_index];
        assert_eq!(registry.probing.len(), 1, "AAAA record is probing");
        assert_probes_armed(&zc, if_index, "after re-register with IPv6 addr");
        assert_eq!(
            registry.new_timers.len(),
            0,
            "left-over new_timers (metric dns-registry-timer): {:?}",
            registry.new_timers
        );
    }

    // ---------------------------------------------------------------- C

    /// Same as `ServiceDaemon::new_with_port` but with a unique thread name so
    /// that the thread can be found in /proc.
    fn spawn_named_daemon(port: u16, thread_name: &str) -> ServiceDaemon {
        let signal_sock = UdpSocket::bind(SocketAddrV4::new(LOOPBACK_V4, 0)).unwrap();
        let signal_addr = signal_sock.local_addr().unwrap();
        signal_sock.set_nonblocking(true).unwrap();
        let poller = Poll::new().unwrap();
        let (sender, receiver) = bounded(100);
        let mio_sock = MioUdpSocket::from_std(signal_sock);
        let cmd_sender = sender.clone();
        thread::Builder::new()
            .name(thread_name.to_string())
            .spawn(move || {
                ServiceDaemon::daemon_thread(
                    mio_sock,
                    poller,
                    receiver,
                    port,
                    cmd_sender,
                    signal_addr,
                )
            })
            .unwrap();
        ServiceDaemon {
            sender,
            signal_addr,
        }
    }

    /// Returns (voluntary context switches, cpu ticks) of the thread named `comm`.
    /// Every return from `poll` after sleeping is one voluntary context switch,
    /// i.e. it counts the iterations of the run loop.
    fn thread_stats(comm: &str) -> (u64, u64) {
        for entry in std::fs::read_dir("/proc/self/task").unwrap() {
            let path = entry.unwrap().path();
            let Ok(name) = std::fs::read_to_string(path.join("comm")) else {
                continue;
            };
            if name.trim() != comm {
                continue;
            }
            let status = std::fs::read_to_string(path.join("status")).unwrap();
            let switches = status
                .lines()
                .find_map(|l| l.strip_prefix("voluntary_ctxt_switches:"))
                .unwrap()
                .trim()
                .parse()
                .unwrap();
            let stat = std::fs::read_to_string(path.join("stat")).unwrap();
            // fields after the ")" of comm: state is #3, utime #14, stime #15.
            let rest = &stat[stat.rfind(')').unwrap() + 2..];
            let fields: Vec<&str> = rest.split_whitespace().collect();
            let utime: u64 = fields[11].parse().unwrap();
            let stime: u64 = fields[12].parse().unwrap();
            return (switches, utime + stime);
        }
        panic!("thread {} not found", comm);
    }

    /// C. `set_ip_check_interval(0)` is documented as "disables the IP check".
    /// Once the already armed check fires, the daemon must go idle.
    #[test]
    fn c_ip_check_interval_zero_is_idle() {
        #[cfg(not(target_os = "linux"))]
        return;

        let comm = "g3c_daemon";
        let start = Instant::now();
        let d = spawn_named_daemon(5395, comm);
        d.set_ip_check_interval(0).unwrap();
        assert_eq!(d.get_ip_check_interval().unwrap(), 0);

        // Reference window, before the first (already armed) IP check is due.
        thread::sleep(Duration::from_millis(500));
        let (sw0, cpu0) = thread_stats(comm);
        thread::sleep(Duration::from_secs(2));
        let (sw1, cpu1) = thread_stats(comm);
        println!(
            "before first IP check: {} loop wakeups, {} cpu ticks in 2s",
            sw1 - sw0,
            cpu1 - cpu0
        );

        // Wait until the first IP check was due.
        let due = Duration::from_millis(IP_CHECK_INTERVAL_IN_SECS_DEFAULT as u64 * 1000 + 500);
        if let Some(remaining) = due.checked_sub(start.elapsed()) {
            thread::sleep(remaining);
        }

        let (sw2, cpu2) = thread_stats(comm);
        thread::sleep(Duration::from_secs(2));
        let (sw3, cpu3) = thread_stats(comm);
        println!(
            "after first IP check:  {} loop wakeups, {} cpu ticks in 2s",
            sw3 - sw2,
            cpu3 - cpu2
        );

        d.shutdown().unwrap();

        assert!(
            sw3 - sw2 < 20,
            "daemon with IP check disabled woke up {} times in 2 seconds ({} cpu ticks)",
            sw3 - sw2,
            cpu3 - cpu2
        );
    }
}
