
#[cfg(test)]
mod verif_demo_g1 {
    use super::{
        DnsAddress, DnsIncoming, DnsOutPacket, DnsOutgoing, DnsPointer, DnsTxt, RRType, CLASS_IN,
        FLAGS_AA, FLAGS_QR_RESPONSE, MAX_MSG_ABSOLUTE,
    };
    use crate::InterfaceId;
    use std::net::{IpAddr, Ipv4Addr};
    use std::sync::mpsc;
    use std::thread;
    use std::time::Duration;

    /// Runs the decoder in a helper thread and reports `None` if it did not
    /// come back within `timeout` (i.e. the decoder hangs).
    fn decode_with_watchdog(bytes: Vec<u8>, timeout: Duration) -> Option<Result<(), String>> {
        let (tx, rx) = mpsc::channel();
        thread::spawn(move || {
            let res = DnsIncoming::new(bytes, InterfaceId::default())
                .map(|_| ())
                .map_err(|e| e.to_string());
            let _ = tx.send(res);
        });
        rx.recv_timeout(timeout).ok()
    }

    // ---------------------------------------------------------------
    // Defect A: read_char_string indexes data[offset] without a check.
    // ---------------------------------------------------------------
    #[test]
    fn a_hinfo_with_empty_rdata_at_end_of_packet_is_an_error_not_a_panic() {
        let mut bytes: Vec<u8> = vec![
            0x00, 0x00, // ID
            0x84, 0x00, // flags: response, authoritative
            0x00, 0x00, // QDCOUNT
            0x00, 0x01, // ANCOUNT = 1
            0x00, 0x00, // NSCOUNT
            0x00, 0x00, // ARCOUNT
        ];
        bytes.extend_from_slice(&[1, b'h', 5, b'l', b'o', b'c', b'a', b'l', 0]); // "h.local."
        bytes.extend_from_slice(&[0x00, 13]); // TYPE = HINFO
        bytes.extend_from_slice(&[0x00, 0x01]); // CLASS = IN
        bytes.extend_from_slice(&[0x00, 0x00, 0x00, 0x78]); // TTL = 120
        bytes.extend_from_slice(&[0x00, 0x00]); // RDLENGTH = 0, and the datagram ends here

        let res = DnsIncoming::new(bytes, InterfaceId::default());
        assert!(res.is_err(), "empty HINFO RDATA must be rejected");
    }

    // ---------------------------------------------------------------
    // Defect B: read_name follows compression pointers forever.
    // ---------------------------------------------------------------
    #[test]
    fn b_pointer_loop_through_header_bytes_terminates() {
        // The ID field is itself a compression pointer to offset 0.
        let bytes: Vec<u8> = vec![
            0xC0, 0x00, // ID, doubles as "pointer to offset 0"
            0x00, 0x00, // flags: query
            0x00, 0x01, // QDCOUNT = 1
            0x00, 0x00, 0x00, 0x00, 0x00, 0x00, // ANCOUNT, NSCOUNT, ARCOUNT
            0xC0, 0x00, // QNAME: pointer to offset 0
            0x00, 0x0C, // QTYPE = PTR
            0x00, 0x01, // QCLASS = IN
        ];

        let res = decode_with_watchdog(bytes, Duration::from_secs(3));
        let res = res.expect("DnsIncoming::new did not return within 3s: read_name loops forever");
        assert!(res.is_err(), "a pointer loop must be rejected: {:?}", res);
    }

    #[test]
    fn b_pointer_loop_with_label_in_header_terminates() {
        // ID = [1, 'a'] is a one-byte label, flags = [0xC0, 0x00] is a pointer
        // back to offset 0: the name grows by "a." on every round.
        let bytes: Vec<u8> = vec![
            0x01, b'a', // ID, doubles as label "a"
            0xC0, 0x00, // flags, doubles as "pointer to offset 0"
            0x00, 0x01, // QDCOUNT = 1
            0x00, 0x00, 0x00, 0x00, 0x00, 0x00, // ANCOUNT, NSCOUNT, ARCOUNT
            0xC0, 0x00, // QNAME: pointer to offset 0
            0x00, 0x0C, // QTYPE = PTR
            0x00, 0x01, // QCLASS = IN
        ];

        let res = decode_with_watchdog(bytes, Duration::from_secs(1));
        let res = res.expect("DnsIncoming::new did not return within 1s: read_name loops forever");
        assert!(res.is_err(), "a pointer loop must be rejected: {:?}", res);
    }

    /// Guard for the repair: a legitimate multi-hop chain (every pointer refers
    /// to an earlier name) must still decode.
    #[test]
    fn b_legit_pointer_chain_still_decodes() {
        let mut bytes: Vec<u8> = vec![
            0x00, 0x00, 0x00, 0x00, // ID, flags: query
            0x00, 0x03, // QDCOUNT = 3
            0x00, 0x00, 0x00, 0x00, 0x00, 0x00,
        ];
        // offset 12: "local."
        bytes.extend_from_slice(&[5, b'l', b'o', b'c', b'a', b'l', 0, 0, 12, 0, 1]);
        // offset 23: "_udp" + pointer to 12
        bytes.extend_from_slice(&[4, b'_', b'u', b'd', b'p', 0xC0, 12, 0, 12, 0, 1]);
        // offset 34: "_x" + pointer to 23 (which in turn jumps to 12)
        bytes.extend_from_slice(&[2, b'_', b'x', 0xC0, 23, 0, 12, 0, 1]);

        let msg = DnsIncoming::new(bytes, InterfaceId::default()).unwrap();
        let names: Vec<&str> = msg
            .questions()
            .iter()
            .map(|q| q.entry.name.as_str())
            .collect();
        assert_eq!(names, ["local.", "_udp.local.", "_x._udp.local."]);
    }

    // ---------------------------------------------------------------
    // Defect C: write_record rolls back `data` but not `names`.
    // ---------------------------------------------------------------
    const FRESH_NAME: &str = "a-long-fresh-instance-name-that-overflows._verif._udp.local.";

    fn filler() -> DnsTxt {
        // 12 (header) + 14 (name) + 10 (RR header) + 8856 = 8892 bytes: 80 bytes left.
        DnsTxt::new("filler.local.", CLASS_IN, 120, vec![b'x'; 8856])
    }

    /// 56 (name, "local" compressed) + 10 + 35 (rdata) = 101 bytes: does not fit.
    fn overflowing() -> DnsPointer {
        DnsPointer::new(
            FRESH_NAME,
            RRType::PTR,
            CLASS_IN,
            120,
            "some-quite-long-target-host-name.local.".to_string(),
        )
    }

    /// 56 + 10 + 4 = 70 bytes even when its name is written in full: fits.
    fn small_reusing_fresh_name() -> DnsAddress {
        DnsAddress::new(
            FRESH_NAME,
            RRType::A,
            CLASS_IN,
            120,
            IpAddr::V4(Ipv4Addr::new(192, 0, 2, 1)),
            InterfaceId::default(),
        )
    }

    #[test]
    fn c_rolled_back_record_leaves_no_names_behind() {
        let mut packet = DnsOutPacket::new();
        assert!(packet.write_record(&filler(), 0));
        let size_before = packet.size();
        assert!(size_before < MAX_MSG_ABSOLUTE);

        // Does not fit: rolled back, "nothing is written to the packet".
        assert!(!packet.write_record(&overflowing(), 0));
        assert_eq!(packet.size(), size_before);

        let mut stale: Vec<(&String, &u16)> = packet
            .names
            .iter()
            .filter(|(_, off)| **off as usize >= packet.data.len())
            .collect();
        stale.sort();
        assert!(
            stale.is_empty(),
            "compression table refers to rolled-back bytes (data len {}): {:?}",
            packet.data.len(),
            stale
        );
    }

    #[test]
    fn c_record_after_a_rolled_back_one_is_decodable() {
        // Same sequence through the public API: to_packets() keeps writing
        // answers into the same packet after one of them did not fit.
        let mut out = DnsOutgoing::new(FLAGS_QR_RESPONSE | FLAGS_AA);
        out.add_answer_at_time(filler(), 0);
        out.add_answer_at_time(overflowing(), 0);
        out.add_answer_at_time(small_reusing_fresh_name(), 0);

        let mut wire = out.to_data_on_wire();
        assert_eq!(wire.len(), 1);
        let bytes = wire.remove(0);
        assert!(bytes.len() <= MAX_MSG_ABSOLUTE);

        let msg = DnsIncoming::new(bytes, InterfaceId::default())
            .expect("packet produced by DnsOutgoing must be decodable");
        let names: Vec<&str> = msg.answers().iter().map(|r| r.get_name()).collect();
        assert_eq!(names, ["filler.local.", FRESH_NAME]);
    }
}
