// ---------------------------------------------------------------------------
// C14 finding g8: a command queued behind Exit is neither answered nor released.
// Append this module to src/service_daemon.rs and run
//   cargo test --offline --lib c14_g8 -- --nocapture --test-threads=1
//
// Clause: "however shutdown is interleaved with other calls from other threads, no call
// blocks forever: each call either returns an error, or its reply channel yields a value
// or is closed".
// ---------------------------------------------------------------------------
#[cfg(test)]
mod c14_g8 {
    use super::*;
    use flume::RecvTimeoutError;

    /// Deterministic: the daemon's queue holds [Exit, GetStatus] when the run loop gets to it
    /// (the schedule "status() on one thread right behind shutdown() on another").
    #[test]
    fn c14_g8_status_queued_behind_exit_gets_an_answer_or_a_closed_channel() {
        let signal_sock = UdpSocket::bind(SocketAddrV4::new(LOOPBACK_V4, 0)).unwrap();
        let signal_addr = signal_sock.local_addr().unwrap();
        signal_sock.set_nonblocking(true).unwrap();
        let poller = Poll::new().unwrap();
        let (sender, receiver) = bounded(100);
        let mut zc = Zeroconf::new(
            MioUdpSocket::from_std(signal_sock),
            poller,
            5473,
            sender.clone(),
            signal_addr,
        );

        let (exit_s, exit_r) = bounded(1);
        let (status_s, status_r) = bounded(1);
        sender.send(Command::Exit(exit_s)).unwrap();
        sender.send(Command::GetStatus(status_s)).unwrap();
        UdpSocket::bind(SocketAddrV4::new(LOOPBACK_V4, 0))
            .unwrap()
            .send_to(b"wake", signal_addr)
            .unwrap();

        let exit = zc.run(receiver); // the receiver is dropped when run returns
        assert!(matches!(exit, Some(Command::Exit(_))));
        drop(exit);
        drop(exit_r);
        drop(zc); // the daemon is gone

        // `sender` plays the ServiceDaemon handle the caller of status() still holds.
        let got = status_r.recv_timeout(Duration::from_secs(2));
        println!("reply channel of the status() queued behind Exit: {got:?}");
        assert!(
            !matches!(got, Err(RecvTimeoutError::Timeout)),
            "C14 broken: the reply channel neither yields a value nor is closed; a caller in recv() blocks for ever"
        );
        drop(sender);
    }

    /// Public API, real threads: status() racing with shutdown() on another clone.
    #[test]
    fn c14_g8_status_racing_with_shutdown_never_hangs() {
        let mut stuck = 0;
        let rounds = 200;
        for _ in 0..rounds {
            let d = ServiceDaemon::new_with_port(5474).expect("daemon");
            let d2 = d.clone();
            let t = thread::spawn(move || d2.shutdown());
            // queue a few status requests while the shutdown is in flight
            let replies: Vec<_> = (0..5).filter_map(|_| d.status().ok()).collect();
            let _ = t.join();
            for r in replies {
                if matches!(r.recv_timeout(Duration::from_millis(300)), Err(RecvTimeoutError::Timeout)) {
                    stuck += 1;
                }
            }
        }
        println!("status() replies that neither arrived nor were closed: {stuck} (in {rounds} rounds)");
        assert_eq!(stuck, 0, "C14 broken: a status() call racing with shutdown() would block for ever in recv()");
    }
}
