// ---------------------------------------------------------------------------
// Finding g12 (C13): stop_browse purges the Browse reruns of the type but not the follow-up `Command::Resolve` reruns that
// the browse started for instances whose SRV/TXT were missing.  After SearchStopped the daemon still sends the follow-up
// question for such an instance (up to twice more) and keeps the instance in `pending_resolves` for good, so a later
// browse of the same type never starts a follow-up chain for it again.
// Append this module to src/service_daemon.rs and run
//   cargo test --offline --lib verif_demo_g12 -- --nocapture --test-threads=1
// ---------------------------------------------------------------------------
#[cfg(test)]
mod verif_demo_g12 {
    use super::{my_ip_interfaces, Command, Counter, Zeroconf, LOOPBACK_V4};
    use crate::{
        dns_parser::{DnsIncoming, DnsOutgoing, DnsPointer, InterfaceId, RRType, CLASS_IN, FLAGS_AA, FLAGS_QR_RESPONSE},
        Receiver, ServiceEvent,
    };
    use flume::bounded;
    use if_addrs::Interface;
    use mio::{net::UdpSocket as MioUdpSocket, Poll};
    use std::net::{SocketAddrV4, UdpSocket};

    fn zeroconf_on_port(port: u16) -> (Zeroconf, Receiver<Command>) {
        let signal_sock = UdpSocket::bind(SocketAddrV4::new(LOOPBACK_V4, 0)).unwrap();
        let signal_addr = signal_sock.local_addr().unwrap();
        signal_sock.set_nonblocking(true).unwrap();
        let poller = Poll::new().unwrap();
        let (sender, receiver) = bounded(100);
        let zc = Zeroconf::new(MioUdpSocket::from_std(signal_sock), poller, port, sender, signal_addr);
        (zc, receiver)
    }

    fn ipv4_intf() -> Interface {
        my_ip_interfaces(false)
            .into_iter()
            .find(|intf| intf.ip().is_ipv4())
            .expect("test requires an IPv4 interface")
    }

    fn ptr_only(zc: &mut Zeroconf, intf: &Interface, ty: &str, instance: &str) {
        let mut out = DnsOutgoing::new(FLAGS_QR_RESPONSE | FLAGS_AA);
        out.add_answer_at_time(DnsPointer::new(ty, RRType::PTR, CLASS_IN, 4500, instance.to_string()), 0);
        let data = out.to_data_on_wire().pop().unwrap();
        zc.handle_response(DnsIncoming::new(data, InterfaceId::from(intf)).unwrap(), intf.index.unwrap_or(0));
    }

    fn resolve_reruns(zc: &Zeroconf, instance: &str) -> usize {
        zc.retransmissions
            .iter()
            .filter(|r| matches!(&r.command, Command::Resolve(i, _) if i == instance))
            .count()
    }

    #[test]
    fn verif_demo_g12_no_followup_query_after_stop_browse() {
        let (mut zc, _rx) = zeroconf_on_port(54112);
        let intf = ipv4_intf();
        let ty = "_g12._udp.local.";
        let instance = "inst._g12._udp.local.";

        // browse, and only the PTR of an instance arrives: the daemon schedules its own follow-up question
        let (tx, rx) = bounded(100);
        zc.exec_command(Command::Browse(ty.to_string(), 1, false, tx), false);
        ptr_only(&mut zc, &intf, ty, instance);
        assert_eq!(resolve_reruns(&zc, instance), 1, "a follow-up Resolve is scheduled for the instance");

        // the browse is stopped before the follow-up is due
        zc.exec_command(Command::StopBrowse(ty.to_string()), false);
        let mut last = None;
        while let Ok(ev) = rx.try_recv() {
            last = Some(ev);
        }
        assert!(matches!(last, Some(ServiceEvent::SearchStopped(_))), "SearchStopped is the last event");

        // what the run loop does when the follow-up's time is up
        let left = resolve_reruns(&zc, instance);
        println!("g12: follow-up reruns still queued after stop_browse: {left}");
        let reruns: Vec<_> = std::mem::take(&mut zc.retransmissions);
        for rerun in reruns {
            zc.exec_command(rerun.command, true);
        }
        let again = resolve_reruns(&zc, instance);
        println!(
            "g12: after running them: {again} more follow-up scheduled (a question was sent), still pending: {}",
            zc.pending_resolves.contains(instance)
        );
        let _ = Counter::Browse;
        assert_eq!(again, 0, "no query for the stopped browse's instance after SearchStopped");
        assert!(!zc.pending_resolves.contains(instance), "the instance is not left pending for ever");
    }
}
