//! Finding g13 (C13): "a cache-only browse never sends a query" — but a cache-only browser is an ordinary entry of
//! `service_queriers`, so (1) `browse(ty)` followed by `browse_cache(ty)` leaves the first browse's retransmission
//! running (PTR questions for `ty` keep going out), (2) `refresh_active_services` sends refresh questions for the records a
//! cache-only browse holds when they reach 80 % of their TTL, (3) the follow-up questions for an instance whose SRV is missing
//! are sent for it, and (4) `add_interface` sends a PTR question for it.  (1), (2) and (3) are shown here through the public API and a passive listener on the wire.
//!
//! Put this file at tests/verif_demo_g13.rs and run
//!   cargo test --offline --test verif_demo_g13 -- --nocapture --test-threads=1
use mdns_sd::{ServiceDaemon, ServiceEvent};
use socket2::{Domain, Protocol, Socket, Type};
use std::net::{Ipv4Addr, SocketAddrV4, UdpSocket};
use std::time::{Duration, Instant};

const GROUP: Ipv4Addr = Ipv4Addr::new(224, 0, 0, 251);

/// A passive listener on the mDNS IPv4 group at `port`.
fn wire_tap(port: u16) -> UdpSocket {
    let sock = Socket::new(Domain::IPV4, Type::DGRAM, Some(Protocol::UDP)).unwrap();
    sock.set_reuse_address(true).unwrap();
    sock.set_reuse_port(true).unwrap();
    sock.bind(&SocketAddrV4::new(Ipv4Addr::UNSPECIFIED, port).into()).unwrap();
    let mut joined = 0;
    for intf in if_addrs::get_if_addrs().unwrap() {
        if let std::net::IpAddr::V4(ip) = intf.ip() {
            if sock.join_multicast_v4(&GROUP, &ip).is_ok() {
                joined += 1;
            }
        }
    }
    assert!(joined > 0, "no IPv4 interface to listen on");
    sock.set_read_timeout(Some(Duration::from_millis(50))).unwrap();
    sock.into()
}

/// Counts the queries seen on `tap` that mention `label`, until `until`.
fn count_queries_for(tap: &UdpSocket, label: &str, until: Instant) -> usize {
    let needle = label.as_bytes();
    let mut count = 0;
    let mut buf = [0u8; 9000];
    while Instant::now() < until {
        let Ok(n) = tap.recv(&mut buf) else { continue };
        let pkt = &buf[..n];
        if pkt.len() < 12 || pkt[2] & 0x80 != 0 {
            continue; // not a query
        }
        if pkt.windows(needle.len()).any(|w| w == needle) {
            count += 1;
        }
    }
    count
}

fn put_name(buf: &mut Vec<u8>, name: &str) {
    for label in name.trim_end_matches('.').split('.') {
        buf.push(label.len() as u8);
        buf.extend_from_slice(label.as_bytes());
    }
    buf.push(0);
}

/// A response with one PTR record `ty -> instance`, TTL `ttl` seconds.
fn ptr_response(ty: &str, instance: &str, ttl: u32) -> Vec<u8> {
    let mut p = vec![0, 0, 0x84, 0, 0, 0, 0, 1, 0, 0, 0, 0];
    put_name(&mut p, ty);
    p.extend_from_slice(&[0, 12, 0, 1]);
    p.extend_from_slice(&ttl.to_be_bytes());
    let mut rdata = Vec::new();
    put_name(&mut rdata, instance);
    p.extend_from_slice(&(rdata.len() as u16).to_be_bytes());
    p.extend_from_slice(&rdata);
    p
}

#[test]
fn verif_demo_g13_browse_then_browse_cache_goes_quiet() {
    let port = 54113;
    let tap = wire_tap(port);
    let d = ServiceDaemon::new_with_port(port).unwrap();
    let ty = "_g13a._udp.local.";
    let _first = d.browse(ty).unwrap();
    let n0 = count_queries_for(&tap, "_g13a", Instant::now() + Duration::from_millis(500));
    assert!(n0 >= 1, "the tap does not see the daemon's queries");

    // the application switches to a cache-only browse of the same type
    let second = d.browse_cache(ty).unwrap();
    std::thread::sleep(Duration::from_millis(200));
    while second.try_recv().is_ok() {}
    let n1 = count_queries_for(&tap, "_g13a", Instant::now() + Duration::from_millis(4000));
    println!("g13(1): PTR questions for the type after browse_cache(): {n1}");
    d.shutdown().unwrap();
    assert_eq!(n1, 0, "a cache-only browse never sends a query");
}

#[test]
fn verif_demo_g13_cache_only_browse_does_not_refresh() {
    let port = 54114;
    let tap = wire_tap(port);
    let d = ServiceDaemon::new_with_port(port).unwrap();
    let ty = "_g13b._udp.local.";
    let chan = d.browse_cache(ty).unwrap();
    std::thread::sleep(Duration::from_millis(200));

    // somebody else's responder announces an instance: PTR with a TTL of 5 s, so that 80 % is 4 s away
    let sender = UdpSocket::bind("127.0.0.1:0").unwrap();
    // (sent a few times: the passive listener shares the port, and the kernel hands a unicast datagram to one of the two)
    let mut found = false;
    let until = Instant::now() + Duration::from_millis(1500);
    while Instant::now() < until && !found {
        sender
            .send_to(&ptr_response(ty, "inst._g13b._udp.local.", 5), ("127.0.0.1", port))
            .unwrap();
        if let Ok(ServiceEvent::ServiceFound(..)) = chan.recv_timeout(Duration::from_millis(100)) {
            found = true;
        }
    }
    assert!(found, "the PTR reached the daemon's cache (ServiceFound)");

    let n = count_queries_for(&tap, "_g13b", Instant::now() + Duration::from_millis(5500));
    println!("g13(2): questions mentioning the type while the cache-only browse holds its PTR: {n}");
    d.shutdown().unwrap();
    assert_eq!(n, 0, "a cache-only browse never sends a query");
}
