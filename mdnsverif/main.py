"""./check Cxx [--tier quick|thorough] [--facts FILE]"""
import argparse
import importlib
import os
import sys
import traceback

from . import facts as factsmod
from .model import Program
from .flatten import flatten_program
from .report import Ctx

QUICK_CONFIGS = ["default"]
THOROUGH_CONFIGS = ["default", "no-default-features", "serde", "cfgtest"]


def main(argv=None):
    ap = argparse.ArgumentParser()
    ap.add_argument("prop")
    ap.add_argument("--tier", default=os.environ.get("VERIF_TIER") or "quick", choices=["quick", "thorough"])
    ap.add_argument("--facts", help="development: use a fact file instead of extracting")
    ap.add_argument("--repo", help="analyse this tree instead of /repo (selftest variants)")
    ap.add_argument("--no-evidence", action="store_true", help="do not write evidence/ and reports/ (runs against seeded variants)")
    ap.add_argument("-v", "--verbose", action="store_true")
    a = ap.parse_args(argv)
    prop = a.prop.upper()
    try:
        seed = int(os.environ.get("VERIF_SEED", "0"))
    except ValueError:
        seed = 0
    ctx = Ctx(prop, a.tier, seed)
    try:
        mod = importlib.import_module("mdnsverif.rules." + prop.lower())
    except ImportError as e:
        print("no check for property %s: %s" % (prop, e))
        return 2
    ctx.explanation = getattr(mod, "EXPLANATION", "")
    ctx.undecided = list(getattr(mod, "UNDECIDED", []))
    ctx.assumptions = list(getattr(mod, "ASSUMPTIONS", []))
    configs = QUICK_CONFIGS if a.tier == "quick" else THOROUGH_CONFIGS
    if a.facts:
        configs = ["default"]
    for cfg in configs:
        ctx.config = cfg
        try:
            if a.facts:
                fj = factsmod.load_file(a.facts)
                meta = {"config": cfg, "bodies": len(fj["fns"]), "from_file": a.facts}
            else:
                fj, meta = factsmod.extract(cfg, repo=a.repo)
            P = flatten_program(fj)
            P.repo = a.repo or factsmod.REPO
            meta["lib_functions"] = len(P.lib_fns())
            ctx.configs.append(meta)
            mod.run(ctx, P)
        except factsmod.FactsError as e:
            ctx.precondition_failed("facts[%s]: %s" % (cfg, str(e)[:1500]))
        except KeyError as e:
            ctx.precondition_failed("%s [%s]" % (str(e).strip("'\""), cfg))
            if a.verbose:
                traceback.print_exc()
        except Exception as e:  # fail closed: an internal error is not a pass
            ctx.precondition_failed("internal error in %s [%s]: %r\n%s" % (prop, cfg, e, traceback.format_exc()[-1500:]))
    if a.tier == "thorough" and not a.facts and not a.repo and not os.environ.get("VERIF_NO_SELFTEST"):
        try:
            from .selftest import run_selftests
            ctx.config = "selftest"
            run_selftests(ctx, prop)
        except Exception as e:
            ctx.precondition_failed("internal error in the selftest stage: %r\n%s" % (e, traceback.format_exc()[-1500:]))
    lines, rc, ev = ctx.finish(write=not a.no_evidence)
    cov = ev["coverage"]
    print("%s tier=%s configs=%s obligations=%d discharged=%d known=%d violations=%d wall=%.1fs" % (
        prop, a.tier, ",".join(c["config"] for c in ctx.configs), cov["obligations"], cov["discharged"],
        cov["known_findings"], cov["violations"], ev["wall_s"]))
    if a.verbose:
        for o in ctx.obs:
            print("  [%s] %s  @%s  %s" % (o["status"], o["key"], o["where"], o["detail"][:160]))
    for l in lines:
        print(l)
    return rc


if __name__ == "__main__":
    sys.exit(main())
