"""Normalisation before the structural rules run: helper functions that the pinned tree does not have are inlined
into their callers (MIR level), so that `extract a block into a new private helper` leaves the callers' bodies — which
is what the path rules look at — in their original shape.  The numeric engine (E3) keeps working on the raw program
(`P.raw`): it has its own inter-procedural machinery and keys its sites by source snippet.

Policy (deliberately one-directional and conservative):
  * a function is *unknown* if its path is not in known_functions.json (the function list of the tree the rules were
    written against; regenerate with `python3 -m mdnsverif.flatten --write-known`)
  * an unknown function is inlined at a call site when the call resolves statically to it alone, it is not a closure,
    not part of a cycle of unknown functions, and not nameable from outside the crate
  * when every call of it could be inlined the function itself is dropped from the program (it no longer exists as a
    unit); otherwise it stays and is analysed like any other function
A known helper that disappears (inlined by hand) is NOT reconstructed: rules that name it fail closed.
"""
import copy
import json
import os
import sys

from .model import Program

HERE = os.path.dirname(os.path.abspath(__file__))
KNOWN = os.path.join(HERE, "known_functions.json")
MAX_ROUNDS = 5
MAX_CALLEE_BLOCKS = 400


def load_known():
    try:
        return set(json.load(open(KNOWN))["functions"])
    except Exception:
        return None


def _remap(j, off, boff):
    """shift every local index by off (in place) in a copied block"""
    if isinstance(j, dict):
        if "l" in j and isinstance(j["l"], int) and ("proj" in j or j.get("k") in ("live", "dead")):
            j["l"] += off
        if "proj" in j:
            for pe in j["proj"]:
                if pe and pe[0] == "index" and len(pe) > 1 and isinstance(pe[1], int):
                    pe[1] += off
        for k, v in j.items():
            if k == "proj":
                continue
            _remap(v, off, boff)
    elif isinstance(j, list):
        for v in j:
            _remap(v, off, boff)


def _shift_targets(t, boff):
    for k in ("target", "unwind", "otherwise"):
        if isinstance(t.get(k), int):
            t[k] += boff
    if "branches" in t:
        t["branches"] = [[v, b + boff] for v, b in t["branches"]]


def inline_call(cf, b, g):
    """inline callee json g at the call terminating block b of caller json cf"""
    t = cf["blocks"][b]["term"]
    off = len(cf["locals"])
    boff = len(cf["blocks"])
    for l in g["locals"]:
        l2 = dict(l)
        l2["inl"] = g["name"]
        cf["locals"].append(l2)
    line = t.get("sp", {}).get("l0", 0)
    # arguments
    for i, a in enumerate(t["args"]):
        if i + 1 > g["argc"]:
            break
        cf["blocks"][b]["stmts"].append({"k": "assign", "p": {"l": off + i + 1, "proj": [], "ty": g["locals"][i + 1]["ty"]},
                                         "r": {"k": "use", "a": copy.deepcopy(a)}, "line": line, "inl_arg": g["name"]})
    dest = t.get("dest")
    target = t.get("target")
    unwind = t.get("unwind")
    for gb in g["blocks"]:
        nb = copy.deepcopy(gb)
        _remap(nb, off, boff)
        nt = nb["term"]
        _shift_targets(nt, boff)
        nb["file"] = g["file"]
        if nt["k"] == "return":
            if dest is not None:
                nb["stmts"].append({"k": "assign", "p": copy.deepcopy(dest),
                                    "r": {"k": "use", "a": {"k": "move", "p": {"l": off, "proj": [], "ty": g["locals"][0]["ty"]}}},
                                    "line": line, "inl_ret": g["name"]})
            if target is not None:
                nb["term"] = {"k": "goto", "target": target, "sp": t.get("sp", {})}
            else:
                nb["term"] = {"k": "unreachable", "sp": t.get("sp", {})}
        elif nt["k"] == "resume" and isinstance(unwind, int):
            nb["term"] = {"k": "goto", "target": unwind, "sp": nt.get("sp", {})}
        cf["blocks"].append(nb)
    cf["blocks"][b]["term"] = {"k": "goto", "target": boff, "sp": t.get("sp", {}), "inlined_call": g["name"]}
    cf.setdefault("inlined", []).append(g["name"])


def flatten_facts(facts, known):
    """returns (new facts, report)"""
    report = {"unknown": [], "inlined": {}, "dropped": [], "kept": {}}
    if known is None:
        return facts, report
    facts = copy.deepcopy(facts)
    for _round in range(MAX_ROUNDS):
        P = Program(facts)
        byname = {j["name"]: j for j in facts["fns"]}
        unknown = {n for n, j in byname.items() if n not in known and not j.get("closure") and "::{closure" not in n and not P.fns[n].in_tests()}
        # closures of unknown functions travel with them; an unknown function in a known function's closure is handled like any other
        unknown = {n for n in unknown if not byname[n].get("nameable") and not byname[n].get("impl_trait")}
        if _round == 0:
            report["unknown"] = sorted(unknown)
        if not unknown:
            break
        # leaves first: unknown functions that call no other unknown function
        calls = {n: set() for n in unknown}
        for n in unknown:
            for blk in byname[n]["blocks"]:
                t = blk["term"]
                if t["k"] == "call":
                    for tg in P.call_targets(t):
                        if tg in unknown:
                            calls[n].add(tg)
        leaves = {n for n in unknown if not calls[n] and len(byname[n]["blocks"]) <= MAX_CALLEE_BLOCKS}
        if not leaves:
            break
        progress = False
        remaining_sites = {n: 0 for n in leaves}
        for cf in facts["fns"]:
            if cf["name"] in leaves:
                continue
            nb = len(cf["blocks"])
            for b in range(nb):
                t = cf["blocks"][b]["term"]
                if t["k"] != "call":
                    continue
                tg = P.call_targets(t)
                hit = [x for x in tg if x in leaves]
                if not hit:
                    continue
                if len(tg) == 1 and t.get("rkind") in ("item", "shim", None) and cf["name"] != tg[0]:
                    inline_call(cf, b, byname[tg[0]])
                    report["inlined"].setdefault(tg[0], []).append(cf["name"])
                    progress = True
                else:
                    for x in hit:
                        remaining_sites[x] += 1
        drop = {n for n in leaves if n in report["inlined"] and remaining_sites[n] == 0}
        for n in leaves - drop:
            if n in report["inlined"] or remaining_sites.get(n):
                report["kept"][n] = "call sites that could not be inlined: %d" % remaining_sites.get(n, 0)
        if drop:
            facts["fns"] = [j for j in facts["fns"] if j["name"] not in drop]
            # closures defined inside a dropped function stay (they are referenced from the inlined bodies)
            report["dropped"].extend(sorted(drop))
        if not progress:
            break
    return facts, report


def flatten_program(facts):
    """Program over the normalised facts, with .raw = Program over the facts as extracted and .flatten_report"""
    known = load_known()
    raw = Program(facts)
    flat_facts, report = flatten_facts(facts, known)
    if not report["inlined"]:
        P = raw
    else:
        P = Program(flat_facts)
        # closures of an inlined helper now also belong to the functions it was inlined into
        for j in flat_facts["fns"]:
            for g in j.get("inlined", ()):
                for c in raw.closures_of.get(g, []):
                    if c in P.fns and c not in P.closures_of[j["name"]]:
                        P.closures_of[j["name"]].append(c)
    P.raw = raw
    P.flatten_report = report
    return P


if __name__ == "__main__":
    if "--write-known" in sys.argv:
        from . import facts as F
        names = set()
        for cfg in ("default", "no-default-features", "serde", "cfgtest"):
            fj, _meta = F.extract(cfg)
            names |= {j["name"] for j in fj["fns"] if not j.get("closure")}
        json.dump({"_comment": "function paths of the tree the rules were written against (all build configurations); functions "
                               "not listed here are inlined into their callers before the structural rules run (mdnsverif/flatten.py)",
                   "functions": sorted(names)}, open(KNOWN, "w"), indent=0)
        print("wrote %d names" % len(names))
