"""Normalisation before the structural rules run: helper functions that the pinned tree does not have are inlined
into their callers (MIR level), so that `extract a block into a new private helper` leaves the callers' bodies — which
is what the path rules look at — in their original shape.  The numeric engine (E3) keeps working on the raw program
(`P.raw`): it has its own inter-procedural machinery and keys its sites by source snippet.

Policy (deliberately one-directional and conservative):
  * a function is *unknown* if its path is not in known_functions.json (the function list of the tree the rules were
    written against; regenerate with `python3 -m mdnsverif.flatten --write-known`)
  * an unknown function is inlined at a call site when the call resolves statically to it alone, it is not a closure,
    not part of a cycle of unknown functions, and not nameable from outside the crate
  * when every call of it could be inlined the function itself is dropped from the program (it no longer exists as a
    unit); otherwise it stays and is analysed like any other function
A known helper that disappears (inlined by hand) is NOT reconstructed: rules that name it fail closed.
"""
import copy
import json
import os
import sys

from .model import Program

HERE = os.path.dirname(os.path.abspath(__file__))
KNOWN = os.path.join(HERE, "known_functions.json")
MAX_ROUNDS = 5
MAX_CALLEE_BLOCKS = 400


def load_known():
    try:
        return set(json.load(open(KNOWN))["functions"])
    except Exception:
        return None


def load_known_full():
    try:
        return json.load(open(KNOWN))
    except Exception:
        return None


def _sig(j):
    return json.dumps([j.get("impl_self"), j.get("impl_trait"), j.get("params"), j.get("ret"), bool(j.get("nameable"))])


def undo_renames(facts, known_full):
    """a private function or field that merely changed its name is given its old name back, so that rules which name it
    keep working: (a) an unknown function whose owner type, parameter types and return type equal those of exactly one
    known function that is now missing (and no other unknown function fits); (b) a field whose position and type are
    unchanged in a type that still has the same number of fields.  Returns (facts, report)."""
    report = {"functions": {}, "fields": {}}
    if not known_full or "signatures" not in known_full:
        return facts, report
    names = {j["name"] for j in facts["fns"]}
    known = set(known_full["functions"])
    sigs = known_full["signatures"]
    missing_by_sig = {}
    for k, sg in sigs.items():
        if k not in names:
            missing_by_sig.setdefault(sg, []).append(k)
    unknown_by_sig = {}
    for j in facts["fns"]:
        if j["name"] not in known and not j.get("closure") and "::{closure" not in j["name"]:
            unknown_by_sig.setdefault(_sig(j), []).append(j["name"])
    ren = {}
    for sg, us in unknown_by_sig.items():
        ks = missing_by_sig.get(sg, [])
        if len(us) == 1 and len(ks) == 1 and us[0].rsplit("::", 1)[0] == ks[0].rsplit("::", 1)[0]:
            ren[us[0]] = ks[0]
    if ren:
        import re
        text = json.dumps(facts)
        for u, k in sorted(ren.items(), key=lambda x: -len(x[0])):
            text = re.sub(re.escape(json.dumps(u)[1:-1]) + r"(?![A-Za-z0-9_])", json.dumps(k)[1:-1].replace("\\", "\\\\"), text)
        facts = json.loads(text)
        report["functions"] = ren
    # fields
    kadts = known_full.get("adts", {})
    fren = {}
    for a in facts["adts"]:
        layouts = kadts.get(a["name"]) or []
        # the layout of the build configuration at hand: same variants, same number of fields in each
        ka = None
        for lay in layouts:
            if len(lay) == len(a["variants"]) and all(lay[i][0] == v["name"] and len(lay[i][1]) == len(v["fields"]) for i, v in enumerate(a["variants"])):
                ka = lay
                break
        if ka is None:
            continue
        for vi, v in enumerate(a["variants"]):
            kv = ka[vi]
            for fi, fld in enumerate(v["fields"]):
                kname, kty = kv[1][fi]
                if fld["name"] != kname and fld["ty"] == kty and kname not in [x["name"] for x in v["fields"]]:
                    owner = a["name"] if a["kind"] == "struct" else a["name"] + "::" + v["name"]
                    fren[(owner, fi, fld["name"])] = kname
                    fld["name"] = kname
    if fren:
        def walk(j):
            if isinstance(j, dict):
                pr = j.get("proj")
                if isinstance(pr, list):
                    for pe in pr:
                        if pe and pe[0] == "field" and len(pe) >= 5 and (pe[4], pe[1], pe[2]) in fren:
                            pe[2] = fren[(pe[4], pe[1], pe[2])]
                if j.get("k") == "aggregate" and isinstance(j.get("fields"), list) and j.get("adt"):
                    owner = j["adt"] if j.get("vname") in (None, j["adt"].rsplit("::", 1)[-1]) else "%s::%s" % (j["adt"], j["vname"])
                    for fi, fn_ in enumerate(j["fields"]):
                        for ow in (owner, j["adt"]):
                            if (ow, fi, fn_) in fren:
                                j["fields"][fi] = fren[(ow, fi, fn_)]
                for v in j.values():
                    walk(v)
            elif isinstance(j, list):
                for v in j:
                    walk(v)
        walk(facts["fns"])
        report["fields"] = {"%s.%s" % (o, n): k for (o, _i, n), k in fren.items()}
    return facts, report


def _remap(j, off, boff):
    """shift every local index by off (in place) in a copied block"""
    if isinstance(j, dict):
        if "l" in j and isinstance(j["l"], int) and ("proj" in j or j.get("k") in ("live", "dead")):
            j["l"] += off
        if "proj" in j:
            for pe in j["proj"]:
                if pe and pe[0] == "index" and len(pe) > 1 and isinstance(pe[1], int):
                    pe[1] += off
        for k, v in j.items():
            if k == "proj":
                continue
            _remap(v, off, boff)
    elif isinstance(j, list):
        for v in j:
            _remap(v, off, boff)


def _shift_targets(t, boff):
    for k in ("target", "unwind", "otherwise"):
        if isinstance(t.get(k), int):
            t[k] += boff
    if "branches" in t:
        t["branches"] = [[v, b + boff] for v, b in t["branches"]]


def inline_call(cf, b, g, adts=None):
    """inline callee json g at the call terminating block b of caller json cf"""
    t = cf["blocks"][b]["term"]
    off = len(cf["locals"])
    boff = len(cf["blocks"])
    for l in g["locals"]:
        l2 = dict(l)
        l2["inl"] = g["name"]
        cf["locals"].append(l2)
    line = t.get("sp", {}).get("l0", 0)
    # arguments
    for i, a in enumerate(t["args"]):
        if i + 1 > g["argc"]:
            break
        cf["blocks"][b]["stmts"].append({"k": "assign", "p": {"l": off + i + 1, "proj": [], "ty": g["locals"][i + 1]["ty"]},
                                         "r": {"k": "use", "a": copy.deepcopy(a)}, "line": line, "inl_arg": g["name"]})
    dest = t.get("dest")
    target = t.get("target")
    unwind = t.get("unwind")
    for gb in g["blocks"]:
        nb = copy.deepcopy(gb)
        _remap(nb, off, boff)
        nt = nb["term"]
        _shift_targets(nt, boff)
        nb["file"] = g["file"]
        if nt["k"] == "return":
            if dest is not None:
                nb["stmts"].append({"k": "assign", "p": copy.deepcopy(dest),
                                    "r": {"k": "use", "a": {"k": "move", "p": {"l": off, "proj": [], "ty": g["locals"][0]["ty"]}}},
                                    "line": line, "inl_ret": g["name"]})
            if target is not None:
                nb["term"] = {"k": "goto", "target": target, "sp": t.get("sp", {})}
            else:
                nb["term"] = {"k": "unreachable", "sp": t.get("sp", {})}
        elif nt["k"] == "resume" and isinstance(unwind, int):
            nb["term"] = {"k": "goto", "target": unwind, "sp": nt.get("sp", {})}
        cf["blocks"].append(nb)
    cf["blocks"][b]["term"] = {"k": "goto", "target": boff, "sp": t.get("sp", {}), "inlined_call": g["name"]}
    cf.setdefault("inlined", []).append(g["name"])
    if dest is not None and target is not None:
        _thread_returns(cf, off, boff, len(g["blocks"]), dest, target, adts or {})


def _same_place(a, b):
    return a["l"] == b["l"] and a.get("proj", []) == b.get("proj", [])


def _known_value(stmts, local):
    """value last assigned to `local` (no projection) by a simple statement: ('variant', adt, index) | ('const', v)"""
    for s in reversed(stmts):
        if s["k"] != "assign":
            continue
        p = s["p"]
        if p["l"] != local:
            continue
        if p["proj"]:
            return None
        r = s["r"]
        if r["k"] == "aggregate" and r.get("ak") == "adt" and r.get("variant") is not None:
            return ("variant", r.get("adt"), r["variant"])
        if r["k"] == "use" and r["a"].get("k") == "const" and "val" in r["a"]:
            return ("const", r["a"]["val"])
        return None
    return None


def _eval_switch(stmts, term, env, adts):
    """mini constant propagation over the statements of a switch block; env: {local: value}.  Returns the successor the
    switch takes, or None"""
    env = dict(env)
    for s in stmts:
        if s["k"] != "assign":
            continue
        p, r = s["p"], s["r"]
        val = None
        if r["k"] == "use" and r["a"].get("k") in ("copy", "move") and not r["a"]["p"]["proj"]:
            val = env.get(r["a"]["p"]["l"])
        elif r["k"] == "use" and r["a"].get("k") == "const" and "val" in r["a"]:
            val = ("const", r["a"]["val"])
        elif r["k"] == "unop" and r.get("op") == "Not" and r["a"].get("k") in ("copy", "move") and not r["a"]["p"]["proj"]:
            v = env.get(r["a"]["p"]["l"])
            if v and v[0] == "const" and v[1] in (0, 1, True, False):
                val = ("const", 0 if v[1] else 1)
        elif r["k"] == "discr" and not r["p"]["proj"]:
            v = env.get(r["p"]["l"])
            if v and v[0] == "variant":
                a = adts.get(v[1])
                d = None
                if a and v[2] < len(a["variants"]):
                    d = a["variants"][v[2]].get("discr")
                val = ("const", d if isinstance(d, int) else v[2])
        if not p["proj"]:
            if val is not None:
                env[p["l"]] = val
            else:
                env.pop(p["l"], None)
    if term["k"] != "switch":
        return None
    d = term["d"]
    if d.get("k") == "const" and "val" in d:
        v = ("const", d["val"])
    elif "p" in d and not d["p"]["proj"]:
        v = env.get(d["p"]["l"])
    else:
        v = None
    if not v or v[0] != "const":
        return None
    x = int(v[1]) if isinstance(v[1], (bool, int)) else None
    if x is None:
        return None
    for val, tgt in term["branches"]:
        if val == x:
            return tgt
    return term["otherwise"]


def _thread_returns(cf, off, boff, n, dest, target, adts):
    """jump threading for the value an inlined helper returns: when a path through the helper ends by assigning a known
    variant / constant to the return place and the caller immediately branches on it (`if helper(..)`, `if let Some(x) =
    helper(..)`), that path is connected straight to the branch it takes — as it was before the block was extracted"""
    if dest.get("proj"):
        return
    blocks = cf["blocks"]
    T = blocks[target]
    if any(s["k"] == "assign" and s["r"]["k"] not in ("use", "unop", "discr", "ref") for s in T["stmts"]):
        return
    via_try = None
    if T["term"]["k"] == "call" and (T["term"].get("callee") or "").endswith("Try::branch") and T["term"].get("target") is not None:
        # `helper(..)?`: the value goes through Try::branch first; Ok/Some continue, Err/None break
        a0 = (T["term"].get("args") or [None])[0]
        d2 = T["term"].get("dest")
        if a0 and a0.get("k") in ("move", "copy") and _same_place(a0["p"], dest) and d2 and not d2.get("proj"):
            T2 = blocks[T["term"]["target"]]
            if T2["term"]["k"] == "switch" and not any(s["k"] == "assign" and s["r"]["k"] not in ("use", "unop", "discr", "ref") for s in T2["stmts"]):
                via_try = (d2["l"], T2)
    if T["term"]["k"] != "switch" and via_try is None:
        return
    rets = [i for i in range(boff, boff + n) if any(s.get("inl_ret") for s in blocks[i]["stmts"]) and blocks[i]["term"].get("target") == target]

    def assigns_ret(i):
        return any(s["k"] == "assign" and s["p"]["l"] == off for s in blocks[i]["stmts"] if not s.get("inl_ret")) or \
            (blocks[i]["term"]["k"] == "call" and (blocks[i]["term"].get("dest") or {}).get("l") == off)

    def chain_to(i, R):
        """blocks between i (exclusive) and R (exclusive) when i reaches R through gotos / drops only, without writing the return place"""
        out = []
        cur = blocks[i]["term"].get("target") if blocks[i]["term"]["k"] in ("goto", "drop") else None
        while cur is not None and cur != R and len(out) < 12:
            if not (boff <= cur < boff + n) or assigns_ret(cur) or blocks[cur]["term"]["k"] not in ("goto", "drop"):
                return None
            out.append(cur)
            cur = blocks[cur]["term"].get("target")
        return out if cur == R else None

    for R in rets:
        cands = []
        if _known_value(blocks[R]["stmts"][:-1], off):
            cands.append((R, blocks[R]["stmts"][:-1], []))
        else:
            for i in range(boff, boff + n):
                if i == R or not _known_value(blocks[i]["stmts"], off):
                    continue
                ch = chain_to(i, R)
                if ch is not None:
                    cands.append((i, blocks[i]["stmts"], ch))
        for (pb, stmts, chain) in cands:
            v = _known_value(stmts, off)
            if v is None:
                continue
            if chain:
                # private copies of the blocks between the assignment and the return block
                first = None
                prev = None
                for c in chain:
                    nbk = copy.deepcopy(blocks[c])
                    blocks.append(nbk)
                    idx = len(blocks) - 1
                    if first is None:
                        first = idx
                    if prev is not None:
                        blocks[prev]["term"]["target"] = idx
                    prev = idx
                blocks[pb]["term"] = dict(blocks[pb]["term"])
                blocks[pb]["term"]["target"] = first
                pb = prev          # its terminator still points at R: retargeted below
            if via_try is not None:
                if v[0] != "variant" or not v[1]:
                    continue
                if v[1].endswith("result::Result"):
                    cidx = v[2]
                elif v[1].endswith("option::Option"):
                    cidx = 0 if v[2] == 1 else 1
                else:
                    continue
                dl, T2 = via_try
                nxt = _eval_switch(T2["stmts"], T2["term"], {dl: ("variant", "std::ops::ControlFlow", cidx)}, adts)
                if nxt is None:
                    continue
                nb2 = {"stmts": copy.deepcopy(T2["stmts"]), "term": {"k": "goto", "target": nxt, "sp": T2["term"].get("sp", {}), "threaded": True},
                       "file": blocks[R].get("file")}
                blocks.append(nb2)
                call = copy.deepcopy(T["term"])
                call["target"] = len(blocks) - 1
                nb = {"stmts": ([] if pb == R else copy.deepcopy(blocks[R]["stmts"])) + copy.deepcopy(T["stmts"]), "term": call, "file": blocks[R].get("file")}
                blocks.append(nb)
                blocks[pb]["term"] = dict(blocks[pb]["term"])
                blocks[pb]["term"]["target"] = len(blocks) - 1
                continue
            nxt = _eval_switch(T["stmts"], T["term"], {dest["l"]: v}, adts)
            if nxt is None:
                continue
            nb = {"stmts": ([] if pb == R else copy.deepcopy(blocks[R]["stmts"])) + copy.deepcopy(T["stmts"]),
                  "term": {"k": "goto", "target": nxt, "sp": T["term"].get("sp", {}), "threaded": True}, "file": blocks[R].get("file")}
            blocks.append(nb)
            blocks[pb]["term"] = dict(blocks[pb]["term"])
            blocks[pb]["term"]["target"] = len(blocks) - 1


def flatten_facts(facts, known):
    """returns (new facts, report)"""
    report = {"unknown": [], "inlined": {}, "dropped": [], "kept": {}}
    if known is None:
        return facts, report
    facts = copy.deepcopy(facts)
    for _round in range(MAX_ROUNDS):
        P = Program(facts)
        byname = {j["name"]: j for j in facts["fns"]}
        adts_by_name = {a["name"]: a for a in facts["adts"]}
        unknown = {n for n, j in byname.items() if n not in known and not j.get("closure") and "::{closure" not in n and not P.fns[n].in_tests()}
        # closures of unknown functions travel with them; an unknown function in a known function's closure is handled like any other
        unknown = {n for n in unknown if not byname[n].get("nameable") and not byname[n].get("impl_trait")}
        if _round == 0:
            report["unknown"] = sorted(unknown)
        if not unknown:
            break
        # leaves first: unknown functions that call no other unknown function
        calls = {n: set() for n in unknown}
        for n in unknown:
            for blk in byname[n]["blocks"]:
                t = blk["term"]
                if t["k"] == "call":
                    for tg in P.call_targets(t):
                        if tg in unknown:
                            calls[n].add(tg)
        leaves = {n for n in unknown if not calls[n] and len(byname[n]["blocks"]) <= MAX_CALLEE_BLOCKS}
        if not leaves:
            break
        progress = False
        remaining_sites = {n: 0 for n in leaves}
        for cf in facts["fns"]:
            if cf["name"] in leaves:
                continue
            nb = len(cf["blocks"])
            for b in range(nb):
                t = cf["blocks"][b]["term"]
                if t["k"] != "call":
                    continue
                tg = P.call_targets(t)
                hit = [x for x in tg if x in leaves]
                if not hit:
                    continue
                if len(tg) == 1 and t.get("rkind") in ("item", "shim", None) and cf["name"] != tg[0]:
                    inline_call(cf, b, byname[tg[0]], adts_by_name)
                    report["inlined"].setdefault(tg[0], []).append(cf["name"])
                    progress = True
                else:
                    for x in hit:
                        remaining_sites[x] += 1
        drop = {n for n in leaves if n in report["inlined"] and remaining_sites[n] == 0}
        for n in leaves - drop:
            if n in report["inlined"] or remaining_sites.get(n):
                report["kept"][n] = "call sites that could not be inlined: %d" % remaining_sites.get(n, 0)
        if drop:
            facts["fns"] = [j for j in facts["fns"] if j["name"] not in drop]
            # closures defined inside a dropped function stay (they are referenced from the inlined bodies)
            report["dropped"].extend(sorted(drop))
        if not progress:
            break
    return facts, report


def flatten_program(facts):
    """Program over the normalised facts, with .raw = Program over the facts as extracted and .flatten_report"""
    known = load_known()
    facts, ren = undo_renames(facts, load_known_full())
    raw = Program(facts)
    flat_facts, report = flatten_facts(facts, known)
    report["renamed_back"] = ren
    if not report["inlined"]:
        P = raw
    else:
        P = Program(flat_facts)
        # closures of an inlined helper now also belong to the functions it was inlined into
        for j in flat_facts["fns"]:
            for g in j.get("inlined", ()):
                for c in raw.closures_of.get(g, []):
                    if c in P.fns and c not in P.closures_of[j["name"]]:
                        P.closures_of[j["name"]].append(c)
    P.raw = raw
    P.flatten_report = report
    return P


if __name__ == "__main__":
    if "--write-known" in sys.argv:
        from . import facts as F
        names = set()
        sigs = {}
        adts = {}
        for cfg in ("default", "no-default-features", "serde", "cfgtest"):
            fj, _meta = F.extract(cfg)
            names |= {j["name"] for j in fj["fns"] if not j.get("closure")}
            for j in fj["fns"]:
                if not j.get("closure") and "::{closure" not in j["name"]:
                    sigs[j["name"]] = _sig(j)
            for a in fj["adts"]:
                lay = [[v["name"], [[f["name"], f["ty"]] for f in v["fields"]]] for v in a["variants"]]
                if lay not in adts.setdefault(a["name"], []):
                    adts[a["name"]].append(lay)
        json.dump({"_comment": "function paths (with signatures) and type layouts of the tree the rules were written against (all build "
                               "configurations); functions not listed here are inlined into their callers, and mere renames are undone, before the "
                               "structural rules run (mdnsverif/flatten.py)",
                   "functions": sorted(names), "signatures": sigs, "adts": adts}, open(KNOWN, "w"), indent=0)
        print("wrote %d names" % len(names))
