"""Linear expressions over symbols and a small constraint store with Fourier-Motzkin entailment.

All program quantities are integers; a constraint is `lin <= 0`.  Entailment of `g <= 0` is decided by
refuting `store ∧ g >= 1` over the rationals (sound for integers).  No external solver is used.
"""
from fractions import Fraction

U64MAX = 2 ** 64 - 1
TYPE_RANGE = {
    "u8": (0, 255), "u16": (0, 65535), "u32": (0, 2 ** 32 - 1), "u64": (0, U64MAX), "usize": (0, U64MAX), "u128": (0, 2 ** 128 - 1),
    "i8": (-128, 127), "i16": (-32768, 32767), "i32": (-2 ** 31, 2 ** 31 - 1), "i64": (-2 ** 63, 2 ** 63 - 1), "isize": (-2 ** 63, 2 ** 63 - 1),
    "i128": (-2 ** 127, 2 ** 127 - 1), "bool": (0, 1), "char": (0, 0x10FFFF),
}
LEN_MAX = 2 ** 62          # stated assumption: no slice/Vec/str in memory is longer than 2^62 (64-bit address spaces are <= 2^57)


class Lin:
    __slots__ = ("t", "c", "_h")

    def __init__(self, terms=(), c=0):
        if isinstance(terms, dict):
            terms = tuple(sorted((k, v) for k, v in terms.items() if v != 0))
        self.t = terms
        self.c = c
        self._h = None

    @staticmethod
    def const(c):
        return Lin((), c)

    @staticmethod
    def sym(s):
        return Lin(((s, 1),), 0)

    def d(self):
        return dict(self.t)

    def __hash__(self):
        if self._h is None:
            self._h = hash((self.t, self.c))
        return self._h

    def __eq__(self, o):
        return isinstance(o, Lin) and self.t == o.t and self.c == o.c

    def add(self, o, k=1):
        d = dict(self.t)
        for s, v in o.t:
            d[s] = d.get(s, 0) + k * v
        return Lin(d, self.c + k * o.c)

    def sub(self, o):
        return self.add(o, -1)

    def scale(self, k):
        return Lin({s: v * k for s, v in self.t}, self.c * k)

    def addc(self, k):
        return Lin(self.t, self.c + k)

    def is_const(self):
        return not self.t

    def syms(self):
        return [s for s, _ in self.t]

    def subst(self, m):
        """replace symbols by Lin according to dict m"""
        if not any(s in m for s, _ in self.t):
            return self
        out = Lin((), self.c)
        for s, v in self.t:
            if s in m:
                out = out.add(m[s], v)
            else:
                out = out.add(Lin(((s, 1),), 0), v)
        return out

    def __repr__(self):
        parts = []
        for s, v in self.t:
            parts.append(("%s" % s) if v == 1 else ("-%s" % s) if v == -1 else "%d*%s" % (v, s))
        if self.c or not parts:
            parts.append(str(self.c))
        return " + ".join(parts).replace("+ -", "- ")


class Store:
    """conjunction of constraints lin <= 0 plus per-symbol type ranges"""

    def __init__(self, cons=(), ranges=None):
        self.cons = list(cons)
        self.ranges = dict(ranges or {})      # sym -> (lo, hi)
        self._set = set(self.cons)
        self.bottom = False

    def copy(self):
        s = Store(self.cons, self.ranges)
        s.bottom = self.bottom
        return s

    def declare(self, sym, lo, hi):
        if sym not in self.ranges:
            self.ranges[sym] = (lo, hi)
        else:
            a, b = self.ranges[sym]
            self.ranges[sym] = (max(a, lo), min(b, hi))

    def add(self, lin):
        """assume lin <= 0"""
        if lin.is_const():
            if lin.c > 0:
                self.bottom = True
            return
        # single symbol constraint -> tighten range
        if len(lin.t) == 1:
            s, v = lin.t[0]
            lo, hi = self.ranges.get(s, (None, None))
            if v > 0:       # v*s + c <= 0 -> s <= floor(-c/v)
                b = (-lin.c) // v
                hi = b if hi is None else min(hi, b)
            else:           # v<0: s >= ceil(c/(-v))
                num, den = lin.c, -v
                b = -(-num // den)
                lo = b if lo is None else max(lo, b)
            self.ranges[s] = (lo, hi)
            if lo is not None and hi is not None and lo > hi:
                self.bottom = True
            return
        if lin not in self._set:
            self._set.add(lin)
            self.cons.append(lin)

    def add_eq(self, lin):
        self.add(lin)
        self.add(lin.scale(-1))

    # ------------------------------------------------------------------ queries
    def interval(self, lin):
        """interval of lin from symbol ranges only (fast)"""
        lo = hi = lin.c
        for s, v in lin.t:
            a, b = self.ranges.get(s, (None, None))
            if v > 0:
                lo = None if lo is None or a is None else lo + v * a
                hi = None if hi is None or b is None else hi + v * b
            else:
                lo = None if lo is None or b is None else lo + v * b
                hi = None if hi is None or a is None else hi + v * a
        return lo, hi

    def entails(self, lin, budget=4000):
        """store |= lin <= 0 ?"""
        if self.bottom:
            return True
        if lin.is_const():
            return lin.c <= 0
        lo, hi = self.interval(lin)
        if hi is not None and hi <= 0:
            return True
        # relevant constraints: transitive closure over shared symbols
        syms = set(lin.syms())
        rel = []
        pool = list(self.cons)
        changed = True
        while changed:
            changed = False
            rest = []
            for c in pool:
                if any(s in syms for s in c.syms()):
                    rel.append(c)
                    for s in c.syms():
                        if s not in syms:
                            syms.add(s)
                            changed = True
                else:
                    rest.append(c)
            pool = rest
        if not rel:
            return False
        rows = []
        for c in rel:
            rows.append((dict(c.t), Fraction(c.c)))
        for s in sorted(syms):
            a, b = self.ranges.get(s, (None, None))
            if a is not None:
                rows.append(({s: -1}, Fraction(a)))        # -s + a <= 0
            if b is not None:
                rows.append(({s: 1}, Fraction(-b)))        # s - b <= 0
        # negated goal: lin >= 1  <=>  -lin + 1 <= 0
        rows.append(({s: -v for s, v in lin.t}, Fraction(1 - lin.c)))
        return _fm_infeasible(rows, budget)

    def entails_eq(self, lin):
        return self.entails(lin) and self.entails(lin.scale(-1))

    def signature(self):
        return (frozenset(self._set), tuple(sorted((k, v) for k, v in self.ranges.items())))


def _fm_infeasible(rows, budget):
    """rows: list of (dict sym->coef, const) meaning sum + const <= 0; True iff infeasible over rationals"""
    rows = [({s: Fraction(v) for s, v in d.items() if v != 0}, c) for d, c in rows]
    while True:
        # trivial checks
        nr = []
        for d, c in rows:
            if not d:
                if c > 0:
                    return True
                continue
            nr.append((d, c))
        rows = nr
        if not rows:
            return False
        # pick symbol minimizing pos*neg
        cnt = {}
        for d, c in rows:
            for s, v in d.items():
                p, n = cnt.get(s, (0, 0))
                cnt[s] = (p + 1, n) if v > 0 else (p, n + 1)
        best = None
        for s, (p, n) in cnt.items():
            cost = p * n - p - n
            if best is None or cost < best[0]:
                best = (cost, s, p, n)
        _, s, p, n = best
        pos = [(d, c) for d, c in rows if d.get(s, 0) > 0]
        neg = [(d, c) for d, c in rows if d.get(s, 0) < 0]
        rest = [(d, c) for d, c in rows if s not in d]
        if len(pos) * len(neg) + len(rest) > budget:
            return False        # give up: not proven
        new = rest
        seen = set()
        for dp, cp in pos:
            ap = dp[s]
            for dn, cn in neg:
                an = -dn[s]
                d = {}
                for k, v in dp.items():
                    if k != s:
                        d[k] = d.get(k, 0) + v * an
                for k, v in dn.items():
                    if k != s:
                        d[k] = d.get(k, 0) + v * ap
                d = {k: v for k, v in d.items() if v != 0}
                c = cp * an + cn * ap
                key = (tuple(sorted(d.items())), c)
                if key in seen:
                    continue
                seen.add(key)
                new.append((d, c))
        rows = new
        budget -= 1
        if budget <= 0:
            return False
