"""E3 numeric abstract interpreter over MIR facts.

Abstract state: env (key -> abstract value) + Store (linear constraints over symbols).
Keys are (frame, root_local, path).  Values:
  ('int', Lin) ('bool', cond) ('seq', Lin len, frozenset flags) ('range', kind, lo, hi)
  ('opt', tag|None, payload|None, family) ('tuple', (..)) ('iter', kind, data) ('ptr', key) ('discr', key, ty) ('top',)
Conditions: ('le', Lin) lin<=0 | ('eq', Lin) | ('not', c) | ('and', a, b) | ('or', a, b) | ('onlytrue', c) | ('tag', key, fam, names) | ('top',)
"""
import re

from .linarith import Lin, Store, TYPE_RANGE, LEN_MAX, U64MAX
from .model import callee_name, strip_generics

TOP = ("top",)
INT_TYPES = set(TYPE_RANGE) - {"bool", "char"}
CLOCK_MAX = 2 ** 62

_ARR = re.compile(r"^\[(.+); (\d+)\]$")


def is_int_ty(ty):
    return ty in INT_TYPES


def seq_kind(ty):
    t = ty
    while t.startswith("&"):
        t = t[1:].lstrip()
        if t.startswith("mut "):
            t = t[4:]
        if t.startswith("'"):
            t = t.split(" ", 1)[1] if " " in t else t
    if t.startswith("std::vec::Vec<"):
        return "vec"
    if t.startswith("std::collections::BinaryHeap<"):
        return "heap"
    if t == "std::string::String":
        return "string"
    if t == "str":
        return "str"
    if t.startswith("[") and t.endswith("]"):
        return "array" if _ARR.match(t) else "slice"
    return None


def array_len(ty):
    t = ty.lstrip("&").replace("mut ", "").strip()
    m = _ARR.match(t)
    return int(m.group(2)) if m else None


def opt_family(ty):
    t = ty.lstrip("&").replace("mut ", "").strip()
    if t.startswith("std::option::Option<"):
        return "Option"
    if t.startswith("std::result::Result<"):
        return "Result"
    if t.startswith("std::ops::ControlFlow<"):
        return "ControlFlow"
    return None


FAM_VARIANTS = {"Option": {0: "None", 1: "Some"}, "Result": {0: "Ok", 1: "Err"}, "ControlFlow": {0: "Continue", 1: "Break"}}


class State:
    __slots__ = ("env", "store", "trail")

    def __init__(self, env=None, store=None, trail=()):
        self.env = env if env is not None else {}
        self.store = store if store is not None else Store()
        self.trail = trail          # (block, successor) decisions; only kept in path-separated region passes

    def copy(self):
        return State(dict(self.env), self.store.copy(), self.trail)

    @property
    def bottom(self):
        return self.store.bottom


class Site:
    """one panic obligation"""

    def __init__(self, fn, bb, kind, what, cls="A"):
        self.fn, self.bb, self.kind, self.what, self.cls = fn, bb, kind, what, cls
        self.ok = True
        self.seen = 0
        self.fail_detail = None
        self.proof = None
        self.ctxs = []

    def key(self):
        return (self.fn.name, self.bb, self.kind)


class Interp:
    def __init__(self, P, effects=None, inline_depth=3, invariants=None, max_inline_blocks=60):
        self.P = P
        self.eff = effects
        self.inline_depth = inline_depth
        self.max_inline_blocks = max_inline_blocks
        self.sites = {}
        self.fresh = 0
        self.invariants = invariants or []      # list of StructInvariant
        self.loop_reports = {}                  # (fn, head) -> verdict
        self.band = {}                          # sym -> (Lin operand, mask, operand_hi)
        self.unknown_calls = {}
        self.param_ranges = {}                  # (fn name, param idx) -> (lo, hi)
        self.trace = False
        self.stack = []
        self.cur = "?"
        self.symctr = 0
        self.declared = set()
        self.field_ranges = {}         # (field name,) or ("as:Variant", index) -> (lo, hi): declared, checked at writes
        self.cur_pos = None            # (fn name, block, statement index) being executed
        self.casts = {}                # narrowing integer casts: pos -> {lossless, seen, from, to}

    # ------------------------------------------------------------------ symbols
    def newsym(self, st, hint, lo=0, hi=U64MAX):
        """deterministic name per (frame, function, block, ordinal in block): re-executing a block re-declares the same
        symbols, so states can converge; a re-declared symbol is first forgotten"""
        self.symctr += 1
        s = "%s@%s.%d" % (hint, self.cur, self.symctr)
        if s in st.store.ranges or s in self.declared:
            self.forget_symbol(st, s)
        self.declared.add(s)
        st.store.ranges[s] = (lo, hi)
        return s

    def forget_symbol(self, st, s):
        if s in st.store.ranges:
            del st.store.ranges[s]
        cons = [c for c in st.store.cons if s not in c.syms()]
        if len(cons) != len(st.store.cons):
            st.store.cons = cons
            st.store._set = set(cons)
        for k, v in list(st.env.items()):
            if _mentions(v, s):
                st.env[k] = ("havoc",)
        self.band.pop(s, None)

    def fresh_int(self, st, ty, hint="t"):
        lo, hi = TYPE_RANGE.get(ty, (None, None))
        return ("int", Lin.sym(self.newsym(st, hint, lo, hi)))

    def field_range(self, key):
        """declared range of the field / enum payload slot a key ends in (checked at every write)"""
        path = key[2]
        if not path or not self.field_ranges:
            return None
        r = self.field_ranges.get((path[-1],))
        if r is None and len(path) >= 2:
            r = self.field_ranges.get((path[-2], path[-1]))
        return r

    def default(self, st, key, ty):
        """value of a never-written key of type ty (entry value)"""
        if ty is None:
            return TOP
        t = ty
        if is_int_ty(t):
            s = "in:%s" % (key_str(key),)
            lo, hi = TYPE_RANGE[t]
            fr = self.field_range(key)
            if fr is not None:
                lo, hi = max(lo, fr[0]), min(hi, fr[1])
            st.store.declare(s, lo, hi)
            return ("int", Lin.sym(s))
        if t == "bool":
            return ("bool", TOP)
        sk = seq_kind(t)
        if sk:
            n = array_len(t)
            if n is not None:
                return ("seq", Lin.const(n), frozenset())
            s = "len:%s" % (key_str(key),)
            st.store.declare(s, 0, LEN_MAX)
            return ("seq", Lin.sym(s), frozenset(), ("entry", key_str(key)))
        fam = opt_family(t)
        if fam:
            return ("opt", None, None, fam)
        return TOP

    # ------------------------------------------------------------------ places
    def resolve(self, st, frame, p):
        """place -> (key, leftover) ; leftover = remaining projections that leave the key space (index etc.)"""
        key = (frame, p["l"], ())
        proj = p["proj"]
        i = 0
        while i < len(proj):
            pe = proj[i]
            k = pe[0]
            if k == "deref":
                v = st.env.get(key)
                if v is not None and v[0] == "ptr":
                    key = v[1]
                # else: reference local stands for its pointee
            elif k == "field":
                nm = pe[2] if pe[2] != "" else pe[1]
                if isinstance(nm, str) and nm.isdigit():
                    nm = int(nm)
                key = (key[0], key[1], key[2] + (nm,))
            elif k == "downcast":
                key = (key[0], key[1], key[2] + ("as:" + str(pe[2]),))
            else:
                return key, proj[i:]
            i += 1
        return key, ()

    def read_key(self, st, key, ty):
        if ty is None and hasattr(self, "ktype"):
            ty = self.ktype.get(key)
        v = st.env.get(key)
        if v is not None and v[0] == "havoc":
            ty = ty or self.ktype.get(key) if hasattr(self, "ktype") else ty
            if ty is None:
                return TOP
            v = self.default_noentry(st, ty)
            fr = self.field_range(key)
            if fr is not None and v[0] == "int":
                st.store.add(Lin.const(fr[0]).sub(v[1]))
                st.store.add(v[1].addc(-fr[1]))
            if v is not TOP:
                st.env[key] = v
            return v
        if v is not None:
            return v
        # structured parent?
        root = (key[0], key[1], ())
        for cut in range(len(key[2]) - 1, -1, -1):
            pk = (key[0], key[1], key[2][:cut])
            pv = st.env.get(pk)
            if pv is None:
                continue
            rest = key[2][cut:]
            cur = pv
            ok = True
            for comp in rest:
                if cur[0] == "ptr":
                    cur = self.read_key(st, cur[1], None) if st.env.get(cur[1]) is not None else TOP
                if cur[0] == "tuple" and isinstance(comp, int) and comp < len(cur[1]):
                    cur = cur[1][comp]
                elif cur[0] == "opt" and isinstance(comp, str) and comp.startswith("as:"):
                    want = comp[3:]
                    if cur[1] is not None and cur[1] != want:
                        cur = TOP
                    else:
                        pay = cur[2]
                        if pay is not None and pay[0] == "either":
                            pay = pay[1] if want in ("Ok", "Some", "Continue") else pay[2]
                        elif cur[1] is None and want in ("Err", "None", "Break"):
                            pay = None      # the payload slot describes the positive variant only
                        cur = ("optp", pay)
                elif cur[0] == "optp" and comp == 0:
                    cur = cur[1] if cur[1] is not None else None
                    if cur is None:
                        ok = False
                        break
                else:
                    ok = False
                    break
            if ok and cur is not None and cur[0] != "optp":
                return cur
            break
        v = self.default(st, key, ty)
        if v is not TOP:
            st.env[key] = v
        return v

    def read_place(self, st, frame, p):
        key, left = self.resolve(st, frame, p)
        if left:
            # element of a sequence etc.
            ty = p["ty"]
            if is_int_ty(ty):
                return self.fresh_int(st, ty, "elem")
            return self.default_noentry(st, ty)
        return self.read_key(st, key, p["ty"])

    def default_noentry(self, st, ty):
        if is_int_ty(ty):
            return self.fresh_int(st, ty)
        sk = seq_kind(ty)
        if sk:
            n = array_len(ty)
            if n is not None:
                return ("seq", Lin.const(n), frozenset())
            sy = self.newsym(st, "len", 0, LEN_MAX)
            return ("seq", Lin.sym(sy), frozenset(), ("val", sy))
        fam = opt_family(ty)
        if fam:
            return ("opt", None, None, fam)
        if ty == "bool":
            return ("bool", TOP)
        return TOP

    def deref(self, st, v, ty=None):
        n = 0
        while v is not None and v[0] == "ptr" and n < 8:
            v = self.read_key(st, v[1], ty)
            n += 1
        return v if v is not None else TOP

    def write_key(self, st, key, v):
        # invalidate sub-keys
        for k in [k for k in st.env if k[0] == key[0] and k[1] == key[1] and len(k[2]) > len(key[2]) and k[2][:len(key[2])] == key[2]]:
            del st.env[k]
        # a write below a structured parent value makes the parent imprecise
        for cut in range(len(key[2])):
            pk = (key[0], key[1], key[2][:cut])
            pv = st.env.get(pk)
            if pv is not None and pv[0] in ("tuple", "opt"):
                del st.env[pk]
        if v is None or v is TOP:
            st.env.pop(key, None)
            st.env[key] = TOP
        else:
            st.env[key] = v

    def havoc_key(self, st, key, fields=None):
        """forget everything at and below key (or only sub-paths touching `fields`)"""
        for k in list(st.env):
            if k[0] == key[0] and k[1] == key[1] and k[2][:len(key[2])] == key[2]:
                if fields is None or any(f in fields for f in k[2][len(key[2]):]) or (len(k[2]) == len(key[2]) and fields is None):
                    st.env[k] = ("havoc",)
        if fields is None:
            st.env[key] = ("havoc",)

    # ------------------------------------------------------------------ operands
    def operand(self, st, frame, o):
        k = o["k"]
        if k == "const":
            ty = o.get("ty", "")
            if "val" not in o and o.get("tyconst") and is_int_ty(ty):
                m = re.match(r"^(-?\d+)_[ui]\w+$", o.get("text") or "")
                if m:
                    return ("int", Lin.const(int(m.group(1))))
            if "val" in o and (is_int_ty(ty) or ty in ("bool", "char")):
                if ty == "bool":
                    return ("bool", ("const", bool(o["val"])))
                return ("int", Lin.const(o["val"]))
            if "str" in o:
                s = o["str"]
                return ("seq", Lin.const(len(s.encode())), frozenset(["ascii"] if all(ord(c) < 128 for c in s) else []), ("const", s))
            if "pinit" in o:
                return self.promoted(st, o)
            n = array_len(ty)
            if n is not None:
                return ("seq", Lin.const(n), frozenset())
            if "fn" in o:
                return ("fn", o["fn"])
            return self.default_noentry(st, ty)
        if k in ("copy", "move"):
            v = self.read_place(st, frame, o["p"])
            if v[0] == "havoc":
                v = self.default_noentry(st, o["p"]["ty"])
            return v
        return TOP

    def promoted(self, st, o):
        inits = o["pinit"]
        env = {it["l"]: it["r"] for it in inits}
        r = env.get(1) or inits[-1]["r"]
        if r["k"] == "use" and r["a"]["k"] == "const":
            return self.operand(st, -1, r["a"])
        if r["k"] == "aggregate" and r["ak"] == "array":
            return ("seq", Lin.const(len(r["ops"])), frozenset())
        return TOP

    # ------------------------------------------------------------------ rvalues
    def rvalue(self, st, frame, r, dest_ty):
        k = r["k"]
        if k == "use":
            return self.operand(st, frame, r["a"])
        if k in ("ref", "addrof"):
            key, left = self.resolve(st, frame, r["p"])
            if left:
                return self.default_noentry(st, dest_ty)
            return ("ptr", key)
        if k == "copyforderef":
            return self.read_place(st, frame, r["p"])
        if k in ("binop", "checked"):
            a = self.deref(st, self.operand(st, frame, r["a"]))
            b = self.deref(st, self.operand(st, frame, r["b"]))
            v = self.binop(st, r["op"], a, b, dest_ty if k == "binop" else None, r)
            if k == "checked":
                return ("tuple", (v, ("bool", TOP)))
            return v
        if k == "unop":
            a = self.deref(st, self.operand(st, frame, r["a"]))
            if r["op"] == "Not":
                if a[0] == "bool":
                    return ("bool", ("not", a[1]))
                return self.default_noentry(st, dest_ty)
            if r["op"] == "PtrMetadata":
                if a[0] == "seq":
                    return ("int", a[1])
                return self.fresh_int(st, "usize", "len")
            return self.default_noentry(st, dest_ty)
        if k == "cast":
            a = self.deref(st, self.operand(st, frame, r["a"]))
            ty = r["ty"]
            if r["ck"] == "IntToInt" and a[0] == "int" and is_int_ty(ty):
                lo, hi = TYPE_RANGE[ty]
                fits = st.store.entails(a[1].addc(-hi)) and st.store.entails(Lin.const(lo).sub(a[1]))
                src_ty = (r["a"].get("p") or {}).get("ty") or r["a"].get("ty") or ""
                if src_ty in TYPE_RANGE and (TYPE_RANGE[src_ty][1] > hi or TYPE_RANGE[src_ty][0] < lo) and self.cur_pos is not None:
                    rec = self.casts.setdefault(self.cur_pos, {"lossless": True, "seen": 0, "from": src_ty, "to": ty, "detail": ""})
                    rec["seen"] += 1
                    if not fits:
                        if rec["lossless"]:
                            rec["detail"] = "value %s not shown to fit %s [context: %s]" % (a[1], ty, " > ".join(self.stack[-3:]))
                        rec["lossless"] = False
                if fits:
                    return a
                return self.fresh_int(st, ty, "cast")
            if r["ck"] == "IntToInt" and a[0] == "bool" and is_int_ty(ty):
                s = self.newsym(st, "b2i", 0, 1)
                return ("int", Lin.sym(s))
            if r["ck"].startswith("PointerCoercion") or r["ck"] in ("PtrToPtr", "Transmute", "Subtype"):
                # unsizing &[T; N] -> &[T], &Vec -> ... keeps the sequence
                if a[0] in ("seq", "ptr"):
                    return a
                return self.default_noentry(st, ty)
            return self.default_noentry(st, ty)
        if k == "aggregate":
            ak = r["ak"]
            ops = [self.operand(st, frame, o) for o in r["ops"]]
            if ak == "tuple":
                return ("tuple", tuple(ops))
            if ak == "array":
                return ("seq", Lin.const(len(ops)), frozenset())
            if ak == "adt":
                adt = r.get("adt") or ""
                vn = r.get("vname")
                if adt.startswith("std::ops::Range") or adt.startswith("core::ops::Range"):
                    kind = adt.split("::")[-1]
                    ints = [self.deref(st, o) for o in ops]
                    lo = hi = None
                    names = r.get("fields") or []
                    for nm, v in zip(names, ints):
                        if v[0] == "int":
                            if nm == "start":
                                lo = v[1]
                            elif nm == "end":
                                hi = v[1]
                    return ("range", kind, lo, hi)
                if adt == "std::option::Option":
                    return ("opt", vn, ops[0] if ops else None, "Option")
                if adt == "std::result::Result":
                    return ("opt", vn, ops[0] if ops else None, "Result")
                if adt == "std::ops::ControlFlow":
                    return ("opt", vn, ops[0] if ops else None, "ControlFlow")
                return ("agg", adt, vn, tuple(r.get("fields") or ()), tuple(ops))
            if ak == "closure":
                return ("agg", "closure:" + (r.get("closure") or "?"), None, tuple(str(i) for i in range(len(ops))), tuple(ops))
            return TOP
        if k == "discr":
            key, left = self.resolve(st, frame, r["p"])
            if left:
                return TOP
            return ("discr", key, r["p"]["ty"])
        if k == "len":
            v = self.deref(st, self.read_place(st, frame, r["p"]))
            if v[0] == "seq":
                return ("int", v[1])
            return self.fresh_int(st, "usize", "len")
        if k == "repeat":
            n = r.get("n")
            if n is not None:
                return ("seq", Lin.const(n), frozenset())
            return self.default_noentry(st, dest_ty)
        return self.default_noentry(st, dest_ty)

    def binop(self, st, op, a, b, ty, r=None):
        base = op.replace("Unchecked", "")
        if a[0] == "int" and b[0] == "int":
            x, y = a[1], b[1]
            if base == "Add":
                return ("int", x.add(y))
            if base == "Sub":
                return ("int", x.sub(y))
            if base == "Mul":
                if y.is_const():
                    return ("int", x.scale(y.c))
                if x.is_const():
                    return ("int", y.scale(x.c))
                # interval product
                (xl, xh), (yl, yh) = st.store.interval(x), st.store.interval(y)
                s = self.newsym(st, "mul", 0 if (xl is not None and yl is not None and xl >= 0 and yl >= 0) else None,
                                (xh * yh) if (xh is not None and yh is not None and xl is not None and yl is not None and xl >= 0 and yl >= 0) else None)
                return ("int", Lin.sym(s))
            if base in ("Div", "Shr") and y.is_const() and (base == "Div" and y.c > 0 or base == "Shr" and 0 <= y.c < 64):
                d = y.c if base == "Div" else 2 ** y.c
                xl, xh = st.store.interval(x)
                if x.is_const() and x.c >= 0:
                    return ("int", Lin.const(x.c // d))
                if xl is not None and xl >= 0:
                    q = self.newsym(st, "div", 0, (xh // d) if xh is not None else None)
                    ql = Lin.sym(q)
                    st.store.add(ql.scale(d).sub(x))                  # d*q <= x
                    st.store.add(x.sub(ql.scale(d)).addc(-(d - 1)))   # x <= d*q + d-1
                    return ("int", ql)
                return ("int", Lin.sym(self.newsym(st, "div", None, None)))
            if base == "Rem" and y.is_const() and y.c > 0:
                return ("int", Lin.sym(self.newsym(st, "rem", 0, y.c - 1)))
            if base == "BitAnd":
                m = y if y.is_const() else (x if x.is_const() else None)
                o = x if y.is_const() else y
                if m is not None and m.c >= 0:
                    s = self.newsym(st, "and", 0, m.c)
                    ol, oh = st.store.interval(o)
                    if ol is not None and ol >= 0:
                        st.store.add(Lin.sym(s).sub(o))
                    self.band[s] = (o, m.c, oh)
                    return ("int", Lin.sym(s))
                return ("int", Lin.sym(self.newsym(st, "and", 0, None)))
            if base in ("BitOr", "BitXor", "Shl"):
                if x.is_const() and y.is_const():
                    v = {"BitOr": x.c | y.c, "BitXor": x.c ^ y.c, "Shl": x.c << y.c}[base]
                    return ("int", Lin.const(v))
                lo, hi = TYPE_RANGE.get(ty or "u64", (0, U64MAX))
                return ("int", Lin.sym(self.newsym(st, base.lower(), lo, hi)))
            if base in ("Lt", "Le", "Gt", "Ge", "Eq", "Ne"):
                d = x.sub(y)
                if base == "Lt":
                    return ("bool", ("le", d.addc(1)))
                if base == "Le":
                    return ("bool", ("le", d))
                if base == "Gt":
                    return ("bool", ("le", y.sub(x).addc(1)))
                if base == "Ge":
                    return ("bool", ("le", y.sub(x)))
                if base == "Eq":
                    return ("bool", ("eq", d))
                return ("bool", ("not", ("eq", d)))
            return self.default_noentry(st, ty) if ty else ("int", Lin.sym(self.newsym(st, "op", None, None)))
        if base in ("Lt", "Le", "Gt", "Ge", "Eq", "Ne", "Cmp"):
            if a[0] == "bool" and b[0] == "bool" and base in ("Eq", "Ne"):
                return ("bool", TOP)
            return ("bool", TOP)
        if a[0] == "bool" and b[0] == "bool" and base in ("BitAnd", "BitOr"):
            return ("bool", ("and" if base == "BitAnd" else "or", a[1], b[1]))
        if ty:
            return self.default_noentry(st, ty)
        return TOP

    # ------------------------------------------------------------------ assumptions
    def assume(self, st, cond, val=True):
        if st.bottom or cond is TOP or cond is None:
            return
        k = cond[0]
        if k == "const":
            if cond[1] != val:
                st.store.bottom = True
            return
        if k == "not":
            return self.assume(st, cond[1], not val)
        if k == "le":
            lin = cond[1]
            if val:
                st.store.add(lin)
            else:
                st.store.add(lin.scale(-1).addc(1))
            self._band_refine(st)
            return
        if k == "eq":
            if val:
                st.store.add_eq(cond[1])
                self._band_refine(st)
            return
        if k == "and":
            if val:
                self.assume(st, cond[1], True)
                self.assume(st, cond[2], True)
            return
        if k == "or":
            if not val:
                self.assume(st, cond[1], False)
                self.assume(st, cond[2], False)
            return
        if k == "onlytrue":
            if val:
                self.assume(st, cond[1], True)
            return
        if k == "onlyfalse":
            if not val:
                self.assume(st, cond[1], True)
            return
        if k == "bnd":
            # ("bnd", ident, lo, hi): every position in [lo, hi] of the string `ident` is a char boundary
            if val:
                add_cb(st, cond[1], cond[2], cond[3])
            return
        if k == "txt":
            if val:
                add_ct(st, cond[1], cond[2], cond[3])
            return
        if k == "tag":
            _k, key, fam, names = cond
            cur = st.env.get(key)
            if val:
                if len(names) == 1:
                    nm = next(iter(names))
                    if cur is not None and cur[0] == "opt":
                        if cur[1] is not None and cur[1] != nm:
                            st.store.bottom = True
                            return
                        st.env[key] = ("opt", nm, _payload_for(cur, nm), cur[3])
                        if nm in ("Some", "Ok", "Continue") and len(cur) > 4:
                            for l in cur[4]:
                                st.store.add(l)         # facts the producer attached to the positive variant
                    else:
                        st.env[key] = ("opt", nm, None, fam)
            else:
                if cur is not None and cur[0] == "opt" and cur[1] is not None and cur[1] in names:
                    st.store.bottom = True
                elif len(names) == 1 and fam in FAM_VARIANTS:
                    other = [v for v in FAM_VARIANTS[fam].values() if v not in names]
                    if len(other) == 1:
                        pay = _payload_for(cur, other[0]) if cur is not None and cur[0] == "opt" else None
                        st.env[key] = ("opt", other[0], pay, fam)
                        if other[0] in ("Some", "Ok", "Continue") and cur is not None and cur[0] == "opt" and len(cur) > 4:
                            for l in cur[4]:
                                st.store.add(l)
            return

    def _band_refine(self, st):
        """x & HIGHMASK == 0  =>  x <= lowmask"""
        for s, (o, mask, ohi) in list(self.band.items()):
            rng = st.store.ranges.get(s)
            if rng and rng[1] == 0 and ohi is not None:
                # mask must cover all bits above some m up to the operand's width
                width = ohi.bit_length()
                full = (1 << width) - 1
                low = full & ~mask
                if (mask | low) == full and (low & (low + 1)) == 0:     # low is 2^m-1
                    st.store.add(o.addc(-low))
            elif rng and rng[0] is not None and rng[0] == rng[1] and ohi is not None:
                pass

    # ------------------------------------------------------------------ sites
    def site(self, fn, bb, kind, what, cls="A"):
        k = (fn.name, bb, kind)
        s = self.sites.get(k)
        if s is None:
            s = Site(fn, bb, kind, what, cls)
            self.sites[k] = s
        return s

    def require(self, st, fn, bb, kind, what, lins, cls="A", extra_ok=None):
        """obligation: every lin in lins <= 0.  Records the verdict for this context."""
        s = self.site(fn, bb, kind, what, cls)
        if st.bottom:
            return
        s.seen += 1
        ok = True
        failed = None
        if extra_ok is False:
            ok = False
            failed = "precondition unknown"
        for l in lins:
            if l is None:
                ok = False
                failed = "operand not tracked"
                break
            if not st.store.entails(l):
                ok = False
                failed = "cannot prove %s <= 0" % (l,)
                break
        if not ok:
            if s.ok:
                s.fail_detail = "%s [context: %s]" % (failed, " > ".join(self.stack[-3:]))
            s.ok = False
            c = " > ".join(self.stack[-4:])
            if c not in s.ctxs and len(s.ctxs) < 8:
                s.ctxs.append(c)
        elif s.proof is None:
            s.proof = "; ".join("%s <= 0" % (l,) for l in lins)[:200]
        # continue under the assumption that the check passed
        for l in lins:
            if l is not None:
                st.store.add(l)


def _payload_for(cur, tag):
    """payload of an Option/Result value once its variant is known: a value whose tag was unknown carries the
    payload of the positive variant only (or an explicit ("either", positive, negative) pair)"""
    pay = cur[2]
    positive = tag in ("Ok", "Some", "Continue")
    if pay is not None and pay[0] == "either":
        return pay[1] if positive else pay[2]
    if cur[1] is None and not positive:
        return None
    return pay


CB_KEY = ("cb", 0, ())
CT_KEY = ("ct", 0, ())


def ct_facts(st):
    v = st.env.get(CT_KEY)
    return v[1] if v is not None and v[0] == "cts" else frozenset()


def add_ct(st, ident, pos, text):
    """the string `ident` contains `text` at byte position pos"""
    if ident is None or pos is None or not text:
        return
    st.env[CT_KEY] = ("cts", ct_facts(st) | frozenset([(ident, pos, text)]))


def text_at_start(st, seq):
    """texts known to start the str value seq (through a sub-slice taken at a known match position)"""
    out = []
    ident = seq_ident(seq)
    if ident is None:
        return out
    for (i, pos, text) in ct_facts(st):
        if i == ident and pos.is_const() and pos.c == 0:
            out.append(text)
        if ident[0] == "sub" and i == ident[1] and (pos == ident[2] or st.store.entails_eq(pos.sub(ident[2]))):
            out.append(text)
    return out


def seq_ident(v):
    return v[3] if isinstance(v, tuple) and len(v) > 3 and v[0] == "seq" else None


def cb_facts(st):
    v = st.env.get(CB_KEY)
    return v[1] if v is not None and v[0] == "cbs" else frozenset()


def add_cb(st, ident, lo, hi=None):
    """positions lo..=hi of the string identified by `ident` are char boundaries; a boundary of a sub-slice that
    starts at X is a boundary of the parent at X + position"""
    if ident is None or lo is None:
        return
    hi = lo if hi is None else hi
    facts = set(cb_facts(st))
    while True:
        facts.add((ident, lo, hi))
        if ident[0] == "sub":
            _tag, parent, start = ident
            ident, lo, hi = parent, start.add(lo), start.add(hi)
            continue
        break
    st.env[CB_KEY] = ("cbs", frozenset(facts))


def is_cb(st, seq, pos):
    """is `pos` provably a char boundary of the str value `seq`"""
    if pos is None:
        return False
    if "ascii" in seq[2]:
        return True
    if pos.is_const() and pos.c == 0:
        return True
    if st.store.entails_eq(pos.sub(seq[1])):
        return True
    ident = seq_ident(seq)
    if ident is None:
        return False
    for (i, lo, hi) in cb_facts(st):
        if i != ident:
            continue
        if lo == pos or hi == pos:
            return True
        if st.store.entails(lo.sub(pos)) and st.store.entails(pos.sub(hi)):
            return True
    return False


def _mentions(v, s):
    if not isinstance(v, tuple):
        return False
    for x in v:
        if isinstance(x, Lin):
            if s in x.syms():
                return True
        elif isinstance(x, tuple):
            if _mentions(x, s):
                return True
    return False


def key_str(key):
    f, r, p = key
    return "%s_%d%s" % ("" if f == 0 else "f%d:" % f, r, "".join("." + str(x) for x in p))
