"""E1 program model: functions, CFG, dominators, call graph over resolved callees."""
import collections


class Fn:
    def __init__(self, j):
        self.j = j
        self.name = j["name"]
        self.kind = j["kind"]
        self.file = j["file"]
        self.blocks = j["blocks"]
        self.locals = j["locals"]
        self.argc = j["argc"]
        self.is_closure = bool(j.get("closure"))
        self.parent = j.get("parent")
        self.exported = bool(j.get("exported"))
        self.vis = j.get("vis", "")
        self.impl_self = j.get("impl_self")
        self.impl_trait = j.get("impl_trait")
        self.params = j.get("params", [])
        self.ret = j.get("ret")
        self.line0 = j.get("bsp", j["sp"])["l0"]
        self.line1 = j.get("bsp", j["sp"])["l1"]
        self.n = len(self.blocks)
        self._succ = None
        self._pred = None
        self._dom = None
        self._pdom = None
        self._defs = None
        self._reach = None
        self.short = self.name.split("::")[-1] if not self.name.startswith("<") else self.name

    # ---------------------------------------------------------------- names
    def local_name(self, l):
        return self.locals[l].get("name") or ("_%d" % l)

    def local_ty(self, l):
        return self.locals[l]["ty"]

    def in_tests(self):
        return "::tests::" in self.name or self.name.startswith("tests::")

    # ---------------------------------------------------------------- CFG
    def term(self, bb):
        return self.blocks[bb]["term"]

    def stmts(self, bb):
        return self.blocks[bb]["stmts"]

    def term_succs(self, t, unwind=False):
        k = t["k"]
        out = []
        if k == "goto":
            out = [t["target"]]
        elif k == "switch":
            out = [b for _, b in t["branches"]] + [t["otherwise"]]
        elif k in ("call", "assert", "drop"):
            if t.get("target") is not None:
                out = [t["target"]]
            if unwind and t.get("unwind") is not None:
                out.append(t["unwind"])
        return out

    def succs(self, bb):
        if self._succ is None:
            self._succ = [list(dict.fromkeys(self.term_succs(b["term"]))) for b in self.blocks]
        return self._succ[bb]

    def preds(self, bb):
        if self._pred is None:
            p = [[] for _ in range(self.n)]
            for b in range(self.n):
                for s in self.succs(b):
                    p[s].append(b)
            self._pred = p
        return self._pred[bb]

    def reachable(self, start=0, removed_edges=(), removed_blocks=()):
        """Blocks reachable from `start` along normal edges, ignoring removed edges/blocks."""
        removed_edges = set(removed_edges)
        removed_blocks = set(removed_blocks)
        seen = set()
        if start in removed_blocks:
            return seen
        st = [start]
        seen.add(start)
        while st:
            b = st.pop()
            for s in self.succs(b):
                if s in seen or s in removed_blocks or (b, s) in removed_edges:
                    continue
                seen.add(s)
                st.append(s)
        return seen

    def live_blocks(self):
        if self._reach is None:
            self._reach = self.reachable(0)
        return self._reach

    def dominators(self):
        """idom-free representation: dom[b] = set of blocks dominating b (incl. b)."""
        if self._dom is not None:
            return self._dom
        live = sorted(self.live_blocks())
        allb = set(live)
        dom = {b: set(allb) for b in live}
        dom[0] = {0}
        changed = True
        order = self._rpo()
        while changed:
            changed = False
            for b in order:
                if b == 0:
                    continue
                ps = [p for p in self.preds(b) if p in allb]
                if not ps:
                    continue
                new = set.intersection(*(dom[p] for p in ps)) | {b}
                if new != dom[b]:
                    dom[b] = new
                    changed = True
        self._dom = dom
        return dom

    def _rpo(self):
        seen = set()
        order = []

        def dfs(b):
            stack = [(b, iter(self.succs(b)))]
            seen.add(b)
            while stack:
                node, it = stack[-1]
                adv = False
                for s in it:
                    if s not in seen:
                        seen.add(s)
                        stack.append((s, iter(self.succs(s))))
                        adv = True
                        break
                if not adv:
                    order.append(node)
                    stack.pop()
        dfs(0)
        order.reverse()
        return order

    def dominates(self, a, b):
        """block a dominates block b"""
        d = self.dominators()
        return b in d and a in d[b]

    def pos_dominates(self, pa, pb):
        """position (bb, idx) pa dominates position pb"""
        if pa[0] == pb[0]:
            return pa[1] <= pb[1]
        return self.dominates(pa[0], pb[0])

    def exits(self, kinds=("return",)):
        return [b for b in self.live_blocks() if self.term(b)["k"] in kinds]

    def postdominators(self):
        """pdom[b] = set of blocks post-dominating b w.r.t. `return` exits (panics/diverging
        calls are ignored: a block that cannot reach a return has pdom = all)."""
        if self._pdom is not None:
            return self._pdom
        live = sorted(self.live_blocks())
        allb = set(live)
        exits = set(self.exits())
        pd = {b: set(allb) for b in live}
        for e in exits:
            pd[e] = {e}
        changed = True
        while changed:
            changed = False
            for b in reversed(self._rpo()):
                if b in exits:
                    continue
                ss = [s for s in self.succs(b) if s in allb]
                if not ss:
                    continue
                new = set.intersection(*(pd[s] for s in ss)) | {b}
                if new != pd[b]:
                    pd[b] = new
                    changed = True
        self._pdom = pd
        return pd

    def back_edges(self):
        out = []
        for b in self.live_blocks():
            for s in self.succs(b):
                if self.dominates(s, b):
                    out.append((b, s))
        return out

    def loops(self):
        """natural loops: {head: set(blocks)}"""
        loops = {}
        for (b, h) in self.back_edges():
            body = loops.setdefault(h, {h})
            st = [b]
            while st:
                x = st.pop()
                if x in body:
                    continue
                body.add(x)
                st.extend(self.preds(x))
        return loops

    # ---------------------------------------------------------------- iteration helpers
    def calls(self):
        """yield (bb, term) for every call terminator in live blocks"""
        for b in sorted(self.live_blocks()):
            t = self.term(b)
            if t["k"] == "call":
                yield b, t

    def assigns(self):
        for b in sorted(self.live_blocks()):
            for i, s in enumerate(self.stmts(b)):
                if s["k"] == "assign":
                    yield b, i, s

    def term_line(self, bb):
        sp = self.term(bb).get("sp") or {}
        if sp.get("exp") and sp.get("xl0"):
            return sp["xl0"]
        return sp.get("l0", 0)

    def loc(self, bb=None, idx=None):
        if bb is None:
            return "%s:%d" % (self.file, self.j["sp"]["l0"])
        file = self.blocks[bb].get("file") or self.file      # blocks of an inlined helper keep their own file
        if idx is not None and idx < len(self.stmts(bb)):
            return "%s:%d" % (file, self.stmts(bb)[idx].get("line", 0))
        return "%s:%d" % (file, self.term_line(bb))

    # ---------------------------------------------------------------- defs of locals
    def defs(self):
        """local -> list of (bb, idx, kind, payload); idx == len(stmts) for a call terminator.
        kind in {'assign','partial','call','arg'}"""
        if self._defs is not None:
            return self._defs
        d = collections.defaultdict(list)
        for a in range(1, self.argc + 1):
            d[a].append((-1, -1, "arg", None))
        for b in sorted(self.live_blocks()):
            for i, s in enumerate(self.stmts(b)):
                if s["k"] == "assign":
                    p = s["p"]
                    if not p["proj"]:
                        d[p["l"]].append((b, i, "assign", s["r"]))
                    elif p["proj"][0][0] != "deref":
                        d[p["l"]].append((b, i, "partial", s))
                elif s["k"] == "setdiscr":
                    p = s["p"]
                    if not p["proj"] or p["proj"][0][0] != "deref":
                        d[p["l"]].append((b, i, "partial", s))
            t = self.term(b)
            if t["k"] == "call":
                p = t["dest"]
                if not p["proj"]:
                    d[p["l"]].append((b, len(self.stmts(b)), "call", t))
                elif p["proj"][0][0] != "deref":
                    d[p["l"]].append((b, len(self.stmts(b)), "partial", t))
        self._defs = d
        return d

    def reaching_defs(self, local, pos):
        """definitions of `local` that reach position pos=(bb, idx) (the value read at pos)."""
        alld = self.defs().get(local, [])
        if len(alld) <= 1:
            return list(alld)
        by_block = collections.defaultdict(list)
        for d in alld:
            by_block[d[0]].append(d)
        out = []
        bb, idx = pos
        # within the block, before idx
        cands = [d for d in by_block.get(bb, []) if d[1] < idx]
        if cands:
            return [max(cands, key=lambda d: d[1])]
        seen = set()
        st = list(self.preds(bb))
        has_entry = False
        while st:
            b = st.pop()
            if b in seen:
                continue
            seen.add(b)
            cs = by_block.get(b, [])
            if cs:
                out.append(max(cs, key=lambda d: d[1]))
                continue
            if b == 0:
                has_entry = True
            st.extend(self.preds(b))
        if bb == 0 and not self.preds(0):
            has_entry = True
        if (has_entry or (bb == 0)) and -1 in by_block:
            out.extend(by_block[-1])
        # dedupe
        res = []
        for d in out:
            if d not in res:
                res.append(d)
        return res


def callee_name(t):
    """best name for the invoked function of a call terminator"""
    if t.get("rkind") in ("item", "shim", "intrinsic") and t.get("resolved"):
        return t["resolved"]
    return t.get("callee") or "<indirect>"


_SG_CACHE = {}


def strip_generics(name):
    """remove ::<...> turbofish segments (balanced brackets, `->` aware) from an instance name"""
    r = _SG_CACHE.get(name)
    if r is not None:
        return r
    out = []
    i = 0
    n = len(name)
    while i < n:
        if name.startswith("::<", i):
            depth = 0
            j = i + 2
            while j < n:
                c = name[j]
                if c == "<":
                    depth += 1
                elif c == ">" and name[j - 1] != "-":
                    depth -= 1
                    if depth == 0:
                        break
                j += 1
            i = j + 1
            continue
        out.append(name[i])
        i += 1
    r = "".join(out)
    _SG_CACHE[name] = r
    return r


class Program:
    def __init__(self, facts):
        self.facts = facts
        self.fns = {}
        for j in facts["fns"]:
            f = Fn(j)
            self.fns[f.name] = f
        self.adts = {a["name"]: a for a in facts["adts"]}
        self.impls = facts["impls"]
        # trait -> method -> [impl def names]
        self.trait_impls = collections.defaultdict(lambda: collections.defaultdict(list))
        for im in self.impls:
            for m in im["methods"]:
                self.trait_impls[im["trait"]][m["name"]].append((im["self"], m["def"]))
        self._cg = None
        self._rcg = None
        self.closures_of = collections.defaultdict(list)
        for f in self.fns.values():
            if f.is_closure:
                # direct parent = name minus last ::{closure#n}
                par = f.name.rsplit("::{closure", 1)[0]
                self.closures_of[par].append(f.name)

    # ---------------------------------------------------------------- lookup
    def fn(self, name):
        f = self.fns.get(name)
        if f is None:
            raise KeyError("ANCHOR-MISSING: function %s" % name)
        return f

    def find(self, suffix, tests=False):
        """functions whose path ends with `suffix` (segment-aligned)"""
        out = []
        for n, f in self.fns.items():
            if not tests and f.in_tests():
                continue
            if n == suffix or n.endswith("::" + suffix):
                out.append(f)
        return out

    def one(self, suffix):
        r = self.find(suffix)
        if len(r) != 1:
            raise KeyError("ANCHOR-MISSING: expected exactly one function %s, found %d" % (suffix, len(r)))
        return r[0]

    def lib_fns(self):
        return [f for f in self.fns.values() if not f.in_tests()]

    def adt(self, name):
        a = self.adts.get(name)
        if a is None:
            raise KeyError("ANCHOR-MISSING: type %s" % name)
        return a

    def adt_fields(self, name, variant=0):
        return [f["name"] for f in self.adt(name)["variants"][variant]["fields"]]

    # ---------------------------------------------------------------- call targets
    def call_targets(self, t):
        """local function names a call terminator may invoke (fan-out for dyn / unresolved)."""
        rk = t.get("rkind")
        out = []
        if rk in ("item", "shim") and t.get("resolved"):
            r = t["resolved"]
            if r in self.fns:
                return [r]
            r2 = strip_generics(r)
            if r2 in self.fns:
                return [r2]
        callee = t.get("callee")
        if callee is None:
            return out
        if callee in self.fns and rk in ("item", "shim"):
            return [callee]
        if rk in ("virtual", "unresolved"):
            # trait method: Trait::method
            if "::" in callee:
                tr, m = callee.rsplit("::", 1)
                for (_self, d) in self.trait_impls.get(tr, {}).get(m, []):
                    if d in self.fns:
                        out.append(d)
                if callee in self.fns:  # provided (default) method body
                    out.append(callee)
        elif callee in self.fns:
            out.append(callee)
        return out

    def fmt_targets(self, t):
        """Debug/Display impls reached through fmt::Argument::new_debug::<T> etc."""
        out = []
        c = t.get("callee") or ""
        if "fmt::rt::Argument" in c and ("new_debug" in c or "new_display" in c):
            tr = "std::fmt::Debug" if "new_debug" in c else "std::fmt::Display"
            for g in t.get("gargs", []):
                g0 = g.lstrip("&").replace("mut ", "").strip()
                for (selfty, d) in self.trait_impls.get(tr, {}).get("fmt", []):
                    if selfty == g0 or g0.endswith(selfty):
                        out.append(d)
                    elif "dyn" in g0 or "Box<" in g0 or "Vec<" in g0 or "Option<" in g0 or "HashMap<" in g0 or "HashSet<" in g0:
                        # container / dyn: conservatively every local impl whose type is mentioned,
                        # and for dyn every local impl
                        if "dyn" in g0 or selfty in g0:
                            out.append(d)
        return out

    def callgraph(self):
        if self._cg is not None:
            return self._cg
        cg = {}
        for f in self.fns.values():
            outs = set()
            for b, t in f.calls():
                for x in self.call_targets(t):
                    outs.add(x)
                for x in self.fmt_targets(t):
                    outs.add(x)
            # closures are (conservatively) invoked by the function that creates them
            for c in self.closures_of.get(f.name, []):
                outs.add(c)
            cg[f.name] = outs
        self._cg = cg
        return cg

    def rev_callgraph(self):
        if self._rcg is None:
            r = collections.defaultdict(set)
            for a, bs in self.callgraph().items():
                for b in bs:
                    r[b].add(a)
            self._rcg = r
        return self._rcg

    def reachable_from(self, roots):
        cg = self.callgraph()
        seen = set()
        st = [r for r in roots]
        while st:
            x = st.pop()
            if x in seen:
                continue
            seen.add(x)
            st.extend(cg.get(x, ()))
        return seen

    def callers_of(self, name_pred):
        """yield (fn, bb, term) for every call whose callee name satisfies name_pred"""
        for f in self.lib_fns():
            for b, t in f.calls():
                if name_pred(callee_name(t), t):
                    yield f, b, t

    def call_sites_of(self, target):
        """call sites (fn, bb, term) that may invoke local function `target`"""
        out = []
        for f in self.lib_fns():
            for b, t in f.calls():
                if target in self.call_targets(t):
                    out.append((f, b, t))
        return out
