"""Thorough tier: the checker checks itself.  Every registered seeded change (a patch that breaks the property while
the crate still builds) is applied to a scratch copy of the CURRENT /repo tree, the property's rules are run on that
copy, and the run must report a violation; every registered behaviour-preserving change must stay silent.  Nothing is
executed; the scratch copy lives outside /repo and /verif and is deleted afterwards."""
import glob
import importlib
import json
import os, re
import shutil
import subprocess

from . import facts as factsmod
from .model import Program
from .flatten import flatten_program
from .report import Ctx, VERIF


MAX_VARIANTS = int(os.environ.get("VERIF_SELFTEST_MAX", "10"))


def _patches(prop):
    """seeded changes written for this property first, then the hand-made variants (breaking and equivalent), then
    changes seeded for other properties that this check also reports; at most MAX_VARIANTS"""
    own, other = [], []
    for d in sorted(glob.glob(os.path.join(VERIF, "seeded", "*"))):
        meta = os.path.join(d, "meta.json")
        if not os.path.exists(meta):
            continue
        m = json.load(open(meta))
        if prop in m.get("detected_by", []) and os.path.exists(os.path.join(d, "patch.diff")):
            (own if m.get("property") == prop else other).append((os.path.basename(d), os.path.join(d, "patch.diff"), "break"))
    hand = []
    for f in sorted(glob.glob(os.path.join(VERIF, "selftest", prop, "*.patch"))):
        kind = "equiv" if f.endswith(".equiv.patch") else "break"
        hand.append(("selftest/" + os.path.basename(f), f, kind))
    # keep at least the equivalent variants in the mix
    eq = [h for h in hand if h[2] == "equiv"]
    br = [h for h in hand if h[2] == "break"]
    # the latest seeded rounds first (they were written against the strongest version of the check), and never so many of
    # them that the equivalent variants drop out: a check must be shown to fire AND to stay silent
    def rnd(name):
        mm = re.search(r"-R(\d)[AB]$", name)
        return -(int(mm.group(1)) if mm else 1)
    own.sort(key=lambda x: (rnd(x[0]), x[0]))
    n_eq = min(len(eq), 4)
    first = own[:MAX_VARIANTS - n_eq] + eq[:n_eq]
    rest = [x for x in own + eq + br + other if x not in first]
    return (first + rest)[:MAX_VARIANTS]


def run_selftests(ctx, prop, limit=None):
    mod = importlib.import_module("mdnsverif.rules." + prop.lower())
    patches = _patches(prop)
    cap = getattr(mod, "SELFTEST_MAX", None)
    if cap:
        patches = patches[:cap]
    if limit:
        patches = patches[:limit]
    detected = total = 0
    for (name, path, kind) in patches:
        wd = factsmod.workdir()
        try:
            copy = os.path.join(wd, "repo")
            subprocess.run(["rsync", "-a", "--exclude", "target", "--exclude", ".git", factsmod.REPO + "/", copy + "/"], check=True)
            r = subprocess.run(["git", "apply", "--unsafe-paths", "--directory", copy, path], capture_output=True, text=True, cwd="/")
            if r.returncode != 0:
                r = subprocess.run(["patch", "-p1", "-s", "-d", copy, "-i", path], capture_output=True, text=True)
            if r.returncode != 0:
                ctx.ob("SELFTEST.skipped", name, True, "", "the seeded change no longer applies to the current tree (not counted)")
                continue
            sub = Ctx(prop, "selftest", 0)
            sub.config = "default"
            try:
                fj, meta = factsmod.extract("default", repo=copy)
                P = flatten_program(fj)
                P.repo = copy
                mod.run(sub, P)
                viol = [o for o in sub.obs if o["status"] == "violation"]
                pre = [o for o in viol if o["rule"].startswith("CHECKER-PRECONDITION")]
                msg = "; ".join(sorted({o["rule"] for o in viol}))[:200]
            except factsmod.FactsError as e:
                ctx.ob("SELFTEST.skipped", name, True, "", "the seeded variant does not build any more: %s" % str(e)[:120])
                continue
            total += 1
            if kind == "break":
                ok = bool(viol) and len(pre) < len(viol)
                detected += 1 if ok else 0
                ctx.ob("SELFTEST.detects-seeded-change", name, ok, "", ("reported: " + msg) if ok else "the seeded change was NOT reported: the checker is too weak here")
            else:
                ok = not viol
                detected += 1 if ok else 0
                ctx.ob("SELFTEST.silent-on-equivalent-change", name, ok, "", "silent" if ok else "false alarm on a behaviour-preserving change: " + msg)
        finally:
            shutil.rmtree(wd, ignore_errors=True)
    ctx.extra["selftest"] = {"variants": total, "as_expected": detected}
