"""E2 value origin: backward, flow-sensitive tracing of MIR operands to expression trees.

Expressions are nested tuples:
  ('const', value, ty, name)         value int/str/None; name = named constant path or None
  ('fn', path)                       function item
  ('closure', path, (captures...))
  ('param', n)                       n-th local (1-based) at function entry
  ('local', n, why)                  unresolved local
  ('phi', (alts...))                 several reaching definitions
  ('ref', e) ('deref', e)
  ('field', e, name, owner)          name may be an int for tuples
  ('downcast', e, variant)
  ('index', e, idx)
  ('call', callee, (args...), (fn, bb))
  ('binop', op, a, b) ('unop', op, a) ('cast', a, ty)
  ('agg', kind, adt, variant, (ops...))
  ('discr', e) ('len', e)
  ('payload', e, variant)            Ok/Some/Continue payload of e  (sugar for field 0 of downcast)
"""
from .model import callee_name, strip_generics

MAXDEPTH = 60


class Tracer:
    def __init__(self, prog, fn):
        self.prog = prog
        self.fn = fn
        self.memo = {}
        self.stack = set()

    # ------------------------------------------------------------------ operands / places
    def operand(self, o, pos, depth=0):
        k = o["k"]
        if k == "const":
            if "fn" in o:
                return ("fn", o["fn"])
            if "closure" in o:
                return ("closure", o["closure"], ())
            if "pinit" in o:
                pe = self._promoted(o["pinit"])
                if pe is not None:
                    return ("ref", pe)
            val = o.get("val")
            if val is None and "str" in o:
                val = o["str"]
            if val is None and "raw" in o:
                val = o["raw"]
            return ("const", val, o.get("ty"), o.get("uneval") if o.get("promoted") is None else None)
        if k in ("copy", "move"):
            return self.place(o["p"], pos, depth)
        return ("local", -1, "rtcheck")

    def _promoted(self, inits):
        """value of a promoted constant from its initialising assignments (no control flow)"""
        env = {it["l"]: it["r"] for it in inits}
        sub = _PromotedTracer(env)
        last = inits[-1]["l"]
        # the referent is usually local 1; prefer it when present
        root = 1 if 1 in env else last
        try:
            return sub.rvalue(env[root], (0, 0))
        except Exception:
            return None

    def place(self, p, pos, depth=0):
        e = self.local(p["l"], pos, depth)
        prev_variant = None
        for pe in p["proj"]:
            t = pe[0]
            if t == "deref":
                e = self._deref(e)
            elif t == "field":
                nm = pe[2] if pe[2] != "" else pe[1]
                if isinstance(nm, str) and nm.isdigit():
                    nm = int(nm)
                e = self._field(e, nm, pe[4])
            elif t == "downcast":
                e = ("downcast", e, pe[2])
            elif t == "index":
                e = ("index", e, self.local(pe[1], pos, depth))
            elif t == "constindex":
                e = ("index", e, ("const", pe[1] if not pe[3] else -pe[1], "usize", None))
            elif t == "subslice":
                e = ("subslice", e, pe[1], pe[2], pe[3])
            else:
                e = ("opaque", e)
        return e

    @staticmethod
    def _deref(e):
        if e[0] == "ref":
            return e[1]
        return ("deref", e)

    @staticmethod
    def _field(e, name, owner):
        # (checked a b).0 -> binop ; aggregate field -> operand
        if e[0] == "checked" and name == 0:
            return ("binop", e[1], e[2], e[3])
        if e[0] == "agg" and e[1] in ("tuple",) and isinstance(name, int) and name < len(e[4]):
            return e[4][name]
        if e[0] == "downcast" and name == 0 and e[2] in ("Ok", "Some", "Continue", "Err", "Break"):
            inner = e[1]
            if e[2] == "Continue" and inner[0] == "call" and inner[1].endswith("::branch"):
                return ("payload", inner[2][0], "Ok")
            if e[2] == "Break" and inner[0] == "call" and inner[1].endswith("::branch"):
                return ("payload", inner[2][0], "Err")
            return ("payload", inner, e[2])
        return ("field", e, name, owner)

    # ------------------------------------------------------------------ locals
    def local(self, l, pos, depth=0):
        if depth > MAXDEPTH:
            return ("local", l, "depth")
        defs = self.fn.reaching_defs(l, pos)
        if not defs:
            return ("local", l, "nodef")
        alts = []
        for d in defs:
            e = self._def_expr(l, d, depth)
            if e not in alts:
                alts.append(e)
        if len(alts) == 1:
            return alts[0]
        return ("phi", tuple(alts))

    def _def_expr(self, l, d, depth):
        key = (l, d[0], d[1])
        if key in self.memo:
            return self.memo[key]
        if key in self.stack:
            return ("local", l, "cyclic")
        self.stack.add(key)
        try:
            e = self._def_expr_inner(l, d, depth)
        finally:
            self.stack.discard(key)
        # do not memoise results that contain a 'cyclic' marker born from the current stack
        if not self.stack or not _has_cyclic(e):
            self.memo[key] = e
        return e

    def _def_expr_inner(self, l, d, depth):
        bb, idx, kind, payload = d
        pos = (bb, idx)
        if kind == "arg":
            return ("param", l)
        if kind == "partial":
            return ("local", l, "partial")
        if kind == "call":
            t = payload
            args = tuple(self.operand(a, pos, depth + 1) for a in t["args"])
            name = callee_name(t)
            if "box_assume_init_into_vec_unsafe" in name and args:
                v = self._vec_macro_elements(args[0], depth)
                if v is not None:
                    return v
            if t.get("callee") is None:
                fe = self.operand(t["func"], pos, depth + 1) if "func" in t else None
                return ("call", "<indirect>", (fe,) + args, (self.fn.name, bb))
            return ("call", name, args, (self.fn.name, bb))
        r = payload
        return self.rvalue(r, pos, depth + 1)

    def _vec_macro_elements(self, boxexpr, depth):
        """`vec![a, b]` lowers to Box::new_uninit() + a write of the array through a raw pointer +
        box_assume_init_into_vec_unsafe(box): recover the array elements."""
        uninit = [x for x in walk(boxexpr) if x[0] == "call" and "new_uninit" in x[1]]
        if not uninit:
            return None
        upos = uninit[0][3]
        for b, i, s in self.fn.assigns():
            p = s["p"]
            if not p["proj"] or p["proj"][0][0] != "deref":
                continue
            r = s["r"]
            if r["k"] not in ("aggregate", "repeat"):
                continue
            base = self.local(p["l"], (b, i), depth + 1)
            if any(x[0] == "call" and x[3] == upos for x in walk(base)):
                if r["k"] == "repeat":
                    return ("agg", "vec", None, None, (self.operand(r["a"], (b, i), depth + 1),))
                ops = tuple(self.operand(o, (b, i), depth + 1) for o in r["ops"])
                return ("agg", "vec", None, None, ops)
        return None

    def rvalue(self, r, pos, depth=0):
        k = r["k"]
        if k == "use":
            return self.operand(r["a"], pos, depth)
        if k in ("ref", "addrof"):
            e = self.place(r["p"], pos, depth)
            if e[0] == "deref":
                return e[1]        # &*x == x
            return ("ref", e)
        if k == "copyforderef":
            return self.place(r["p"], pos, depth)
        if k == "binop":
            return ("binop", r["op"], self.operand(r["a"], pos, depth), self.operand(r["b"], pos, depth))
        if k == "checked":
            return ("checked", r["op"], self.operand(r["a"], pos, depth), self.operand(r["b"], pos, depth))
        if k == "unop":
            a = self.operand(r["a"], pos, depth)
            if r["op"] == "PtrMetadata":
                return ("len", a)
            return ("unop", r["op"], a)
        if k == "cast":
            a = self.operand(r["a"], pos, depth)
            if r["ck"].startswith("PointerCoercion") or r["ck"] in ("PtrToPtr", "Transmute", "Subtype"):
                return ("coerce", a, r["ty"])
            return ("cast", a, r["ty"])
        if k == "aggregate":
            ops = tuple(self.operand(o, pos, depth) for o in r["ops"])
            ak = r["ak"]
            if ak == "closure":
                return ("closure", r["closure"], ops)
            return ("agg", ak, r.get("adt"), r.get("vname"), ops)
        if k == "discr":
            return ("discr", self.place(r["p"], pos, depth))
        if k == "len":
            return ("len", self.place(r["p"], pos, depth))
        if k == "repeat":
            return ("repeat", self.operand(r["a"], pos, depth), r.get("n"))
        return ("local", -1, "rvalue:" + k)


class _PromotedTracer(Tracer):
    def __init__(self, env):
        self.env = env
        self.memo = {}
        self.stack = set()
        self.fn = None
        self.prog = None

    def local(self, l, pos, depth=0):
        if depth > 20 or l not in self.env:
            return ("local", l, "promoted")
        return self.rvalue(self.env[l], pos, depth + 1)


def _has_cyclic(e):
    if not isinstance(e, tuple):
        return False
    if e and e[0] == "local" and len(e) > 2 and e[2] == "cyclic":
        return True
    return any(_has_cyclic(x) for x in e[1:] if isinstance(x, tuple))


# ----------------------------------------------------------------------------------------------
# generic expression utilities
# ----------------------------------------------------------------------------------------------
TRANSPARENT_CALLS = (
    "::deref", "::deref_mut", "::as_ref", "::as_mut", "::borrow", "::borrow_mut", "::clone", "::to_string",
    "::to_owned", "::as_str", "::as_slice", "::as_bytes", "::into", "::from", "::as_deref", "::cloned",
    "::copied", "::as_mut_str", "::into_boxed_str", "::into_string", "::as_mut_slice",
)


def short(name):
    """callee without generic args and without leading path of the trait impl"""
    return strip_generics(name)


def is_transparent_call(name):
    n = strip_generics(name)
    if n.startswith("<") and " as " in n:
        # <T as Trait>::method
        m = n.rsplit("::", 1)[-1]
        return ("::" + m) in TRANSPARENT_CALLS
    return any(n.endswith(s) for s in TRANSPARENT_CALLS)


def strip(e):
    """remove references, derefs, coercions, casts-free transparent calls; returns a set of
    alternatives (phi is split)."""
    out = set()
    st = [e]
    seen = set()
    while st:
        x = st.pop()
        if x in seen:
            continue
        seen.add(x)
        k = x[0]
        if k in ("ref", "deref", "coerce"):
            st.append(x[1])
        elif k == "phi":
            st.extend(x[1])
        elif k == "call" and is_transparent_call(x[1]) and x[2]:
            st.append(x[2][0])
        else:
            out.add(x)
    return out


def walk(e):
    """all sub-expressions (pre-order)"""
    st = [e]
    while st:
        x = st.pop()
        if not isinstance(x, tuple) or not x:
            continue
        yield x
        k = x[0]
        if k == "phi":
            st.extend(x[1])
        elif k == "call":
            st.extend(a for a in x[2] if a is not None)
        elif k in ("agg",):
            st.extend(x[4])
        elif k == "closure":
            st.extend(x[2])
        else:
            st.extend(y for y in x[1:] if isinstance(y, tuple))


def calls_in(e):
    return [x for x in walk(e) if x[0] == "call"]


def show(e, depth=0):
    """compact human-readable rendering"""
    if not isinstance(e, tuple):
        return repr(e)
    if depth > 8:
        return "…"
    k = e[0]
    d = depth + 1
    if k == "const":
        if e[3]:
            return "%s=%r" % (e[3].split("::")[-1], e[1])
        return repr(e[1]) if e[1] is not None else "const:%s" % e[2]
    if k == "fn":
        return "fn " + e[1]
    if k == "closure":
        return "closure " + e[1].split("::")[-1]
    if k == "param":
        return "arg%d" % e[1]
    if k == "local":
        return "_%d?%s" % (e[1], e[2] if len(e) > 2 else "")
    if k == "phi":
        return "φ(" + " | ".join(show(x, d) for x in e[1][:4]) + (" |…" if len(e[1]) > 4 else "") + ")"
    if k == "ref":
        return "&" + show(e[1], d)
    if k == "deref":
        return "*" + show(e[1], d)
    if k == "field":
        return "%s.%s" % (show(e[1], d), e[2])
    if k == "downcast":
        return "%s as %s" % (show(e[1], d), e[2])
    if k == "payload":
        return "%s(%s)!" % (e[2], show(e[1], d))
    if k == "index":
        return "%s[%s]" % (show(e[1], d), show(e[2], d))
    if k == "call":
        n = strip_generics(e[1])
        if n.startswith("<") and " as " in n:
            n = n.split(" as ")[0].lstrip("<").split("::")[-1] + "::" + n.rsplit("::", 1)[-1]
        else:
            n = "::".join(n.split("::")[-2:])
        return "%s(%s)" % (n, ", ".join(show(a, d) for a in e[2] if a is not None))
    if k in ("binop", "checked"):
        return "(%s %s %s)" % (show(e[2], d), e[1], show(e[3], d))
    if k == "unop":
        return "%s(%s)" % (e[1], show(e[2], d))
    if k == "cast":
        return "(%s as %s)" % (show(e[1], d), e[2])
    if k == "coerce":
        return show(e[1], d)
    if k == "agg":
        nm = (e[2] or e[1] or "").split("::")[-1]
        if e[3]:
            nm += "::" + e[3]
        return "%s{%s}" % (nm, ", ".join(show(a, d) for a in e[4]))
    if k in ("discr", "len"):
        return "%s(%s)" % (k, show(e[1], d))
    return k + "(" + ", ".join(show(x, d) if isinstance(x, tuple) else repr(x) for x in e[1:]) + ")"
