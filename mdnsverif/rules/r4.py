"""Rules added after seeded round 4 (ordinary-looking commits: a new early return or `continue` for a 'harmless' special
case, a skipped walk, a de-duplication keyed too coarsely, a helper generalised for a second caller).  Most of them are
must-pass-through rules: a piece of work that the property needs on every path, with the explicit list of edges that may
skip it.  As in r2.py every rule takes the rule prefix so the owning property's check reports it."""
from .lib import *
from ..origin import walk, strip


def _error_exit_blocks(f):
    """blocks that build the residual of a `?` (the error exits of the function)"""
    return {b for b, t in f.calls() if "from_residual" in cname(t)}


def _fn_or_closure_calls(P, fn, suffixes, depth=0):
    for b, t in fn.calls():
        if name_matches(strip_generics(cname(t)), *suffixes):
            return True
    if depth < 3:
        for c in P.closures_of.get(fn.name, []):
            if _fn_or_closure_calls(P, P.fns[c], suffixes, depth + 1):
                return True
    return False


def expr_or_closure_calls(P, e, *suffixes):
    for x in walk(e):
        if x[0] == "call" and name_matches(strip_generics(x[1]), *suffixes):
            return True
        if x[0] == "closure" and x[1] in P.fns and _fn_or_closure_calls(P, P.fns[x[1]], suffixes):
            return True
    return False


# ------------------------------------------------------------------------------------------------
def every_section_decoded(ctx, P, pre):
    """`the crate's own decoder reads the same content from those packets`: DnsIncoming::new reads the header and all four
    sections of every datagram it accepts — the only exits that skip a section reader are the error exits of `?`.  (A
    continuation packet of a truncated query has no question and all its content in the other sections.)"""
    f = P.one("DnsIncoming::new")
    readers = [(b, cname(t)) for b, t in f.calls() if name_matches(cname(t), "DnsIncoming::read_header", "DnsIncoming::read_questions", "DnsIncoming::read_answers",
                                                                   "DnsIncoming::read_authorities", "DnsIncoming::read_additional", "DnsIncoming::read_rr_records")]
    ctx.floor(pre + ".every-section-decoded", len(readers), 5, "section readers called by DnsIncoming::new")
    err = _error_exit_blocks(f)
    for b, n in readers:
        reach = f.reachable(0, removed_blocks=set([b]) | err)
        early = [f.loc(r) for r in reach if f.term(r)["k"] == "return"]
        ctx.ob(pre + ".every-section-decoded", "%s|%s" % (f.name, method(n)), not early, f.loc(b),
               "every successful return of DnsIncoming::new has passed %s" % method(n) if not early else
               "DnsIncoming::new can return Ok without %s (%s): records the encoder put into such a packet are not read back" % (method(n), early[:2]))


# ------------------------------------------------------------------------------------------------
def every_question_considered(ctx, P, pre):
    """handle_query looks at every question of every query that arrived on a known interface and socket: before the loop
    over the questions the only returns are the `None` arms of the socket / registry / interface lookups.  (A query with
    the TC bit, with known answers, with an odd id ... still has its questions answered.)"""
    f = P.one("Zeroconf::handle_query")
    sites = calls_to(f, "DnsOutgoing::add_answer_with_additionals")
    ctx.require(len(sites) >= 1, pre + ".anchor", f.name + "|add_answer_with_additionals", f.loc(), "%d call(s)" % len(sites))
    if not sites:
        return
    loops = f.loops()
    heads = [h for h, body in loops.items() if sites[0][0] in body]
    ctx.require(bool(heads), pre + ".anchor", f.name + "|question loop", f.loc(sites[0][0]), "the answers are added inside a loop")
    if not heads:
        return
    head = max(heads, key=lambda h: len(loops[h]))
    LOOKUPS = ("ipv4_sock", "ipv6_sock", "dns_registry_map", "my_intfs")
    allowed = guard_edges(P, f, lambda atom, outcome, bb: atom[0] == "variant" and outcome == frozenset(["None"]) and
                          any(expr_mentions_field(atom[1], fld, "Zeroconf") for fld in LOOKUPS))
    # ... or when there is no question at all (`msg.questions().is_empty()`): the loop would not run either
    allowed |= guard_edges(P, f, lambda atom, outcome, bb: atom[0] == "call" and method(strip_generics(atom[1])) == "is_empty" and outcome is True and
                           any((x[0] == "call" and name_matches(strip_generics(x[1]), "DnsIncoming::questions")) or
                               (x[0] == "field" and x[2] == "questions" and (x[3] or "").endswith("DnsIncoming")) for x in walk(atom)))
    reach = f.reachable(0, removed_blocks=[head], removed_edges=allowed)
    early = [f.loc(r) for r in reach if f.term(r)["k"] == "return"]
    ctx.ob(pre + ".every-question-considered", f.name, not early, f.loc(head),
           "before the loop over the questions handle_query returns only when the socket, registry or interface is unknown" if not early else
           "handle_query returns before it looked at the questions (%s) for a reason other than an unknown socket / registry / interface: "
           "matching records of such a query are never answered" % early[:2])


CASE_SENSITIVE_STR = ("ends_with", "starts_with", "contains", "strip_suffix", "strip_prefix", "eq", "ne", "find", "rfind")


def question_name_not_gated_by_case(ctx, P, pre):
    """`names are matched case-insensitively`: no byte-wise string test on the question's name decides whether the question
    is looked at at all (an edge that every answer site of the question loop has to pass)"""
    f = P.one("Zeroconf::handle_query")
    sites = [b for b, t in f.calls() if name_matches(cname(t), "DnsOutgoing::add_answer_with_additionals", "DnsOutgoing::add_answer", "DnsOutgoing::add_answer_of_service",
                                                     "DnsOutgoing::add_answer_at_time")]
    ctx.require(len(sites) >= 2, pre + ".anchor", f.name + "|answer sites", f.loc(), "%d answer site(s)" % len(sites))
    if len(sites) < 2:
        return

    def on_qname(e):
        named = any((x[0] == "call" and method(strip_generics(x[1])) == "entry_name") or (x[0] == "field" and x[2] == "name" and (x[3] or "").endswith("DnsEntry")) for x in walk(e))
        lowered = any(x[0] == "call" and method(strip_generics(x[1])) in ("to_lowercase", "to_ascii_lowercase", "eq_ignore_ascii_case") for x in walk(e))
        return named and not lowered

    def pred(atom, outcome, bb):
        for x in walk(atom):
            if x[0] == "call" and method(strip_generics(x[1])) in CASE_SENSITIVE_STR and any(on_qname(a) for a in x[2]):
                return True
        return False
    edges = guard_edges(P, f, pred)
    by_src = {}
    for (b, t) in edges:
        by_src.setdefault(b, set()).add((b, t))
    bad = []
    for b, es in sorted(by_src.items()):
        for e in sorted(es):
            if all(must_pass_edges(f, s, {e}) for s in sites):
                bad.append(f.loc(b))
    ctx.ob(pre + ".question-name-not-gated-by-case", f.name, not bad, f.loc(),
           "no byte-wise test on the question name stands in front of all the answer sites" if not bad else
           "a case-sensitive string test on the question name at %s decides whether the question is looked at at all: the same name in "
           "another case (`.LOCAL.`) gets no answer" % sorted(set(bad))[:2])


def additional_dedupe_compares_data(ctx, P, pre):
    """`PTR answers bring the SRV, TXT and address records as additionals`: add_additional_answer may leave a record out
    only when an identical record (rdata included: `matches` / `rrdata_match`) is already there — two addresses of one host
    share name, type and class"""
    f = P.one("DnsOutgoing::add_additional_answer")
    pushes = [b for b, t in f.calls() if name_matches(cname(t), "Vec::push") and recv_mentions(P, f, b, t, "additionals", "DnsOutgoing")]
    ctx.require(len(pushes) >= 1, pre + ".anchor", f.name + "|additionals.push", f.loc(), "%d push(es)" % len(pushes))
    if not pushes:
        return
    # can a return be reached without the push?  then the edges that lead there must carry a full-record comparison
    reach = f.reachable(0, removed_blocks=pushes)
    skips = any(f.term(r)["k"] == "return" for r in reach)
    ok = True
    detail = "the record is always added"
    if skips:
        full = guard_edges(P, f, lambda atom, outcome, bb: expr_or_closure_calls(P, atom, "matches", "rrdata_match", "DnsRecordExt::matches", "DnsRecordExt::rrdata_match"))
        reach2 = f.reachable(0, removed_blocks=pushes, removed_edges=full)
        ok = not any(f.term(r)["k"] == "return" for r in reach2)
        detail = ("a record is left out only behind a full-record comparison (matches / rrdata_match)" if ok else
                  "a record can be left out of the additional section without its data having been compared: the second address of a host "
                  "(same name, type and class) is dropped")
    ctx.ob(pre + ".additional-dedupe-compares-data", f.name, ok, f.loc(pushes[0]), detail)


# ------------------------------------------------------------------------------------------------
def followup_guard_goes_through_ptr(ctx, P, pre):
    """the `does an open browse still list this instance` test of exec_command_resolve goes from the browser's key to the
    instance through the cached PTR records: a subtype browse (`_sub._sub._ty`) lists instances whose names do not contain the
    subtype, so cutting the type out of the instance name never finds it"""
    f = P.one("Zeroconf::exec_command_resolve")
    q = calls_to(f, "Zeroconf::query_unresolved")
    if len(q) != 1:
        ctx.require(False, pre + ".anchor", f.name + "|query_unresolved", f.loc(), "%d call(s)" % len(q))
        return
    atoms = [a for (_e, a, _o) in guard_atoms(P, f) if expr_or_closure_mentions_field(P, a, "service_queriers", "Zeroconf")]
    if not atoms:
        ctx.ob(pre + ".followup-guard-goes-through-ptr", f.name, True, f.loc(), "no open-browse test in the handler (the reruns are purged on stop)")
        return
    bad = [a for a in atoms if not (expr_or_closure_calls(P, a, "DnsCache::all_ptr", "DnsCache::get_ptr") or expr_or_closure_mentions_field(P, a, "ptr", "DnsCache"))]
    ctx.ob(pre + ".followup-guard-goes-through-ptr", f.name, not bad, f.loc(),
           "the open-browse test reaches the instance through the cached PTR records" if not bad else
           "the open-browse test looks up service_queriers without the cached PTR records (the type is taken from the instance name): "
           "for a subtype browse no follow-up question is ever asked")


def resolved_event_per_listing(ctx, P, pre):
    """ServiceResolved is decided per (browsed type, instance): in resolve_updated_instances no test on a collection that the
    same pass fills stands between an updated, valid instance and the event — a type and its subtype list the same instance
    and each browser gets its own event"""
    f = P.one("Zeroconf::resolve_updated_instances")
    tr = tracer(P, f)
    filled = set()
    for b, t in f.calls():
        n = strip_generics(cname(t))
        if name_matches(n, "HashSet::insert", "HashMap::insert", "Vec::push", "BTreeSet::insert", "BTreeMap::insert"):
            for a in walk(tr.operand(t["args"][0], endpos(f, b))):
                if a[0] == "call" and method(strip_generics(a[1])) in ("new", "with_capacity", "default"):
                    filled.add(a[3])
    sends = [b for b, t in f.calls() if name_matches(cname(t), "service_daemon::call_service_listener")] or [em.bb for em in direct_sends(P, f)]
    ctx.require(bool(sends) and bool(filled), pre + ".anchor", f.name + "|send + pass-local sets", f.loc(), "%d send(s), %d local collection(s)" % (len(sends), len(filled)))
    if not sends or not filled:
        return
    memo = guard_edges(P, f, lambda atom, outcome, bb: any(x[0] == "call" and x[3] in filled for x in walk(atom)))
    loops = f.loops()
    bad = []
    for s in sends:
        heads = [h for h, body in loops.items() if s in body]
        if not heads:
            continue
        if memo and must_pass_edges(f, s, memo):
            bad.append(f.loc(s))
    ctx.ob(pre + ".resolved-event-per-listing", f.name, not bad, f.loc(sends[0]),
           "no per-pass memo stands between an updated instance and its ServiceResolved" if not bad else
           "the ServiceResolved at %s is sent only when a set filled earlier in the same pass does not hold the instance: of a type and a "
           "subtype browse that list the same instance only one gets the event" % bad[:2])


# ------------------------------------------------------------------------------------------------
def age_subtracted_once(ctx, P, pre):
    """`writes the remaining TTL` of a known answer: the age of the cached record is taken off exactly once.  A caller that
    has applied update_ttl(now) to its copy hands it to the packet with time 0 (write_record then writes the TTL as it
    is); handing it over with `now` again takes the age off twice."""
    n = 0
    for f in P.lib_fns():
        if f.in_tests() or f.is_closure:
            continue
        ups = [b for b, t in f.calls() if name_matches(cname(t), "DnsRecord::update_ttl")]
        if not ups:
            continue
        tr = tracer(P, f)
        for b, t in f.calls():
            cn = strip_generics(cname(t))
            if not name_matches(cn, "DnsOutgoing::add_answer_box", "DnsOutgoing::add_answer_at_time"):
                continue
            if not any(b in f.reachable(u) for u in ups):
                continue
            n += 1
            g = P.one(cn)
            times = _answer_time_exprs(P, g)
            ok = bool(times)
            for te in times:
                if te == ("const0",):
                    continue
                if te[0] == "param":
                    ae = tr.operand(t["args"][te[1] - 1], endpos(f, b))
                    if const_value(ae) != 0:
                        ok = False
                else:
                    ok = False
            ctx.ob(pre + ".age-subtracted-once", "%s|%s" % (f.name, method(cn)), ok, f.loc(b),
                   "the copy that had update_ttl applied is written with time 0" if ok else
                   "a record whose TTL was already reduced by update_ttl(now) is handed to the packet with a write time: write_record takes the "
                   "age off again and the known answer goes out with TTL - 2*age (below half: the responder answers again)")
    ctx.floor(pre + ".age-subtracted-once", n, 1, "known-answer copies handed to a packet after update_ttl")


def _answer_time_exprs(P, g):
    """what DnsOutgoing's adders put into the time slot of the (record, time) pairs they push on `answers`"""
    out = []
    tr = tracer(P, g)
    for b, t in g.calls():
        if name_matches(cname(t), "Vec::push") and recv_mentions(P, g, b, t, "answers", "DnsOutgoing"):
            e = tr.operand(t["args"][1], endpos(g, b))
            tup = [x for x in walk(e) if x[0] == "agg" and x[1] == "tuple"]
            te = None
            for x in tup:
                elems = x[-1] if isinstance(x[-1], tuple) else None
                if elems and len(elems) == 2:
                    te = elems[1]
                    break
            if te is None:
                out.append(("unknown",))
            elif const_value(te) == 0:
                out.append(("const0",))
            elif strip(te) and list(strip(te))[0][0] == "param":
                te = list(strip(te))[0]
                out.append(("param", te[1]))
            else:
                out.append(("other",))
    return out


# ------------------------------------------------------------------------------------------------
def every_string_skipped_whole(ctx, P, pre):
    """decode_txt walks the length-prefixed strings of a TXT record: every turn of its loop moves the cursor past the whole
    string (a variable-length advance), whatever was done with the string — a `continue` that skips the advance makes the
    next turn read payload bytes as a length"""
    f = P.one("service_info::decode_txt")
    loops = f.loops()
    ctx.require(len(loops) >= 1, pre + ".anchor", f.name + "|loop", f.loc(), "%d loop(s)" % len(loops))
    if not loops:
        return
    head = max(loops, key=lambda h: len(loops[h]))
    body = loops[head]
    # loop-carried cursor: a named local assigned in the body from `cursor + x`
    defs = {}
    for b in sorted(body):
        for i, s in enumerate(f.stmts(b)):
            if s["k"] == "assign" and not s["p"]["proj"]:
                defs.setdefault(s["p"]["l"], []).append((b, i, s["r"]))

    def add_of(r, depth=0):
        """(a_local, b_operand) when r is `a + b` possibly through the (value, overflow) pair of a checked add"""
        if r["k"] in ("checked", "binop") and r.get("op") == "Add":
            return r["a"], r["b"]
        if r["k"] == "use" and r["a"]["k"] in ("move", "copy") and depth < 2:
            p = r["a"]["p"]
            for (_b, _i, r2) in defs.get(p["l"], []):
                got = add_of(r2, depth + 1)
                if got:
                    return got
        return None
    cursors = {}
    for l, ds in defs.items():
        if not f.local_name(l):
            continue
        for (b, i, r) in ds:
            got = add_of(r)
            if got and got[0]["k"] in ("copy", "move") and got[0]["p"]["l"] == l and not got[0]["p"]["proj"]:
                cursors.setdefault(l, []).append((b, got[1]["k"] == "const"))
            elif r["k"] == "use" and r["a"]["k"] in ("copy", "move") and f.local_name(r["a"]["p"]["l"]):
                cursors.setdefault(l, []).append((b, False))      # cursor = other_local (e.g. offset = offset_end)
    strict = {l: v for l, v in cursors.items() if any(c for (_b, c) in v) or len(v) >= 2}
    # `offset = end` as the only write (the length byte is skipped in `start = offset + 1`): still the loop's cursor
    outside = {s_["p"]["l"] for b in range(f.n) if b not in body for s_ in f.stmts(b) if s_["k"] == "assign" and not s_["p"]["proj"]}
    cursors = strict or {l: v for l, v in cursors.items() if l in outside and any(not c for (_b, c) in v)}
    ctx.require(len(cursors) >= 1, pre + ".anchor", f.name + "|cursor", f.loc(head), "loop-carried cursor(s): %s" % sorted(f.local_name(l) for l in cursors))
    for l, v in sorted(cursors.items()):
        var = [b for (b, const) in v if not const]
        ok = bool(var) and loop_every_iteration_passes(f, head, body, var)
        ctx.ob(pre + ".every-string-skipped-whole", "%s|%s" % (f.name, f.local_name(l)), ok, f.loc(var[0]) if var else f.loc(head),
               "every turn of the loop moves `%s` past the whole string" % f.local_name(l) if ok else
               "a turn of the loop can go back to its head without moving `%s` past the string it has just read: the next turn takes a payload "
               "byte for a length and the rest of the record decodes to other keys and values" % f.local_name(l))


def first_occurrence_wins_everywhere(ctx, P, pre):
    """`when a key occurs twice only the first occurrence is kept` wherever the second one stands: the duplicate filter is not
    one of Vec's dedup* methods, which only look at neighbours"""
    f = P.one("service_info::decode_txt_unique")
    fs = [f] + [P.fns[c] for c in P.closures_of.get(f.name, [])]
    bad = [g.loc(b) for g in fs for b, t in g.calls() if name_matches(strip_generics(cname(t)), "Vec::dedup", "Vec::dedup_by", "Vec::dedup_by_key")]
    ctx.ob(pre + ".first-occurrence-wins-everywhere", f.name, not bad, f.loc(),
           "no neighbours-only de-duplication" if not bad else
           "duplicates are removed with Vec::dedup* (%s), which compares neighbours only: `a=1 b=2 A=3` keeps both a and A" % bad[:1])


# ------------------------------------------------------------------------------------------------
def auto_addr_follows_every_new_address(ctx, P, pre):
    """`with automatic addressing the service follows addresses as they appear`: in add_interface every addr_auto service gets
    the new address (insert_ipaddr) — the only edge that may skip it is `is_addr_auto() == false`"""
    f = P.one("Zeroconf::add_interface")
    ins = calls_to(f, "ServiceInfo::insert_ipaddr")
    ctx.require(len(ins) >= 1, pre + ".anchor", f.name + "|insert_ipaddr", f.loc(), "%d call(s)" % len(ins))
    if not ins:
        return
    ib = ins[0][0]
    loops = f.loops()
    heads = [h for h, body in loops.items() if ib in body]
    ctx.require(bool(heads), pre + ".anchor", f.name + "|service loop", f.loc(ib), "insert_ipaddr sits in the loop over my_services")
    if not heads:
        return
    head = min(heads, key=lambda h: len(loops[h]))
    body = loops[head]
    allowed = guard_edges(P, f, lambda atom, outcome, bb: atom[0] == "call" and name_matches(atom[1], "ServiceInfo::is_addr_auto") and outcome is False)
    reach = f.reachable(head, removed_blocks=[ib], removed_edges=allowed)
    backs = [b for b in f.preds(head) if b in body and f.dominates(head, b)]
    bad = [b for b in backs if b in reach]
    ctx.ob(pre + ".auto-addr-follows-every-new-address", f.name, not bad, f.loc(ib),
           "every addr_auto service of the loop gets the new address" if not bad else
           "a turn of the service loop can skip insert_ipaddr for an addr_auto service (status, earlier announcement ...): the service never "
           "publishes the address that appeared")


# ------------------------------------------------------------------------------------------------
# Dispatch skeleton: the same must-pass-through shape applied to the places every property goes through
def every_packet_dispatched(ctx, P, pre):
    """handle_read hands every datagram that arrived on a known interface with the family enabled to the decoder, and every
    decoded message to handle_query (QR = 0) or handle_response (QR = 1).  The edges that may drop a datagram are listed:
    unknown token, socket gone, recv error, unknown interface, family disabled on the interface, decode error, a message
    that is neither query nor response."""
    f = P.one("Zeroconf::handle_read")
    dec = calls_to(f, "DnsIncoming::new")
    hq = calls_to(f, "Zeroconf::handle_query")
    hr = calls_to(f, "Zeroconf::handle_response")
    ctx.require(len(dec) == 1 and len(hq) >= 1 and len(hr) >= 1, pre + ".anchor", f.name + "|decode + dispatch", f.loc(), "%d/%d/%d" % (len(dec), len(hq), len(hr)))
    if len(dec) != 1 or not hq or not hr:
        return
    db = dec[0][0]
    tr = tracer(P, f)

    def drop_ok(atom, outcome, bb):
        if atom[0] == "variant" and outcome == frozenset(["None"]) and any(expr_mentions_field(atom[1], fld, "Zeroconf") for fld in ("ipv4_sock", "ipv6_sock", "my_intfs")):
            return True
        if atom[0] == "variant" and outcome == frozenset(["Err"]) and any(x[0] == "call" and method(strip_generics(x[1])) in ("recv", "recv_from", "recvmsg") for x in walk(atom[1])):
            return True
        if any(x[0] == "call" and method(strip_generics(x[1])) in ("next_ifaddr_v4", "next_ifaddr_v6") for x in walk(atom)):
            return True
        return False
    allowed = guard_edges(P, f, drop_ok)
    # the event-key switch: its default arm (neither socket token) may return
    for b in sorted(f.live_blocks()):
        t = f.term(b)
        if t["k"] == "switch":
            d = tr.operand(t["d"], endpos(f, b)) if "d" in t else None
            if d is not None and any(x == ("param", 2) for x in strip(d)):
                for (tgt, atom, outcome) in switch_edges(P, f, b):
                    if isinstance(outcome, tuple) and outcome and outcome[0] == "not":
                        allowed.add((b, tgt))
    # an allowed edge is one that gives the datagram up: from its target the decoder is out of reach
    allowed = {(b, t_) for (b, t_) in allowed if db not in f.reachable(t_)}
    reach = f.reachable(0, removed_blocks=[db], removed_edges=allowed)
    early = [f.loc(r) for r in reach if f.term(r)["k"] == "return"]
    ok1 = not early and db in f.reachable(0, removed_edges=allowed)
    ctx.ob(pre + ".every-datagram-decoded", f.name, ok1, f.loc(db),
           "a datagram is dropped before decoding only for a listed reason (socket / recv error / unknown interface / family disabled)" if ok1 else
           "handle_read can return before decoding (%s) for a reason other than socket gone / recv error / unknown interface / family disabled: "
           "such datagrams are never answered or cached" % early[:2])
    e_ok = guard_edges(P, f, lambda atom, outcome, bb: atom[0] == "variant" and outcome == frozenset(["Ok"]) and any(x[0] == "call" and x[3] == (f.name, db) for x in walk(atom[1])))
    skip = guard_edges(P, f, lambda atom, outcome, bb: atom[0] == "call" and name_matches(strip_generics(atom[1]), "DnsIncoming::is_response") and outcome is False)
    bad = []
    for (b, tgt) in sorted(e_ok):
        reach = f.reachable(tgt, removed_blocks=[x[0] for x in hq] + [x[0] for x in hr], removed_edges=skip)
        if any(f.term(r)["k"] == "return" for r in reach):
            bad.append(f.loc(b))
    ctx.ob(pre + ".every-message-dispatched", f.name, bool(e_ok) and not bad, f.loc(hq[0][0]),
           "every decoded message goes to handle_query or handle_response (or is neither)" if (e_ok and not bad) else
           "a decoded message can be dropped without reaching handle_query / handle_response")
    # and the query arm really is the query arm
    e_q = guard_edges(P, f, lambda atom, outcome, bb: atom[0] == "call" and name_matches(strip_generics(atom[1]), "DnsIncoming::is_query") and outcome is True)
    e_r = guard_edges(P, f, lambda atom, outcome, bb: atom[0] == "call" and name_matches(strip_generics(atom[1]), "DnsIncoming::is_response") and outcome is True)
    ok3 = all(must_pass_edges(f, b, e_q) for b, _t in hq) and all(must_pass_edges(f, b, e_r | edges_complement(P, f, e_q)) for b, _t in hr)
    # ... and a query always gets there: nothing between is_query() == true and handle_query
    for (b, tgt) in sorted(e_q):
        if tgt not in [x[0] for x in hq] and any(f.term(r)["k"] == "return" for r in f.reachable(tgt, removed_blocks=[x[0] for x in hq])):
            ok3 = False
    ctx.ob(pre + ".dispatch-by-qr-bit", f.name, ok3, f.loc(hq[0][0]), "handle_query under is_query(), handle_response otherwise")


def response_tail_always_runs(ctx, P, pre, want=("resolve", "addresses")):
    """after the caching loop handle_response always (a) reports the address changes to the hostname resolvers and (b) hands
    the updated instances to resolve_updated_instances; only an `is_empty()` test on a local collection may skip them"""
    f = P.one("Zeroconf::handle_response")
    calls = calls_to(f, "DnsCache::add_or_update")
    if not calls:
        ctx.require(False, pre + ".anchor", f.name + "|add_or_update", f.loc(), "0 calls")
        return
    head = lift_to_inner_loop(f, calls[0][0])
    def empties(*fields):
        return guard_edges(P, f, lambda atom, outcome, bb: atom[0] == "call" and method(strip_generics(atom[1])) == "is_empty" and outcome is True and
                           (not any(x[0] == "field" and (x[3] or "").endswith("Zeroconf") for x in walk(atom)) or
                            any(expr_mentions_field(atom, fld, "Zeroconf") for fld in fields)))
    loops = f.loops()
    skip = empties("service_queriers")      # nothing to resolve for when nobody browses
    if "resolve" in want:
        rs = calls_to(f, "Zeroconf::resolve_updated_instances")
        ok = len(rs) >= 1
        if ok:
            reach = f.reachable(head, removed_blocks=[b for b, _t in rs], removed_edges=skip)
            ok = not any(f.term(r)["k"] == "return" for r in reach)
        ctx.ob(pre + ".updates-always-resolved", f.name, ok, f.loc(rs[0][0]) if rs else f.loc(),
               "every path from the caching loop to the end of handle_response calls resolve_updated_instances" if ok else
               "handle_response can end after the caching loop without resolve_updated_instances: records that completed an instance are cached "
               "but no ServiceResolved follows")
    skip = empties("hostname_resolvers")
    if "addresses" in want:
        hs = [b for b, t in f.calls() if name_matches(cname(t), "service_daemon::call_hostname_resolution_listener")]
        ok = len(hs) >= 1
        if ok:
            hh = [h for h, body in loops.items() if hs[0] in body and head not in body]
            ok = bool(hh)
            if ok:
                outer = max(hh, key=lambda h: len(loops[h]))
                reach = f.reachable(head, removed_blocks=[outer], removed_edges=skip)
                ok = not any(f.term(r)["k"] == "return" for r in reach)
        ctx.ob(pre + ".address-changes-always-reported", f.name, ok, f.loc(hs[0]) if hs else f.loc(),
               "every path from the caching loop to the end of handle_response walks the address changes for the hostname resolvers" if ok else
               "handle_response can end after the caching loop without the walk that reports new addresses to the hostname resolvers")


def collected_answers_are_sent(ctx, P, pre):
    """what the question loop of handle_query collected is sent: after the loop the only way around send_dns_outgoing is
    `answers_count() == 0`"""
    f = P.one("Zeroconf::handle_query")
    sites = calls_to(f, "DnsOutgoing::add_answer_with_additionals")
    snd = calls_to(f, "service_daemon::send_dns_outgoing")
    ctx.require(len(sites) >= 1 and len(snd) >= 1, pre + ".anchor", f.name + "|collect + send", f.loc(), "%d/%d" % (len(sites), len(snd)))
    if not sites or not snd:
        return
    loops = f.loops()
    heads = [h for h, body in loops.items() if sites[0][0] in body]
    head = max(heads, key=lambda h: len(loops[h]))

    def empty(atom, outcome, bb):
        if not any(x[0] == "call" and name_matches(strip_generics(x[1]), "DnsOutgoing::answers_count") for x in walk(atom)):
            return False
        if atom[0] == "binop" and atom[1] == "Gt" and const_value(atom[3]) == 0 and outcome is False:
            return True
        if atom[0] == "binop" and atom[1] == "Eq" and const_value(atom[3]) == 0 and outcome is True:
            return True
        return False
    skip = guard_edges(P, f, empty)
    # leave the loop (successors of the head outside its body), then look for a return around the send
    outs = sorted({s_ for b in loops[head] for s_ in f.succs(b) if s_ not in loops[head]})
    bad = []
    for o in outs:
        reach = f.reachable(o, removed_blocks=[b for b, _t in snd], removed_edges=skip)
        if any(f.term(r)["k"] == "return" for r in reach):
            bad.append(f.loc(o))
    ctx.ob(pre + ".collected-answers-are-sent", f.name, bool(outs) and bool(skip) and not bad, f.loc(snd[0][0]),
           "after the question loop only answers_count() == 0 goes around send_dns_outgoing" if (outs and skip and not bad) else
           "after the question loop handle_query can return without sending what it collected, for a reason other than an empty answer section")


def probes_driven_every_iteration(ctx, P, pre):
    """probing is time-driven: every turn of the run loop calls probing_handler (which sends the probes that are due, moves
    finished probes to active and announces)"""
    run = P.one("Zeroconf::run")
    loops = run.loops()
    main = max(loops, key=lambda h: len(loops[h]))
    cs = calls_to(run, "Zeroconf::probing_handler")
    ok = len(cs) >= 1 and loop_every_iteration_passes(run, main, loops[main], [b for b, _t in cs])
    ctx.ob(pre + ".probes-driven-every-iteration", run.name, ok, run.loc(cs[0][0]) if cs else run.loc(),
           "every iteration of the run loop calls probing_handler" if ok else
           "an iteration of the run loop can skip probing_handler: probes that are due wait for the next wake-up")


# ------------------------------------------------------------------------------------------------
# Rules added after seeded round 5 (feature interactions: what one command stores and another looks up)
def resolve_purge_clears_pending(ctx, P, pre):
    """`pending_resolves` and the queued Command::Resolve reruns are two halves of one piece of bookkeeping: the rerun is the only
    thing that ever takes an unresolved instance out of the set, and add_pending_resolve starts no chain while the entry is
    there.  So a function that can purge Resolve reruns from the queue also edits pending_resolves — otherwise the instance
    is never asked about again (browse, stop, browse)."""
    from .f9 import purge_info
    n = 0
    for f in P.lib_fns():
        if f.in_tests() or f.is_closure:
            continue
        try:
            info = purge_info(P, f)
        except Exception:
            continue
        hit = [b for (b, vs) in info["removes"] if "Resolve" in vs]
        if not hit:
            continue
        n += 1
        edits = [b for b, t in f.calls() if name_matches(cname(t), "HashSet::remove", "HashSet::clear", "HashSet::retain", "HashSet::take", "HashSet::drain")
                 and recv_mentions(P, f, b, t, "pending_resolves", "Zeroconf")]
        edits += [b for c in P.closures_of.get(f.name, []) for b, t in P.fns[c].calls() if name_matches(cname(t), "HashSet::remove") and
                  fn_mentions_field(P, P.fns[c], "Zeroconf", "pending_resolves")]
        ctx.ob(pre + ".resolve-purge-clears-pending", f.name, bool(edits), f.loc(hit[0]),
               "the function that purges Resolve reruns also takes the instances out of pending_resolves" if edits else
               "Resolve reruns are purged here but their instances stay in pending_resolves: add_pending_resolve will never start another chain "
               "for them, so after browse / stop / browse the instance stays unresolved")
    ctx.ob(pre + ".resolve-purge-clears-pending", "(functions purging Resolve reruns: %d)" % n, True, "", "checked %d function(s)" % n)


def resend_is_keyed_like_my_services(ctx, P, pre):
    """Command::RegisterResend(name, if_index) is looked up in my_services, whose keys are the names as registered: the name put
    into the command is ServiceInfo::get_fullname(), never the conflict-resolved name (resolve_name), or the second
    announcement of a renamed service is silently skipped"""
    n = 0
    for f, b, i, s in all_aggregates(P, "service_daemon::Command", "RegisterResend"):
        if f.in_tests():
            continue
        tr = tracer(P, f)
        e = tr.rvalue(s["r"], (b, i))
        name_e = e[4][0] if len(e) > 4 and e[4] else e
        bad = any(x[0] == "call" and name_matches(strip_generics(x[1]), "DnsRegistry::resolve_name") for x in walk(name_e)) or \
            any(x[0] == "field" and x[2] == "name_changes" for x in walk(name_e))
        n += 1
        ctx.ob(pre + ".resend-keyed-like-my_services", "%s|RegisterResend#%d" % (f.name, n), not bad, f.loc(b, i),
               "the name in RegisterResend is the registered name" if not bad else
               "RegisterResend carries the conflict-resolved name, but exec_command_register_resend looks the service up under the registered "
               "name: a renamed service is announced once only")
    ctx.floor(pre + ".resend-keyed-like-my_services", n, 2, "constructions of Command::RegisterResend")


def shared_host_rename_outlives_one_service(ctx, P, pre):
    """the rename of a host name (name_changes[host]) belongs to every service registered on that host: it is removed only
    behind a scan of my_services that shows no other service uses the host (today: never removed)"""
    n = 0
    for f in P.lib_fns():
        if f.in_tests() or f.is_closure:
            continue
        tr = None
        for b, t in f.calls():
            if not (name_matches(cname(t), "HashMap::remove", "HashMap::remove_entry") and recv_mentions(P, f, b, t, "name_changes", "DnsRegistry")):
                continue
            tr = tr or tracer(P, f)
            k = tr.operand(t["args"][1], endpos(f, b))
            if not any(x[0] == "call" and name_matches(strip_generics(x[1]), "ServiceInfo::get_hostname") for x in walk(k)):
                continue
            n += 1
            scan = guard_edges(P, f, lambda atom, outcome, bb: expr_or_closure_mentions_field(P, atom, "my_services", "Zeroconf") and
                               any(x[0] == "call" and method(strip_generics(x[1])) in ("values", "iter", "any", "all", "find", "filter", "count") for x in walk(atom)) and
                               not any(x[0] == "call" and method(strip_generics(x[1])) in ("remove", "remove_entry") for x in walk(atom)))
            ok = bool(scan) and must_pass_edges(f, b, scan)
            ctx.ob(pre + ".shared-host-rename-outlives-one-service", "%s|name_changes.remove(hostname)#%d" % (f.name, n), ok, f.loc(b),
                   "the host's rename is removed only after a look at the other services" if ok else
                   "the rename of the host name is removed with one service although other services may still be announced on that host: their "
                   "SRV target and addresses fall back to the name the host lost")
    ctx.ob(pre + ".shared-host-rename-outlives-one-service", "(removals keyed by a host name: %d)" % n, True, "", "checked %d removal(s)" % n)


def cached_names_updated_whatever_is_for_us(ctx, P, pre):
    """`is_for_us == false` keeps add_or_update from creating an entry for a name nobody asked about; for a name that IS cached
    (shared host of a browsed and an un-browsed service, records kept from an earlier accept_unsolicited) the goodbye, the
    cache-flush and the TTL refresh still apply.  So the not-for-us return is taken only behind a look at the existing
    records of that name."""
    f = P.one("DnsCache::add_or_update")
    idx = param_index(f, "is_for_us", "bool")
    ctx.require(idx is not None, pre + ".anchor", f.name + "|bool parameter", f.loc(), "is_for_us parameter found")
    if idx is None:
        return
    e_false = guard_edges(P, f, lambda atom, outcome, bb: atom == ("param", idx) and outcome is False)
    MAPS = ("ptr", "srv", "txt", "addr", "nsec")

    def looks_at_existing(atom, outcome, bb):
        return any(x[0] == "call" and method(strip_generics(x[1])) in ("get", "contains_key", "get_mut") and
                   any(expr_mentions_field(a, m, "DnsCache") for a in x[2] for m in MAPS) for x in walk(atom))
    e_exist = guard_edges(P, f, looks_at_existing)
    creators = [b for b, t in f.calls() if method(cname(t)) in ("entry", "insert") and any(recv_mentions(P, f, b, t, m, "DnsCache") for m in MAPS)]
    bad = []
    reach = f.reachable(0, removed_blocks=creators, removed_edges=e_exist)
    for (b, t) in sorted(e_false):
        gives_up = not any(c in f.reachable(t) for c in creators)        # from here the record is not stored or refreshed any more
        if gives_up and b in reach:
            bad.append(f.loc(b))
    ctx.ob(pre + ".cached-names-updated-whatever-is-for-us", f.name, bool(e_false) and not bad, f.loc(),
           "the not-for-us return of add_or_update sits behind a look at the records already cached for the name" if (e_false and not bad) else
           "add_or_update returns for `is_for_us == false` without looking at what is cached for the name (%s): a goodbye or cache-flush for a "
           "cached name that arrives in a packet led by foreign records is ignored" % bad[:2])


def verify_disputes_unique_records_only(ctx, P, pre):
    """verify() shortens the life of the instance's SRV and its host's addresses and asks for them again.  It does not put
    the PTR in dispute: a PTR is a shared record, the query that follows lists it as a known answer while it is in the first
    half of its TTL, the responder then rightly stays silent about it, and the shortened PTR would run out although the
    responder answered."""
    f = P.one("DnsCache::service_verify_queries")
    fs = [f] + [P.fns[c] for c in P.closures_of.get(f.name, [])]
    n = 0
    bad = []
    for g in fs:
        tr = tracer(P, g)
        for b, t in g.calls():
            if name_matches(cname(t), "DnsRecord::set_expire_sooner", "DnsRecord::set_expire", "DnsRecordExt::set_expire_sooner", "DnsRecordExt::set_expire"):
                n += 1
                e = tr.operand(t["args"][0], endpos(g, b))
                if expr_mentions_field(e, "ptr", "DnsCache"):
                    bad.append(g.loc(b))
    ctx.ob(pre + ".verify-disputes-unique-records-only", f.name, n >= 1 and not bad, f.loc(),
           "verify shortens %d record site(s), none of them a PTR" % n if (n and not bad) else
           "verify shortens the expiry of PTR records (%s): known-answer suppression keeps a live responder from re-confirming a young PTR, "
           "and ServiceRemoved is reported for an instance that answered" % bad[:1])


def goodbye_repeat_never_cancelled(ctx, P, pre):
    """`repeats the same packet once about 120 ms later`: Command::UnregisterResend carries no service name, so nobody can
    cancel 'the repeat of service X' — any purge that can drop UnregisterResend reruns drops those of other services too.
    Only a purge of everything (shutdown) may."""
    from .f9 import purge_info
    bad = []
    n = 0
    for f in P.lib_fns():
        if f.in_tests() or f.is_closure:
            continue
        try:
            info = purge_info(P, f)
        except Exception:
            continue
        for (b, vs) in info["removes"]:
            n += 1
            if "UnregisterResend" in vs:
                bad.append("%s @%s" % (f.name.split("::")[-1], f.loc(b)))
    ctx.ob(pre + ".goodbye-repeat-never-cancelled", "Zeroconf.retransmissions", not bad, "",
           "%d purge site(s) of the rerun queue, none names UnregisterResend" % n if not bad else
           "a purge of the rerun queue drops UnregisterResend reruns (%s): they carry no service name, so the goodbye repeat of every other "
           "service unregistered in the last 120 ms is lost too" % bad[:2])


def removals_before_additions_on_ip_change(ctx, P, pre):
    """check_ip_changes first removes what vanished (del_interface_addr / del_ip) and then adds what appeared
    (apply_intf_selections): an address that moved from one interface to another is then removed from the services and
    added again; the other order adds it (a no-op, it is still there) and then removes it for good."""
    f = P.one("Zeroconf::check_ip_changes")
    adds = calls_to(f, "Zeroconf::apply_intf_selections")
    dels = calls_to(f, "Zeroconf::del_ip", "Zeroconf::del_interface_addr")
    ctx.require(len(adds) >= 1 and len(dels) >= 1, pre + ".anchor", f.name + "|add + delete steps", f.loc(), "%d/%d" % (len(adds), len(dels)))
    if not adds or not dels:
        return
    bad = [f.loc(a) for a, _t in adds if any(d in f.reachable(a) for d, _t2 in dels)]
    ctx.ob(pre + ".removals-before-additions", f.name, not bad, f.loc(adds[0][0]),
           "no removal of a vanished address can follow apply_intf_selections" if not bad else
           "apply_intf_selections (%s) runs before the removal of vanished addresses: an address that moved to another interface is dropped from "
           "the addr_auto services and never re-added" % bad[:1])


def decoded_names_are_verbatim(ctx, P, pre):
    """`never produces a name longer than the datagram could encode`: the decoder hands names on as they were read; a
    length-changing transformation (Unicode to_lowercase / to_uppercase / replace) inside the decoder can grow a legal
    63-byte label beyond what the encoder (and the peer) accepts"""
    root = P.one("DnsIncoming::new")
    scope = P.reachable_from([root.name])
    bad = []
    n = 0
    for name in sorted(scope):
        g = P.fns.get(name)
        if g is None or g.in_tests() or is_derived_impl(g) or " as std::fmt::" in g.name:
            continue
        n += 1
        for b, t in g.calls():
            if method(strip_generics(cname(t))) in ("to_lowercase", "to_uppercase", "replace", "replacen") and "str" in cname(t):
                bad.append("%s @%s" % (g.name.split("::")[-1], g.loc(b)))
    ctx.ob(pre + ".decoded-names-are-verbatim", root.name, n >= 10 and not bad, root.loc(),
           "%d decoder functions, none applies a length-changing string transformation" % n if (n >= 10 and not bad) else
           "the decoder transforms what it read with a length-changing string function (%s): U+0130 lower-cases from 2 to 3 bytes, so a legal "
           "63-byte label becomes 64 bytes" % bad[:2])


def exact_host_compare_gets_exact_names(ctx, P, pre):
    """DnsCache keys its address map by the lower-cased host name but compares SRV targets as received.  A function that
    compares its &str parameter with DnsSrv::host() by plain `==` must therefore be given a name as received, never an item
    of a collection that was filled with lower-cased names (a host with a capital letter would never match)."""
    exact = {}
    for g in P.lib_fns():
        if g.in_tests():
            continue
        owner = g
        # the comparison may sit in a closure of the function
        for h in [g] + [P.fns[c] for c in P.closures_of.get(g.name, [])]:
            for (_e, atom, _o) in guard_atoms(P, h):
                if atom[0] == "call" and method(strip_generics(atom[1])) in ("eq", "ne") and len(atom[2]) == 2:
                    sides = atom[2]
                    for i in (0, 1):
                        a, b_ = sides[i], sides[1 - i]
                        if any(x[0] == "call" and name_matches(strip_generics(x[1]), "DnsSrv::host") for x in walk(a)) and not is_lowercased(a):
                            # the other side: a parameter of g (directly, or captured by the closure)
                            ps = [x for x in walk(b_) if x[0] == "param"]
                            if ps and not is_lowercased(b_) and not any(x[0] == "call" and method(strip_generics(x[1])) in ("to_lowercase", "to_ascii_lowercase") for x in walk(b_)):
                                exact.setdefault(owner.name, owner)
    n = 0
    bad = []
    for name, g in sorted(exact.items()):
        if g.is_closure:
            continue
        for f in P.lib_fns():
            if f.in_tests():
                continue
            tr = None
            for b, t in f.calls():
                if strip_generics(cname(t)) != name and not name_matches(cname(t), name):
                    continue
                tr = tr or tracer(P, f)
                n += 1
                for ai, a in enumerate(t["args"][1:], start=1):
                    e = tr.operand(a, endpos(f, b))
                    if _items_of_lowercased_collection(P, f, tr, e) or is_lowercased(e):
                        bad.append("%s @%s" % (f.name.split("::")[-1], f.loc(b)))
    ctx.ob(pre + ".exact-host-compare-gets-exact-names", "DnsCache", not bad, "",
           "%d function(s) compare DnsSrv::host() exactly with a parameter; %d call site(s), none passes a lower-cased name" % (len(exact), n) if not bad else
           "a lower-cased host name is handed to a function that compares it exactly with DnsSrv::host() (%s): for a host name with a capital "
           "letter the comparison never matches (shared host's addresses dropped while another browsed type still needs them)" % bad[:2])


def _items_of_lowercased_collection(P, f, tr, e):
    """e is (derived from) an item of a local collection into which some lower-cased value was inserted"""
    sites = {x[3] for x in walk(e) if x[0] == "call" and method(strip_generics(x[1])) in ("new", "with_capacity", "default") and ("HashSet" in x[1] or "Vec" in x[1] or "BTreeSet" in x[1])}
    if not sites:
        return False
    for b, t in f.calls():
        if method(cname(t)) in ("insert", "push") and len(t["args"]) >= 2:
            r = tr.operand(t["args"][0], endpos(f, b))
            if any(x[0] == "call" and x[3] in sites for x in walk(r)):
                v = tr.operand(t["args"][1], endpos(f, b))
                if is_lowercased(v) or any(x[0] == "call" and method(strip_generics(x[1])) == "to_lowercase" for x in walk(v)):
                    return True
    return False


# ------------------------------------------------------------------------------------------------
# second half of round 5
def rerun_names_are_verbatim(ctx, P, pre):
    """the name stored in a queued Command::ResolveHostname / Browse / Resolve is written into a query later: it is the
    name the caller passed check_hostname / the browse with, not a to_lowercase() copy (Unicode lower-casing can lengthen a
    label beyond 63 bytes; the lower-cased form is for map keys only)"""
    n = 0
    for variant in ("ResolveHostname", "Browse", "Resolve"):
        for f, b, i, s in all_aggregates(P, "service_daemon::Command", variant):
            if f.in_tests() or is_derived_impl(f):
                continue
            tr = tracer(P, f)
            e = tr.rvalue(s["r"], (b, i))
            name_e = e[4][0] if len(e) > 4 and e[4] else e
            n += 1
            bad = is_lowercased(name_e) or any(x[0] == "call" and method(strip_generics(x[1])) in ("to_lowercase", "to_uppercase") for x in strip(name_e))
            ctx.ob(pre + ".rerun-names-are-verbatim", "%s|%s#%d" % (f.name, variant, n), not bad, f.loc(b, i),
                   "the queued command carries the name as given" if not bad else
                   "the queued Command::%s carries a lower-cased copy of the name: it is encoded into the next query, and Unicode lower-casing can "
                   "turn a legal label into one of 64+ bytes (assert in write_utf8 kills the daemon thread)" % variant)
    ctx.floor(pre + ".rerun-names-are-verbatim", n, 4, "constructions of Command::ResolveHostname / Browse / Resolve")


def resolver_entry_always_rewritten(ctx, P, pre):
    """a second resolve_hostname() for a host replaces the first one whole: add_hostname_resolver writes the (listener,
    deadline) pair on every path — swapping only the listener keeps the deadline of the call it replaced"""
    f = resolver_registration_fn(P)
    ins = [b for b, t in f.calls() if "HashMap" in cname(t) and method(cname(t)) == "insert" and recv_mentions(P, f, b, t, "hostname_resolvers", "Zeroconf")]
    inplace = [b for b, t in f.calls() if "HashMap" in cname(t) and method(cname(t)) in ("get_mut",) and recv_mentions(P, f, b, t, "hostname_resolvers", "Zeroconf")]
    # (the entry API and other whole-value writes are fine; what is looked for is an in-place edit of an existing entry on a
    # path that never stores the new pair)
    ok = not inplace or (bool(ins) and not any(f.term(r)["k"] == "return" for r in f.reachable(0, removed_blocks=ins)))
    ctx.ob(pre + ".resolver-entry-always-rewritten", f.name, ok, f.loc(ins[0]) if ins else f.loc(),
           "every path stores the new (listener, deadline) pair" if ok else
           "a path registers the new listener without storing its deadline (in-place update of an existing entry): the second resolve_hostname "
           "ends at the first one's deadline, or never")


def pending_cleared_only_with_its_reruns(ctx, P, pre):
    """the other half of C04n: a stop handler that takes instances out of pending_resolves also purges their queued Resolve
    reruns, or a re-browse starts a second chain next to the one still queued (six follow-ups 100 ms apart instead of three)"""
    from .f9 import purge_info
    n = 0
    for name in ("Zeroconf::exec_command_stop_browse",):
        f = P.one(name)
        fs = [f] + [P.fns[c] for c in P.closures_of.get(f.name, [])]
        edits = [g.loc(b) for g in fs for b, t in g.calls() if name_matches(cname(t), "HashSet::remove", "HashSet::clear", "HashSet::retain", "HashSet::take", "HashSet::drain")
                 and (recv_mentions(P, g, b, t, "pending_resolves", "Zeroconf") or (g is not f and fn_mentions_field(P, g, "Zeroconf", "pending_resolves")))]
        if not edits:
            continue
        n += 1
        purges = any("Resolve" in vs for (_b, vs) in purge_info(P, f)["removes"])
        ctx.ob(pre + ".pending-cleared-only-with-its-reruns", f.name, purges, edits[0],
               "the handler purges the Resolve reruns of the instances it forgets" if purges else
               "the handler takes instances out of pending_resolves but leaves their Resolve reruns queued: browse again within 1.5 s and a second "
               "chain of follow-ups runs beside the first")
    ctx.ob(pre + ".pending-cleared-only-with-its-reruns", "(stop handlers editing pending_resolves: %d)" % n, True, "", "checked")


def newest_record_first(ctx, P, pre):
    """readers of the cache take the FIRST live record of a name (resolve_service_from_cache: first TXT, first SRV); while
    an old and a new TXT are both alive (cache-flush spares records younger than a second) the new one must come first, so
    add_or_update inserts a new record at index 0"""
    f = P.one("DnsCache::add_or_update")
    tr = tracer(P, f)
    ins = [(b, t) for b, t in f.calls() if name_matches(cname(t), "Vec::insert")]
    psh = [(b, t) for b, t in f.calls() if name_matches(cname(t), "Vec::push") and any(x == ("param", 3) for x in walk(tr.operand(t["args"][1], endpos(f, b))))]
    ok = bool(ins) and all(const_value(tr.operand(t["args"][1], endpos(f, b))) == 0 for b, t in ins) and not psh
    ctx.ob(pre + ".newest-record-first", f.name, ok, f.loc(ins[0][0]) if ins else f.loc(),
           "a new record goes to the front of its vector" if ok else
           "a new record is appended behind the older ones: readers that take the first live record keep showing the old TXT after an update")


def compression_key_labels_untransformed(ctx, P, pre):
    """the compression key is the labels joined by '.', nothing else: escaping only some characters of a label before the
    join makes different label sequences share a key (`lab\\` + `office` vs `lab.office`)"""
    f = P.one("DnsOutPacket::write_name")
    fs = [f] + [P.fns[c] for c in P.closures_of.get(f.name, [])]
    bad = [g.loc(b) for g in fs for b, t in g.calls() if method(strip_generics(cname(t))) in ("replace", "replacen", "escape_default", "escape_debug") and "str" in cname(t)]
    ctx.ob(pre + ".compression-key-labels-untransformed", f.name, not bad, f.loc(),
           "write_name applies no string rewriting to the labels it keys" if not bad else
           "write_name rewrites labels before keying them (%s): unless every special character is escaped consistently, two different names "
           "share a compression key and the second is written as a pointer to the first" % bad[:1])


def one_refresh_query_per_due_record(ctx, P, pre):
    """refresh_due_hostname_resolutions has already disarmed EVERY due address record it returns; the caller therefore asks for
    every one of them (a loop over the result), A or AAAA by the record's family — asking once per host leaves the other
    family of a dual-stack host to run out"""
    hits = []
    for f in P.lib_fns():
        if f.in_tests() or f.is_closure:
            continue
        rc = calls_to(f, "DnsCache::refresh_due_hostname_resolutions")
        if not rc:
            continue
        tr = tracer(P, f)
        loops = f.loops()
        for b, t in f.calls():
            if method(cname(t)) != "next" or not t["args"]:
                continue
            e = tr.operand(t["args"][0], endpos(f, b))
            if not any(x[0] == "call" and x[3] == (f.name, rc[0][0]) for x in walk(e)):
                continue
            inner = [h for h, body in loops.items() if b in body]
            h = min(inner, key=lambda x: len(loops[x])) if inner else None
            # the `next()` on the result drives its own loop: the innermost loop around it is entered through it
            own = h is not None and (h == b or all(f.dominates(b, x) for x in loops[h] if x != h))
            hits.append((f, b, own))
    ctx.require(bool(hits), pre + ".anchor", "refresh_due_hostname_resolutions|consumer", "", "%d consumer(s) of the result" % len(hits))
    for (f, b, own) in hits:
        ctx.ob(pre + ".one-refresh-query-per-due-record", f.name, own, f.loc(b),
               "the due records are walked in a loop of their own" if own else
               "only the first due record of the host is looked at (no loop over the result): the other address family is disarmed but never "
               "asked for, expires, and AddressesRemoved is reported for a live address")


def goodbye_resets_ttl_and_created(ctx, P, pre):
    """known answers are computed from `created` and `ttl` (half-life test, remaining TTL): reset_ttl copies both from the
    incoming record on EVERY path, also for a goodbye (ttl 1) — otherwise a withdrawn record is listed as a known answer with
    thousands of seconds left during its last second"""
    from .c11 import _field_assigns
    rt = P.one("DnsRecord::reset_ttl")
    for fld in ("ttl", "created"):
        ws = _field_assigns(P, rt, "DnsRecord", fld)
        blocks = [w[0] for w in ws]
        ok = bool(blocks) and not any(rt.term(r)["k"] == "return" for r in rt.reachable(0, removed_blocks=blocks))
        ctx.ob(pre + ".goodbye-resets-ttl-and-created", "%s|%s" % (rt.name, fld), ok, rt.loc(blocks[0]) if blocks else rt.loc(),
               "reset_ttl writes `%s` on every path" % fld if ok else
               "reset_ttl can return without writing `%s` (e.g. for a goodbye): the known-answer list and the remaining TTL are computed from the "
               "values of the announcement that was withdrawn" % fld)


def new_address_reported_only_when_stored(ctx, P, pre):
    """add_interface tells its second half (announce, one query per open browse) that an address is new; check_ip_changes
    calls it again for every address it does not find in my_intfs.  So `new` is reported only on paths that store the address
    (MyIntf.addrs.insert or a new MyIntf): otherwise the address is found new at every IP check and every check sends a query"""
    f = P.one("Zeroconf::add_interface")
    stores = [b for b, t in f.calls() if "HashSet" in cname(t) and method(cname(t)) == "insert" and recv_mentions(P, f, b, t, "addrs", "MyIntf")]
    stores += [b for b, i, s in aggregates(f, "service_info::MyIntf")]
    trues = [(b, i, s["p"]["l"]) for b, i, s in f.assigns() if not s["p"]["proj"] and s["r"]["k"] == "use" and s["r"]["a"].get("k") == "const" and
             s["r"]["a"].get("ty") == "bool" and s["r"]["a"].get("val") in (1, True) and f.locals[s["p"]["l"]].get("name")]
    ctx.require(bool(stores), pre + ".anchor", f.name + "|store", f.loc(), "%d store(s), %d flag assignment(s) (no flag: the function returns early instead)" % (len(stores), len(trues)))
    bad = []
    for (b, i, l) in trues:
        if any(s_ == b or f.dominates(s_, b) for s_ in stores):
            continue
        if not any(f.term(r)["k"] == "return" for r in f.reachable(b, removed_blocks=stores)):
            continue
        bad.append(f.loc(b, i))
    ctx.ob(pre + ".new-address-reported-only-when-stored", f.name, not bad, f.loc(),
           "every `new address` report is accompanied by storing the address" if not bad else
           "add_interface reports the address as new (%s) on a path that does not store it: every later IP check finds it new again and sends "
           "another query for every open browse" % bad[:1])


def stop_forgets_every_listed_instance(ctx, P, pre):
    """remove_service_type forgets the SRV/TXT/... of EVERY instance the stopped type's PTR records list: the only edge that may
    skip an instance is a PTR record that is not a DnsPointer.  The cache cannot know which other types are being browsed
    (it also holds PTRs nobody asked for), so 'another PTR still lists it' is no reason to keep the records"""
    f = P.one("DnsCache::remove_service_type")
    rem = [b for b, t in f.calls() if "HashMap" in cname(t) and method(cname(t)) == "remove" and recv_mentions(P, f, b, t, "srv", "DnsCache")]
    ctx.require(len(rem) >= 1, pre + ".anchor", f.name + "|srv.remove", f.loc(), "%d call(s)" % len(rem))
    if not rem:
        return
    loops = f.loops()
    heads = [h for h, body in loops.items() if rem[0] in body]
    if not heads:
        ctx.ob(pre + ".stop-forgets-every-listed-instance", f.name, True, f.loc(rem[0]), "no loop around the removal (adaptor form)")
        return
    h = min(heads, key=lambda x: len(loops[x]))
    allowed = guard_edges(P, f, lambda atom, outcome, bb: atom[0] == "variant" and outcome == frozenset(["None"]) and
                          any(x[0] == "call" and "downcast_ref" in x[1] for x in walk(atom[1])))
    reach = f.reachable(h, removed_blocks=rem, removed_edges=allowed)
    backs = [b for b in f.preds(h) if b in loops[h] and f.dominates(h, b)]
    exits_ok = True
    bad = [b for b in backs if b in reach and any(s_ != h and s_ in loops[h] for s_ in f.succs(h))]
    # the loop's own exhaustion edge (next() == None) also reaches a back-edge-free exit; only cycles count
    ctx.ob(pre + ".stop-forgets-every-listed-instance", f.name, not bad, f.loc(rem[0]),
           "every instance listed by the stopped type loses its SRV entry" if not bad else
           "an instance listed by the stopped type can be skipped (a `continue` before srv.remove): its SRV/TXT/address records stay cached with "
           "no search open and are refreshed by unsolicited traffic for ever")
