"""Rules added after seeded round 4 (ordinary-looking commits: a new early return or `continue` for a 'harmless' special
case, a skipped walk, a de-duplication keyed too coarsely, a helper generalised for a second caller).  Most of them are
must-pass-through rules: a piece of work that the property needs on every path, with the explicit list of edges that may
skip it.  As in r2.py every rule takes the rule prefix so the owning property's check reports it."""
from .lib import *
from ..origin import walk, strip


def _error_exit_blocks(f):
    """blocks that build the residual of a `?` (the error exits of the function)"""
    return {b for b, t in f.calls() if "from_residual" in cname(t)}


def _fn_or_closure_calls(P, fn, suffixes, depth=0):
    for b, t in fn.calls():
        if name_matches(strip_generics(cname(t)), *suffixes):
            return True
    if depth < 3:
        for c in P.closures_of.get(fn.name, []):
            if _fn_or_closure_calls(P, P.fns[c], suffixes, depth + 1):
                return True
    return False


def expr_or_closure_calls(P, e, *suffixes):
    for x in walk(e):
        if x[0] == "call" and name_matches(strip_generics(x[1]), *suffixes):
            return True
        if x[0] == "closure" and x[1] in P.fns and _fn_or_closure_calls(P, P.fns[x[1]], suffixes):
            return True
    return False


# ------------------------------------------------------------------------------------------------
def every_section_decoded(ctx, P, pre):
    """`the crate's own decoder reads the same content from those packets`: DnsIncoming::new reads the header and all four
    sections of every datagram it accepts — the only exits that skip a section reader are the error exits of `?`.  (A
    continuation packet of a truncated query has no question and all its content in the other sections.)"""
    f = P.one("DnsIncoming::new")
    readers = [(b, cname(t)) for b, t in f.calls() if name_matches(cname(t), "DnsIncoming::read_header", "DnsIncoming::read_questions", "DnsIncoming::read_answers",
                                                                   "DnsIncoming::read_authorities", "DnsIncoming::read_additional", "DnsIncoming::read_rr_records")]
    ctx.floor(pre + ".every-section-decoded", len(readers), 5, "section readers called by DnsIncoming::new")
    err = _error_exit_blocks(f)
    for b, n in readers:
        reach = f.reachable(0, removed_blocks=set([b]) | err)
        early = [f.loc(r) for r in reach if f.term(r)["k"] == "return"]
        ctx.ob(pre + ".every-section-decoded", "%s|%s" % (f.name, method(n)), not early, f.loc(b),
               "every successful return of DnsIncoming::new has passed %s" % method(n) if not early else
               "DnsIncoming::new can return Ok without %s (%s): records the encoder put into such a packet are not read back" % (method(n), early[:2]))


# ------------------------------------------------------------------------------------------------
def every_question_considered(ctx, P, pre):
    """handle_query looks at every question of every query that arrived on a known interface and socket: before the loop
    over the questions the only returns are the `None` arms of the socket / registry / interface lookups.  (A query with
    the TC bit, with known answers, with an odd id ... still has its questions answered.)"""
    f = P.one("Zeroconf::handle_query")
    sites = calls_to(f, "DnsOutgoing::add_answer_with_additionals")
    ctx.require(len(sites) >= 1, pre + ".anchor", f.name + "|add_answer_with_additionals", f.loc(), "%d call(s)" % len(sites))
    if not sites:
        return
    loops = f.loops()
    heads = [h for h, body in loops.items() if sites[0][0] in body]
    ctx.require(bool(heads), pre + ".anchor", f.name + "|question loop", f.loc(sites[0][0]), "the answers are added inside a loop")
    if not heads:
        return
    head = max(heads, key=lambda h: len(loops[h]))
    LOOKUPS = ("ipv4_sock", "ipv6_sock", "dns_registry_map", "my_intfs")
    allowed = guard_edges(P, f, lambda atom, outcome, bb: atom[0] == "variant" and outcome == frozenset(["None"]) and
                          any(expr_mentions_field(atom[1], fld, "Zeroconf") for fld in LOOKUPS))
    # ... or when there is no question at all (`msg.questions().is_empty()`): the loop would not run either
    allowed |= guard_edges(P, f, lambda atom, outcome, bb: atom[0] == "call" and method(strip_generics(atom[1])) == "is_empty" and outcome is True and
                           any((x[0] == "call" and name_matches(strip_generics(x[1]), "DnsIncoming::questions")) or
                               (x[0] == "field" and x[2] == "questions" and (x[3] or "").endswith("DnsIncoming")) for x in walk(atom)))
    reach = f.reachable(0, removed_blocks=[head], removed_edges=allowed)
    early = [f.loc(r) for r in reach if f.term(r)["k"] == "return"]
    ctx.ob(pre + ".every-question-considered", f.name, not early, f.loc(head),
           "before the loop over the questions handle_query returns only when the socket, registry or interface is unknown" if not early else
           "handle_query returns before it looked at the questions (%s) for a reason other than an unknown socket / registry / interface: "
           "matching records of such a query are never answered" % early[:2])


CASE_SENSITIVE_STR = ("ends_with", "starts_with", "contains", "strip_suffix", "strip_prefix", "eq", "ne", "find", "rfind")


def question_name_not_gated_by_case(ctx, P, pre):
    """`names are matched case-insensitively`: no byte-wise string test on the question's name decides whether the question
    is looked at at all (an edge that every answer site of the question loop has to pass)"""
    f = P.one("Zeroconf::handle_query")
    sites = [b for b, t in f.calls() if name_matches(cname(t), "DnsOutgoing::add_answer_with_additionals", "DnsOutgoing::add_answer", "DnsOutgoing::add_answer_of_service",
                                                     "DnsOutgoing::add_answer_at_time")]
    ctx.require(len(sites) >= 2, pre + ".anchor", f.name + "|answer sites", f.loc(), "%d answer site(s)" % len(sites))
    if len(sites) < 2:
        return

    def on_qname(e):
        named = any((x[0] == "call" and method(strip_generics(x[1])) == "entry_name") or (x[0] == "field" and x[2] == "name" and (x[3] or "").endswith("DnsEntry")) for x in walk(e))
        lowered = any(x[0] == "call" and method(strip_generics(x[1])) in ("to_lowercase", "to_ascii_lowercase", "eq_ignore_ascii_case") for x in walk(e))
        return named and not lowered

    def pred(atom, outcome, bb):
        for x in walk(atom):
            if x[0] == "call" and method(strip_generics(x[1])) in CASE_SENSITIVE_STR and any(on_qname(a) for a in x[2]):
                return True
        return False
    edges = guard_edges(P, f, pred)
    by_src = {}
    for (b, t) in edges:
        by_src.setdefault(b, set()).add((b, t))
    bad = []
    for b, es in sorted(by_src.items()):
        for e in sorted(es):
            if all(must_pass_edges(f, s, {e}) for s in sites):
                bad.append(f.loc(b))
    ctx.ob(pre + ".question-name-not-gated-by-case", f.name, not bad, f.loc(),
           "no byte-wise test on the question name stands in front of all the answer sites" if not bad else
           "a case-sensitive string test on the question name at %s decides whether the question is looked at at all: the same name in "
           "another case (`.LOCAL.`) gets no answer" % sorted(set(bad))[:2])


def additional_dedupe_compares_data(ctx, P, pre):
    """`PTR answers bring the SRV, TXT and address records as additionals`: add_additional_answer may leave a record out
    only when an identical record (rdata included: `matches` / `rrdata_match`) is already there — two addresses of one host
    share name, type and class"""
    f = P.one("DnsOutgoing::add_additional_answer")
    pushes = [b for b, t in f.calls() if name_matches(cname(t), "Vec::push") and recv_mentions(P, f, b, t, "additionals", "DnsOutgoing")]
    ctx.require(len(pushes) >= 1, pre + ".anchor", f.name + "|additionals.push", f.loc(), "%d push(es)" % len(pushes))
    if not pushes:
        return
    # can a return be reached without the push?  then the edges that lead there must carry a full-record comparison
    reach = f.reachable(0, removed_blocks=pushes)
    skips = any(f.term(r)["k"] == "return" for r in reach)
    ok = True
    detail = "the record is always added"
    if skips:
        full = guard_edges(P, f, lambda atom, outcome, bb: expr_or_closure_calls(P, atom, "matches", "rrdata_match", "DnsRecordExt::matches", "DnsRecordExt::rrdata_match"))
        reach2 = f.reachable(0, removed_blocks=pushes, removed_edges=full)
        ok = not any(f.term(r)["k"] == "return" for r in reach2)
        detail = ("a record is left out only behind a full-record comparison (matches / rrdata_match)" if ok else
                  "a record can be left out of the additional section without its data having been compared: the second address of a host "
                  "(same name, type and class) is dropped")
    ctx.ob(pre + ".additional-dedupe-compares-data", f.name, ok, f.loc(pushes[0]), detail)


# ------------------------------------------------------------------------------------------------
def followup_guard_goes_through_ptr(ctx, P, pre):
    """the `does an open browse still list this instance` test of exec_command_resolve goes from the browser's key to the
    instance through the cached PTR records: a subtype browse (`_sub._sub._ty`) lists instances whose names do not contain the
    subtype, so cutting the type out of the instance name never finds it"""
    f = P.one("Zeroconf::exec_command_resolve")
    q = calls_to(f, "Zeroconf::query_unresolved")
    if len(q) != 1:
        ctx.require(False, pre + ".anchor", f.name + "|query_unresolved", f.loc(), "%d call(s)" % len(q))
        return
    atoms = [a for (_e, a, _o) in guard_atoms(P, f) if expr_or_closure_mentions_field(P, a, "service_queriers", "Zeroconf")]
    if not atoms:
        ctx.ob(pre + ".followup-guard-goes-through-ptr", f.name, True, f.loc(), "no open-browse test in the handler (the reruns are purged on stop)")
        return
    bad = [a for a in atoms if not (expr_or_closure_calls(P, a, "DnsCache::all_ptr", "DnsCache::get_ptr") or expr_or_closure_mentions_field(P, a, "ptr", "DnsCache"))]
    ctx.ob(pre + ".followup-guard-goes-through-ptr", f.name, not bad, f.loc(),
           "the open-browse test reaches the instance through the cached PTR records" if not bad else
           "the open-browse test looks up service_queriers without the cached PTR records (the type is taken from the instance name): "
           "for a subtype browse no follow-up question is ever asked")


def resolved_event_per_listing(ctx, P, pre):
    """ServiceResolved is decided per (browsed type, instance): in resolve_updated_instances no test on a collection that the
    same pass fills stands between an updated, valid instance and the event — a type and its subtype list the same instance
    and each browser gets its own event"""
    f = P.one("Zeroconf::resolve_updated_instances")
    tr = tracer(P, f)
    filled = set()
    for b, t in f.calls():
        n = strip_generics(cname(t))
        if name_matches(n, "HashSet::insert", "HashMap::insert", "Vec::push", "BTreeSet::insert", "BTreeMap::insert"):
            for a in walk(tr.operand(t["args"][0], endpos(f, b))):
                if a[0] == "call" and method(strip_generics(a[1])) in ("new", "with_capacity", "default"):
                    filled.add(a[3])
    sends = [b for b, t in f.calls() if name_matches(cname(t), "service_daemon::call_service_listener")] or [em.bb for em in direct_sends(P, f)]
    ctx.require(bool(sends) and bool(filled), pre + ".anchor", f.name + "|send + pass-local sets", f.loc(), "%d send(s), %d local collection(s)" % (len(sends), len(filled)))
    if not sends or not filled:
        return
    memo = guard_edges(P, f, lambda atom, outcome, bb: any(x[0] == "call" and x[3] in filled for x in walk(atom)))
    loops = f.loops()
    bad = []
    for s in sends:
        heads = [h for h, body in loops.items() if s in body]
        if not heads:
            continue
        if memo and must_pass_edges(f, s, memo):
            bad.append(f.loc(s))
    ctx.ob(pre + ".resolved-event-per-listing", f.name, not bad, f.loc(sends[0]),
           "no per-pass memo stands between an updated instance and its ServiceResolved" if not bad else
           "the ServiceResolved at %s is sent only when a set filled earlier in the same pass does not hold the instance: of a type and a "
           "subtype browse that list the same instance only one gets the event" % bad[:2])


# ------------------------------------------------------------------------------------------------
def age_subtracted_once(ctx, P, pre):
    """`writes the remaining TTL` of a known answer: the age of the cached record is taken off exactly once.  A caller that
    has applied update_ttl(now) to its copy hands it to the packet with time 0 (write_record then writes the TTL as it
    is); handing it over with `now` again takes the age off twice."""
    n = 0
    for f in P.lib_fns():
        if f.in_tests() or f.is_closure:
            continue
        ups = [b for b, t in f.calls() if name_matches(cname(t), "DnsRecord::update_ttl")]
        if not ups:
            continue
        tr = tracer(P, f)
        for b, t in f.calls():
            cn = strip_generics(cname(t))
            if not name_matches(cn, "DnsOutgoing::add_answer_box", "DnsOutgoing::add_answer_at_time"):
                continue
            if not any(b in f.reachable(u) for u in ups):
                continue
            n += 1
            g = P.one(cn)
            times = _answer_time_exprs(P, g)
            ok = bool(times)
            for te in times:
                if te == ("const0",):
                    continue
                if te[0] == "param":
                    ae = tr.operand(t["args"][te[1] - 1], endpos(f, b))
                    if const_value(ae) != 0:
                        ok = False
                else:
                    ok = False
            ctx.ob(pre + ".age-subtracted-once", "%s|%s" % (f.name, method(cn)), ok, f.loc(b),
                   "the copy that had update_ttl applied is written with time 0" if ok else
                   "a record whose TTL was already reduced by update_ttl(now) is handed to the packet with a write time: write_record takes the "
                   "age off again and the known answer goes out with TTL - 2*age (below half: the responder answers again)")
    ctx.floor(pre + ".age-subtracted-once", n, 1, "known-answer copies handed to a packet after update_ttl")


def _answer_time_exprs(P, g):
    """what DnsOutgoing's adders put into the time slot of the (record, time) pairs they push on `answers`"""
    out = []
    tr = tracer(P, g)
    for b, t in g.calls():
        if name_matches(cname(t), "Vec::push") and recv_mentions(P, g, b, t, "answers", "DnsOutgoing"):
            e = tr.operand(t["args"][1], endpos(g, b))
            tup = [x for x in walk(e) if x[0] == "agg" and x[1] == "tuple"]
            te = None
            for x in tup:
                elems = x[-1] if isinstance(x[-1], tuple) else None
                if elems and len(elems) == 2:
                    te = elems[1]
                    break
            if te is None:
                out.append(("unknown",))
            elif const_value(te) == 0:
                out.append(("const0",))
            elif strip(te) and list(strip(te))[0][0] == "param":
                te = list(strip(te))[0]
                out.append(("param", te[1]))
            else:
                out.append(("other",))
    return out


# ------------------------------------------------------------------------------------------------
def every_string_skipped_whole(ctx, P, pre):
    """decode_txt walks the length-prefixed strings of a TXT record: every turn of its loop moves the cursor past the whole
    string (a variable-length advance), whatever was done with the string — a `continue` that skips the advance makes the
    next turn read payload bytes as a length"""
    f = P.one("service_info::decode_txt")
    loops = f.loops()
    ctx.require(len(loops) >= 1, pre + ".anchor", f.name + "|loop", f.loc(), "%d loop(s)" % len(loops))
    if not loops:
        return
    head = max(loops, key=lambda h: len(loops[h]))
    body = loops[head]
    # loop-carried cursor: a named local assigned in the body from `cursor + x`
    defs = {}
    for b in sorted(body):
        for i, s in enumerate(f.stmts(b)):
            if s["k"] == "assign" and not s["p"]["proj"]:
                defs.setdefault(s["p"]["l"], []).append((b, i, s["r"]))

    def add_of(r, depth=0):
        """(a_local, b_operand) when r is `a + b` possibly through the (value, overflow) pair of a checked add"""
        if r["k"] in ("checked", "binop") and r.get("op") == "Add":
            return r["a"], r["b"]
        if r["k"] == "use" and r["a"]["k"] in ("move", "copy") and depth < 2:
            p = r["a"]["p"]
            for (_b, _i, r2) in defs.get(p["l"], []):
                got = add_of(r2, depth + 1)
                if got:
                    return got
        return None
    cursors = {}
    for l, ds in defs.items():
        if not f.local_name(l):
            continue
        for (b, i, r) in ds:
            got = add_of(r)
            if got and got[0]["k"] in ("copy", "move") and got[0]["p"]["l"] == l and not got[0]["p"]["proj"]:
                cursors.setdefault(l, []).append((b, got[1]["k"] == "const"))
            elif r["k"] == "use" and r["a"]["k"] in ("copy", "move") and f.local_name(r["a"]["p"]["l"]):
                cursors.setdefault(l, []).append((b, False))      # cursor = other_local (e.g. offset = offset_end)
    strict = {l: v for l, v in cursors.items() if any(c for (_b, c) in v) or len(v) >= 2}
    # `offset = end` as the only write (the length byte is skipped in `start = offset + 1`): still the loop's cursor
    outside = {s_["p"]["l"] for b in range(f.n) if b not in body for s_ in f.stmts(b) if s_["k"] == "assign" and not s_["p"]["proj"]}
    cursors = strict or {l: v for l, v in cursors.items() if l in outside and any(not c for (_b, c) in v)}
    ctx.require(len(cursors) >= 1, pre + ".anchor", f.name + "|cursor", f.loc(head), "loop-carried cursor(s): %s" % sorted(f.local_name(l) for l in cursors))
    for l, v in sorted(cursors.items()):
        var = [b for (b, const) in v if not const]
        ok = bool(var) and loop_every_iteration_passes(f, head, body, var)
        ctx.ob(pre + ".every-string-skipped-whole", "%s|%s" % (f.name, f.local_name(l)), ok, f.loc(var[0]) if var else f.loc(head),
               "every turn of the loop moves `%s` past the whole string" % f.local_name(l) if ok else
               "a turn of the loop can go back to its head without moving `%s` past the string it has just read: the next turn takes a payload "
               "byte for a length and the rest of the record decodes to other keys and values" % f.local_name(l))


def first_occurrence_wins_everywhere(ctx, P, pre):
    """`when a key occurs twice only the first occurrence is kept` wherever the second one stands: the duplicate filter is not
    one of Vec's dedup* methods, which only look at neighbours"""
    f = P.one("service_info::decode_txt_unique")
    fs = [f] + [P.fns[c] for c in P.closures_of.get(f.name, [])]
    bad = [g.loc(b) for g in fs for b, t in g.calls() if name_matches(strip_generics(cname(t)), "Vec::dedup", "Vec::dedup_by", "Vec::dedup_by_key")]
    ctx.ob(pre + ".first-occurrence-wins-everywhere", f.name, not bad, f.loc(),
           "no neighbours-only de-duplication" if not bad else
           "duplicates are removed with Vec::dedup* (%s), which compares neighbours only: `a=1 b=2 A=3` keeps both a and A" % bad[:1])


# ------------------------------------------------------------------------------------------------
def auto_addr_follows_every_new_address(ctx, P, pre):
    """`with automatic addressing the service follows addresses as they appear`: in add_interface every addr_auto service gets
    the new address (insert_ipaddr) — the only edge that may skip it is `is_addr_auto() == false`"""
    f = P.one("Zeroconf::add_interface")
    ins = calls_to(f, "ServiceInfo::insert_ipaddr")
    ctx.require(len(ins) >= 1, pre + ".anchor", f.name + "|insert_ipaddr", f.loc(), "%d call(s)" % len(ins))
    if not ins:
        return
    ib = ins[0][0]
    loops = f.loops()
    heads = [h for h, body in loops.items() if ib in body]
    ctx.require(bool(heads), pre + ".anchor", f.name + "|service loop", f.loc(ib), "insert_ipaddr sits in the loop over my_services")
    if not heads:
        return
    head = min(heads, key=lambda h: len(loops[h]))
    body = loops[head]
    allowed = guard_edges(P, f, lambda atom, outcome, bb: atom[0] == "call" and name_matches(atom[1], "ServiceInfo::is_addr_auto") and outcome is False)
    reach = f.reachable(head, removed_blocks=[ib], removed_edges=allowed)
    backs = [b for b in f.preds(head) if b in body and f.dominates(head, b)]
    bad = [b for b in backs if b in reach]
    ctx.ob(pre + ".auto-addr-follows-every-new-address", f.name, not bad, f.loc(ib),
           "every addr_auto service of the loop gets the new address" if not bad else
           "a turn of the service loop can skip insert_ipaddr for an addr_auto service (status, earlier announcement ...): the service never "
           "publishes the address that appeared")


# ------------------------------------------------------------------------------------------------
# Dispatch skeleton: the same must-pass-through shape applied to the places every property goes through
def every_packet_dispatched(ctx, P, pre):
    """handle_read hands every datagram that arrived on a known interface with the family enabled to the decoder, and every
    decoded message to handle_query (QR = 0) or handle_response (QR = 1).  The edges that may drop a datagram are listed:
    unknown token, socket gone, recv error, unknown interface, family disabled on the interface, decode error, a message
    that is neither query nor response."""
    f = P.one("Zeroconf::handle_read")
    dec = calls_to(f, "DnsIncoming::new")
    hq = calls_to(f, "Zeroconf::handle_query")
    hr = calls_to(f, "Zeroconf::handle_response")
    ctx.require(len(dec) == 1 and len(hq) >= 1 and len(hr) >= 1, pre + ".anchor", f.name + "|decode + dispatch", f.loc(), "%d/%d/%d" % (len(dec), len(hq), len(hr)))
    if len(dec) != 1 or not hq or not hr:
        return
    db = dec[0][0]
    tr = tracer(P, f)

    def drop_ok(atom, outcome, bb):
        if atom[0] == "variant" and outcome == frozenset(["None"]) and any(expr_mentions_field(atom[1], fld, "Zeroconf") for fld in ("ipv4_sock", "ipv6_sock", "my_intfs")):
            return True
        if atom[0] == "variant" and outcome == frozenset(["Err"]) and any(x[0] == "call" and method(strip_generics(x[1])) in ("recv", "recv_from", "recvmsg") for x in walk(atom[1])):
            return True
        if any(x[0] == "call" and method(strip_generics(x[1])) in ("next_ifaddr_v4", "next_ifaddr_v6") for x in walk(atom)):
            return True
        return False
    allowed = guard_edges(P, f, drop_ok)
    # the event-key switch: its default arm (neither socket token) may return
    for b in sorted(f.live_blocks()):
        t = f.term(b)
        if t["k"] == "switch":
            d = tr.operand(t["d"], endpos(f, b)) if "d" in t else None
            if d is not None and any(x == ("param", 2) for x in strip(d)):
                for (tgt, atom, outcome) in switch_edges(P, f, b):
                    if isinstance(outcome, tuple) and outcome and outcome[0] == "not":
                        allowed.add((b, tgt))
    # an allowed edge is one that gives the datagram up: from its target the decoder is out of reach
    allowed = {(b, t_) for (b, t_) in allowed if db not in f.reachable(t_)}
    reach = f.reachable(0, removed_blocks=[db], removed_edges=allowed)
    early = [f.loc(r) for r in reach if f.term(r)["k"] == "return"]
    ok1 = not early and db in f.reachable(0, removed_edges=allowed)
    ctx.ob(pre + ".every-datagram-decoded", f.name, ok1, f.loc(db),
           "a datagram is dropped before decoding only for a listed reason (socket / recv error / unknown interface / family disabled)" if ok1 else
           "handle_read can return before decoding (%s) for a reason other than socket gone / recv error / unknown interface / family disabled: "
           "such datagrams are never answered or cached" % early[:2])
    e_ok = guard_edges(P, f, lambda atom, outcome, bb: atom[0] == "variant" and outcome == frozenset(["Ok"]) and any(x[0] == "call" and x[3] == (f.name, db) for x in walk(atom[1])))
    skip = guard_edges(P, f, lambda atom, outcome, bb: atom[0] == "call" and name_matches(strip_generics(atom[1]), "DnsIncoming::is_response") and outcome is False)
    bad = []
    for (b, tgt) in sorted(e_ok):
        reach = f.reachable(tgt, removed_blocks=[x[0] for x in hq] + [x[0] for x in hr], removed_edges=skip)
        if any(f.term(r)["k"] == "return" for r in reach):
            bad.append(f.loc(b))
    ctx.ob(pre + ".every-message-dispatched", f.name, bool(e_ok) and not bad, f.loc(hq[0][0]),
           "every decoded message goes to handle_query or handle_response (or is neither)" if (e_ok and not bad) else
           "a decoded message can be dropped without reaching handle_query / handle_response")
    # and the query arm really is the query arm
    e_q = guard_edges(P, f, lambda atom, outcome, bb: atom[0] == "call" and name_matches(strip_generics(atom[1]), "DnsIncoming::is_query") and outcome is True)
    e_r = guard_edges(P, f, lambda atom, outcome, bb: atom[0] == "call" and name_matches(strip_generics(atom[1]), "DnsIncoming::is_response") and outcome is True)
    ok3 = all(must_pass_edges(f, b, e_q) for b, _t in hq) and all(must_pass_edges(f, b, e_r | edges_complement(P, f, e_q)) for b, _t in hr)
    # ... and a query always gets there: nothing between is_query() == true and handle_query
    for (b, tgt) in sorted(e_q):
        if tgt not in [x[0] for x in hq] and any(f.term(r)["k"] == "return" for r in f.reachable(tgt, removed_blocks=[x[0] for x in hq])):
            ok3 = False
    ctx.ob(pre + ".dispatch-by-qr-bit", f.name, ok3, f.loc(hq[0][0]), "handle_query under is_query(), handle_response otherwise")


def response_tail_always_runs(ctx, P, pre, want=("resolve", "addresses")):
    """after the caching loop handle_response always (a) reports the address changes to the hostname resolvers and (b) hands
    the updated instances to resolve_updated_instances; only an `is_empty()` test on a local collection may skip them"""
    f = P.one("Zeroconf::handle_response")
    calls = calls_to(f, "DnsCache::add_or_update")
    if not calls:
        ctx.require(False, pre + ".anchor", f.name + "|add_or_update", f.loc(), "0 calls")
        return
    head = lift_to_inner_loop(f, calls[0][0])
    def empties(*fields):
        return guard_edges(P, f, lambda atom, outcome, bb: atom[0] == "call" and method(strip_generics(atom[1])) == "is_empty" and outcome is True and
                           (not any(x[0] == "field" and (x[3] or "").endswith("Zeroconf") for x in walk(atom)) or
                            any(expr_mentions_field(atom, fld, "Zeroconf") for fld in fields)))
    loops = f.loops()
    skip = empties("service_queriers")      # nothing to resolve for when nobody browses
    if "resolve" in want:
        rs = calls_to(f, "Zeroconf::resolve_updated_instances")
        ok = len(rs) >= 1
        if ok:
            reach = f.reachable(head, removed_blocks=[b for b, _t in rs], removed_edges=skip)
            ok = not any(f.term(r)["k"] == "return" for r in reach)
        ctx.ob(pre + ".updates-always-resolved", f.name, ok, f.loc(rs[0][0]) if rs else f.loc(),
               "every path from the caching loop to the end of handle_response calls resolve_updated_instances" if ok else
               "handle_response can end after the caching loop without resolve_updated_instances: records that completed an instance are cached "
               "but no ServiceResolved follows")
    skip = empties("hostname_resolvers")
    if "addresses" in want:
        hs = [b for b, t in f.calls() if name_matches(cname(t), "service_daemon::call_hostname_resolution_listener")]
        ok = len(hs) >= 1
        if ok:
            hh = [h for h, body in loops.items() if hs[0] in body and head not in body]
            ok = bool(hh)
            if ok:
                outer = max(hh, key=lambda h: len(loops[h]))
                reach = f.reachable(head, removed_blocks=[outer], removed_edges=skip)
                ok = not any(f.term(r)["k"] == "return" for r in reach)
        ctx.ob(pre + ".address-changes-always-reported", f.name, ok, f.loc(hs[0]) if hs else f.loc(),
               "every path from the caching loop to the end of handle_response walks the address changes for the hostname resolvers" if ok else
               "handle_response can end after the caching loop without the walk that reports new addresses to the hostname resolvers")


def collected_answers_are_sent(ctx, P, pre):
    """what the question loop of handle_query collected is sent: after the loop the only way around send_dns_outgoing is
    `answers_count() == 0`"""
    f = P.one("Zeroconf::handle_query")
    sites = calls_to(f, "DnsOutgoing::add_answer_with_additionals")
    snd = calls_to(f, "service_daemon::send_dns_outgoing")
    ctx.require(len(sites) >= 1 and len(snd) >= 1, pre + ".anchor", f.name + "|collect + send", f.loc(), "%d/%d" % (len(sites), len(snd)))
    if not sites or not snd:
        return
    loops = f.loops()
    heads = [h for h, body in loops.items() if sites[0][0] in body]
    head = max(heads, key=lambda h: len(loops[h]))

    def empty(atom, outcome, bb):
        if not any(x[0] == "call" and name_matches(strip_generics(x[1]), "DnsOutgoing::answers_count") for x in walk(atom)):
            return False
        if atom[0] == "binop" and atom[1] == "Gt" and const_value(atom[3]) == 0 and outcome is False:
            return True
        if atom[0] == "binop" and atom[1] == "Eq" and const_value(atom[3]) == 0 and outcome is True:
            return True
        return False
    skip = guard_edges(P, f, empty)
    # leave the loop (successors of the head outside its body), then look for a return around the send
    outs = sorted({s_ for b in loops[head] for s_ in f.succs(b) if s_ not in loops[head]})
    bad = []
    for o in outs:
        reach = f.reachable(o, removed_blocks=[b for b, _t in snd], removed_edges=skip)
        if any(f.term(r)["k"] == "return" for r in reach):
            bad.append(f.loc(o))
    ctx.ob(pre + ".collected-answers-are-sent", f.name, bool(outs) and bool(skip) and not bad, f.loc(snd[0][0]),
           "after the question loop only answers_count() == 0 goes around send_dns_outgoing" if (outs and skip and not bad) else
           "after the question loop handle_query can return without sending what it collected, for a reason other than an empty answer section")


def probes_driven_every_iteration(ctx, P, pre):
    """probing is time-driven: every turn of the run loop calls probing_handler (which sends the probes that are due, moves
    finished probes to active and announces)"""
    run = P.one("Zeroconf::run")
    loops = run.loops()
    main = max(loops, key=lambda h: len(loops[h]))
    cs = calls_to(run, "Zeroconf::probing_handler")
    ok = len(cs) >= 1 and loop_every_iteration_passes(run, main, loops[main], [b for b, _t in cs])
    ctx.ob(pre + ".probes-driven-every-iteration", run.name, ok, run.loc(cs[0][0]) if cs else run.loc(),
           "every iteration of the run loop calls probing_handler" if ok else
           "an iteration of the run loop can skip probing_handler: probes that are due wait for the next wake-up")
