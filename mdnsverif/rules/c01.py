"""C01 — Decoding any datagram is safe, terminating and bounded."""
from .lib import *
from . import e3
from ..absint import key_str
from ..linarith import Lin
from ..termination import _int_keys

EXPLANATION = (
    "Abstract interpretation of the decoder's MIR (linear constraints over symbolic lengths and offsets, no execution, no "
    "solver): every panic site (bounds and slice-range checks, arithmetic overflow asserts, unwrap/expect, explicit panics) "
    "in every function reachable from DnsIncoming::new is proved unreachable for ALL byte strings, under the declared and "
    "inductively checked struct invariant offset <= len(data); every loop in that scope gets a termination verdict "
    "(finite std iterator, or a synthesised lexicographic ranking — read_name: the pointer bound strictly decreases, then "
    "the offset strictly increases below len(data)); the scope's call graph is acyclic; #![forbid(unsafe_code)] holds. "
    "Path rules: handle_read truncates the receive buffer (created with MAX_MSG_ABSOLUTE bytes) to the size recv returned "
    "before decoding; in the record loop the cursor equals RDATA start + RDLENGTH at every back edge and RDLENGTH is "
    "checked against the datagram before any RDATA read."
    " Memory: every explicit reservation in that scope (with_capacity / reserve / vec![x; n] / resize / repeat) asks for at most 4*len(a sequence already held)+64 elements or a constant <= 9000 — never for a count merely read from the header."
    " (f) No length-changing string function (to_lowercase / to_uppercase / replace) is applied anywhere in the decoder's scope: names are handed on as read.")
UNDECIDED = ["time and memory *linear* in the datagram size (the ranking gives a quadratic bound only)",
             "the bound on the decoded name's length", "that decoded values equal the bytes (round trip: C02)"]
ASSUMPTIONS = ["allocation failure is out of scope", "std functions behave as documented (library model table in mdnsverif/libmodel.py)",
               "the system clock is after 1970 and below 2^62 ms (current_time_millis)"]
LEVEL = "other"

# sites the engine cannot prove and that do not depend on the datagram: exact keys, one reason each
JUSTIFIED = {
    "C01a.F1.panic-site|current_time_millis|unwrap|SystemTime::now() .duration_since(SystemTime::UNIX_EPOCH) .expect(\"fai":
        "fails only when the system clock is set before 1970: a property of the environment, not of the datagram (stated assumption)",
}

FLOOR_FUNCS = 25
FLOOR_SITES_A = 40
FLOOR_LOOPS = 3      # read_name, read_questions, read_rr_records (the Debug-impl loops are only reachable with logging on)


def scope_of(P):
    new = P.one("dns_parser::DnsIncoming::new")
    sc = {n for n in P.reachable_from([new.name]) if n in P.fns and not P.fns[n].in_tests()}
    return new, sc


def clause_abc(ctx, P):
    new, sc = scope_of(P)
    hr = P.one("Zeroconf::handle_read")
    ctx.floor("C01.scope", len(sc), FLOOR_FUNCS, "functions reachable from DnsIncoming::new")
    A, eff = e3.run_engine(P, [new.name, hr.name], scope=sc | {hr.name}, invariants=[e3.DECODER_INVARIANT])
    e3.check_invariant_support(ctx, P, "C01a.invariant-support", eff)
    ctx.ob("C01a.engine-converged", "fixpoint reached in every function", not A.nonconverged, "", "non-converged: %s" % sorted(A.nonconverged))
    n = e3.emit_sites(ctx, P, A, "C01a.F1.panic-site", sc | {hr.name}, classes=("A", "B"), justify=JUSTIFIED)
    ctx.floor("C01a.F1", n.get("A", 0), FLOOR_SITES_A, "class-A panic sites (bounds/index/unwrap/panic) in the decoder scope")
    # memory: every explicit reservation (with_capacity / reserve / vec![x; n] / resize / repeat) asks for a number of
    # elements bounded by data already held, not by a count read from the datagram
    nm_ = e3.emit_sites(ctx, P, A, "C01c.F1.allocation-bounded", sc | {hr.name}, classes=("M",))
    ctx.floor("C01c.F1", nm_.get("M", 0), 1, "explicit reservations in the decoder scope (the receive buffer; with logging also the hex dump buffers)")
    # completeness yardstick: every syntactic panic construct of a visited block is a recorded site
    missing = []
    total = 0
    for name in sorted(sc | {hr.name}):
        fn = P.fns[name]
        for (b, what) in e3.syntactic_sites(P, fn):
            total += 1
            if (fn.name, b) in A.visited and not any(k[0] == fn.name and k[1] == b for k in A.sites):
                missing.append("%s bb%d %s" % (fn.short, b, what))
    ctx.ob("C01a.F1.completeness", "every panic-capable MIR construct in a reachable block is an analysed site", not missing, "",
           "%d constructs; unanalysed: %s" % (total, missing[:5] or "none"))
    # b. termination
    counts = e3.emit_loops(ctx, P, A, "C01b.F2.loop-terminates", sc | {hr.name})
    ctx.floor("C01b.F2", sum(counts.values()), FLOOR_LOOPS, "loops in the decoder scope")
    e3.recursion_free(ctx, P, "C01b.F2.no-recursion", sc)
    ctx.extra.setdefault("e3", {})[ctx.config] = {
        "functions_in_scope": len(sc) + 1, "blocks_visited": len(A.visited), "sites": n, "loops": counts,
        "standalone_contexts": sorted(P.fns[x].short for x in A.analyzed_standalone if x in P.fns)[:60],
        "calls_left_out_of_scope": sorted(P.fns[x].short for x in A.out_of_scope_calls if x in P.fns)[:40]}
    return A, sc


def clause_d(ctx, P):
    lvl = P.facts.get("unsafe_code_level")
    ctx.ob("C01d.forbid-unsafe", "crate", lvl in ("forbid", "Forbid"), "src/lib.rs", "lint level of unsafe_code at the crate root: %s" % lvl)
    hr = P.one("Zeroconf::handle_read")
    tr = tracer(P, hr)
    news = calls_to(hr, "DnsIncoming::new")
    ctx.require(len(news) >= 1, "C01d.anchor", "handle_read calls DnsIncoming::new", hr.loc(), "%d call(s)" % len(news))
    recvs = [(b, t) for b, t in hr.calls() if method(cname(t)) == "recv"]
    ctx.require(len(recvs) == 1, "C01d.anchor", "handle_read has one recv call", hr.loc(), "%d" % len(recvs))
    dom = hr.dominators()
    for (b, t) in news:
        e = arg_expr(tr, hr, b, t, 0)
        # creation: vec![0; MAX_MSG_ABSOLUTE]
        created = [x for x in walk(e) if x[0] == "call" and "from_elem" in x[1]]
        okc = False
        cdesc = "?"
        for x in created:
            cv = fold(x[2][1]) if len(x[2]) > 1 and x[2][1] is not None else None
            cdesc = show(x[2][1]) if len(x[2]) > 1 else "?"
            if isinstance(cv, int) and 512 <= cv <= 9000:
                okc = True
        ctx.ob("C01d.buffer-capped", "handle_read|DnsIncoming::new arg0", okc, hr.loc(b),
               "the decoded buffer is created by vec![0; N] with constant N = %s (512 <= N <= 9000)" % cdesc)
        # truncate(buf, sz) dominating the decode, sz from the recv result
        ok = False
        det = "no Vec::truncate on the buffer dominates the decode"
        for (tb, tt) in hr.calls():
            if method(cname(tt)) != "truncate" or tb not in dom[b]:
                continue
            r = arg_expr(tr, hr, tb, tt, 0)
            sz = arg_expr(tr, hr, tb, tt, 1)
            same = any(x[0] == "call" and "from_elem" in x[1] for x in walk(r))
            from_recv = any(x[0] == "call" and method(x[1]) == "recv" for x in walk(sz))
            if same and from_recv and recvs and recvs[0][0] in dom[tb]:
                ok = True
                det = "buf.truncate(%s) at %s dominates the decode and follows recv" % (show(sz)[:60], hr.loc(tb))
            elif same:
                det = "truncate length %s does not come from the recv result" % show(sz)[:80]
        ctx.ob("C01d.truncate-to-received", "handle_read|DnsIncoming::new arg0", ok, hr.loc(b), det)


def clause_e(ctx, P, A):
    rr = P.one("DnsIncoming::read_rr_records")
    loops = rr.loops()
    ctx.require(len(loops) >= 1, "C01e.anchor", "read_rr_records has a record loop", rr.loc(), "%d loops" % len(loops))
    if not loops:
        return
    head = max(loops, key=lambda h: len(loops[h]))
    # the end of the RDATA: the user variable defined as `self.offset + <u16 read from the record header>`
    # (identified by its definition, not by its name)
    tr0 = tracer(P, rr)
    nxt = []
    for (b0, i0, s0) in rr.assigns():
        l0 = s0["p"]["l"]
        if s0["p"]["proj"] or not rr.locals[l0].get("name") or l0 in nxt:
            continue
        e0 = tr0.rvalue(s0["r"], (b0, i0))
        roots = strip(e0)
        def _is_add(x):
            return x[0] in ("binop", "checked") and str(x[1]).startswith("Add") or x[0] == "field" and x[1][0] in ("binop", "checked") and str(x[1][1]).startswith("Add")
        if not roots or not all(_is_add(x) for x in roots):
            continue
        if any(x[0] in ("binop", "checked") and str(x[1]).startswith("Add") for x in walk(e0)) and expr_mentions_field(e0, "offset") and \
                any(x[0] == "call" and "u16_from_be_slice" in x[1] for x in walk(e0)) and not any(x[0] == "call" and "u16_from_be_slice" not in x[1] and x[1].startswith("dns_parser::") for x in walk(e0)):
            nxt.append(l0)
    ctx.require(len(nxt) == 1, "C01e.anchor", "read_rr_records has one variable defined as self.offset + RDLENGTH", rr.loc(), "%s" % [rr.local_name(l) for l in nxt])
    if len(nxt) != 1:
        return
    frames = sorted(fr for (n, fr) in A.loop_states if n == rr.name)
    ctx.require(bool(frames), "C01e.anchor", "read_rr_records analysed", rr.loc(), "")
    for fr in frames:
        instate, _ = A.loop_states[(rr.name, fr)]
        if head not in instate:
            continue
        sh = instate[head][0]
        pinned = set()
        for H in _int_keys(sh).values():
            pinned.update(H.syms())
        A.pinned = pinned
        A.keep_dead = True
        A.stack.append(rr.short)
        try:
            back = A.analyze_region(rr, fr, head, sh.copy(), loops[head])
        finally:
            A.stack.pop()
            A.pinned = set()
            A.keep_dead = False
        bad = []
        proved = 0
        for (src, s) in back:
            vals = _int_keys(s)
            nv = vals.get((fr, nxt[0], ()))
            off = [v for k, v in vals.items() if k[2] == ("offset",)]
            ln = None
            for k, v in s.env.items():
                if k[2] == ("data",) and isinstance(v, tuple) and v[0] == "seq":
                    ln = v[1]
            if nv is None or not off:
                bad.append("bb%d: next_offset/offset not tracked" % src)
                continue
            o = off[0]
            if not (s.store.entails(o.sub(nv)) and s.store.entails(nv.sub(o))):
                bad.append("bb%d (lines %s): offset = %s, next_offset = %s" % (src, sorted({rr.term_line(b) for b, _ in s.trail})[-4:], o, nv))
                continue
            if ln is not None and not s.store.entails(nv.sub(ln)):
                bad.append("bb%d: next_offset <= len(data) not known" % src)
                continue
            proved += 1
        ctx.ob("C01e.rdata-framing", "read_rr_records|every back edge of the record loop has offset == next_offset <= len(data)",
               not bad and proved > 0, rr.loc(head),
               "%d back-edge path(s) proved" % proved if not bad else "; ".join(bad[:3]))
    # next_offset is RDATA start + RDLENGTH, with RDLENGTH read from the record header
    tr = tracer(P, rr)
    defs = [(b, i, s) for b, i, s in rr.assigns() if s["p"]["l"] == nxt[0] and not s["p"]["proj"]]
    ok = False
    det = "no definition"
    for (b, i, s) in defs:
        e = tr.rvalue(s["r"], (b, i))
        det = show(e)[:160]
        has_off = expr_mentions_field(e, "offset")
        has_len = any(x[0] == "call" and "u16_from_be_slice" in x[1] for x in walk(e))
        ok = has_off and has_len
    ctx.ob("C01e.next-offset-definition", "read_rr_records|next_offset = self.offset + RDLENGTH", ok, rr.loc(), det)


def run(ctx, P):
    from . import r4
    r4.decoded_names_are_verbatim(ctx, P, "C01f")
    R = P      # (P.raw is the program as extracted; the numeric engine also runs on the normalised one)
    R.repo = P.repo
    A, sc = clause_abc(ctx, R)
    clause_d(ctx, P)
    clause_e(ctx, R, A)
