"""C20 — State stays bounded: expired data is forgotten, unrequested data not kept."""
from .lib import *
from . import c12
from .f9 import check_restart_replaces

EXPLANATION = (
    "Static rules: (a) F11 per-map sweep — for each map of DnsCache (ptr, srv, txt, addr, nsec, subtype) a function "
    "that runs on every iteration of the run loop removes expired entries of that map by iterating that map itself "
    "(not through another map's contents); (b) stop-browse (remove_service_type) and interface removal "
    "(remove_records_on_intf) purge every map; (c) unsolicited data is not stored: in add_or_update no map entry is "
    "created before the `is_for_us` decision, and handle_response derives is_for_us from membership in the active "
    "searches or accept_unsolicited; (d) passed timers are popped every iteration and there is one rerun chain per "
    "search (shared with C12b / C19c); (e) the metrics report the sizes of exactly the six maps and of the timer heap. "
    "Decides these structural clauses, not 'proportional' as a quantity."
    " (f) The is_for_us scan is left early only on a positive membership test, and wake-up times are armed only for records the cache kept."
    " (j) stop_browse removes every record kind under the instance name. (k) The subtype reverse map is pruned on every sweep unless it is itself empty."
    " (l) remove_service_type skips no instance that the stopped type's PTR records list (only a record that is not a DnsPointer).")
UNDECIDED = ["'proportional to what active searches need' as a quantity",
             "timer growth caused by repeated announcements of long-TTL records (two pushes per record per packet until they pass)"]

MAPS = ["ptr", "srv", "txt", "addr", "nsec", "subtype"]
SWEEP_METHODS = ("retain", "iter_mut", "values_mut", "drain", "extract_if", "clear")
REMOVE_METHODS = SWEEP_METHODS + ("remove", "remove_entry")


def _map_calls(P, fn, methods, direct_only=True):
    """{map: [(fn, bb, method)]} HashMap calls on DnsCache fields in fn and its closures"""
    out = {}
    fns = [fn] + [P.fns[c] for c in _all_closures(P, fn.name)]
    for f in fns:
        tr = tracer(P, f)
        for b, t in f.calls():
            n = cname(t)
            if not ("HashMap" in n or "hash_map" in n) or method(n) not in methods or not t["args"]:
                continue
            recv = tr.operand(t["args"][0], endpos(f, b))
            direct = False
            for a in strip(recv):
                if a[0] == "field" and (a[3] or "").endswith("DnsCache") and a[2] in MAPS:
                    base = a[1]
                    while base[0] in ("deref", "ref"):
                        base = base[1]
                    if base[0] == "param" or (base[0] == "field" and isinstance(base[2], int)):
                        out.setdefault(a[2], []).append((f, b, method(n)))
                        direct = True
            if not direct and any(x[0] == "agg" and x[1] == "array" for x in walk(recv)):
                # one statement applied to several maps in turn: `for table in [&mut self.srv, &mut self.txt, ..] { table.retain(..) }`
                for x in walk(recv):
                    if x[0] == "agg" and x[1] == "array":
                        for y in walk(x):
                            if y[0] == "field" and (y[3] or "").endswith("DnsCache") and y[2] in MAPS:
                                out.setdefault(y[2], []).append((f, b, method(n)))
    return out


def _all_closures(P, name):
    out = []
    st = list(P.closures_of.get(name, []))
    while st:
        c = st.pop()
        out.append(c)
        st.extend(P.closures_of.get(c, []))
    return out


def clause_a(ctx, P):
    run = P.one("Zeroconf::run")
    loops = run.loops()
    main = max(loops, key=lambda h: len(loops[h]))
    per_iter = []
    for b, t in run.calls():
        for tg in P.call_targets(t):
            if tg.startswith("dns_cache::DnsCache::") and b in loops[main] and loop_every_iteration_passes(run, main, loops[main], [b]):
                per_iter.append(tg)
    ctx.floor("C20a.per-iteration-cache-calls", len(per_iter), 2, "DnsCache methods called on every iteration")
    swept = {}
    for name in per_iter:
        f = P.fns[name]
        if not (name.endswith("evict_expired_services") or name.endswith("evict_expired_addr") or "evict" in name or "sweep" in name):
            continue
        reach = [g for g in P.reachable_from([name]) if g.startswith("dns_cache::")]
        for g in reach:
            gf = P.fns.get(g)
            if gf is None or gf.is_closure:
                continue
            for m, sites in _map_calls(P, gf, SWEEP_METHODS).items():
                for (sf, sb, meth) in sites:
                    # the sweep must test expiry (is_expired) in its body / closure
                    scope = [gf] + [P.fns[c] for c in _all_closures(P, gf.name)]
                    tests = any(name_matches(cname(tt), "DnsRecord::is_expired") for s in scope for bb, tt in s.calls())
                    if tests or m == "subtype":
                        swept.setdefault(m, []).append("%s.%s" % (gf.short, meth))
    for m in MAPS:
        ok = m in swept
        ctx.ob("C20a.F11.map-swept-by-ttl", "DnsCache.%s" % m, ok, "",
               ("DnsCache.%s is swept on every loop iteration by iterating the map itself: %s" % (m, swept.get(m))) if ok else
               ("no per-iteration function sweeps DnsCache.%s directly: entries are only visited through the contents of another map "
                "(or never), so records that arrive without that path stay cached for ever" % m))


def clause_b(ctx, P):
    for fname, want, why in (("DnsCache::remove_service_type", MAPS, "stop-browse"), ("DnsCache::remove_records_on_intf", MAPS, "interface removal")):
        f = P.one(fname)
        got = _map_calls(P, f, REMOVE_METHODS)
        for m in want:
            ok = m in got
            ctx.ob("C20b.F11.purge-covers-map", "%s|%s" % (f.name, m), ok, f.loc(),
                   ("%s purges DnsCache.%s (%s)" % (f.short, m, sorted({x[2] for x in got[m]}))) if ok else
                   ("%s (%s) never removes anything from DnsCache.%s" % (f.short, why, m)))



def _false_sources(h, l, pos, want=False, depth=0, seen=None):
    """([(bb, idx)] of the constant assignments that make local l == `want` at pos, all definitions understood?)"""
    seen = seen if seen is not None else set()
    out, known = [], True
    if depth > 8:
        return out, False
    for (db, di, kind, payload) in h.reaching_defs(l, pos):
        if (db, di, l, want) in seen:
            continue
        seen.add((db, di, l, want))
        if kind != "assign":
            known = False
            continue
        r = payload
        if r["k"] == "use" and r["a"]["k"] == "const":
            if bool(r["a"].get("val")) is want:
                out.append((db, di))
        elif r["k"] == "use" and r["a"]["k"] in ("copy", "move") and not r["a"]["p"]["proj"]:
            o2, k2 = _false_sources(h, r["a"]["p"]["l"], (db, di), want, depth + 1, seen)
            out += o2
            known = known and k2
        elif r["k"] == "unop" and r.get("op") == "Not" and r["a"]["k"] in ("copy", "move") and not r["a"]["p"]["proj"]:
            o2, k2 = _false_sources(h, r["a"]["p"]["l"], (db, di), not want, depth + 1, seen)
            out += o2
            known = known and k2
        else:
            known = False
    return out, known


def is_for_us_rule(ctx, P, pre):
    """a received record set is kept iff some PTR in it is for a browsed type: the flag handed to the cache
    becomes false only under `!service_queriers.contains_key(..)`"""
    # is_for_us origin in handle_response
    h = P.one("Zeroconf::handle_response")
    htr = tracer(P, h)
    aou = calls_to(h, "DnsCache::add_or_update")
    if aou:
        b, t = aou[0]
        a = t["args"][4]
        l, pos = a["p"]["l"], endpos(h, b)
        # follow copies to the named flag
        for _ in range(6):
            ds = h.reaching_defs(l, pos)
            if len(ds) == 1 and ds[0][2] == "assign" and ds[0][3]["k"] == "use" and ds[0][3]["a"]["k"] in ("copy", "move") and not ds[0][3]["a"]["p"]["proj"]:
                pos = (ds[0][0], ds[0][1])
                l = ds[0][3]["a"]["p"]["l"]
            else:
                break
        # every constant from which the flag can end up false (through copies, `!flag`, joins; whatever the variables are
        # called and wherever the computation lives after inlining)
        falses, known = _false_sources(h, a["p"]["l"], endpos(h, b))
        ok = known and bool(falses)
        ctx.ob(pre + ".is-for-us-passed", h.name, ok, h.loc(b), "add_or_update receives a flag computed in the handler from constants (%d place(s) can make it false)" % len(falses))
        # every `false` source is under !service_queriers.contains_key; membership tests exist for both maps; accept_unsolicited forces true
        e_nq = guard_edges(P, h, lambda atom, outcome, bb: atom[0] == "call" and name_matches(strip_generics(atom[1]), "HashMap::contains_key") and outcome is False
                           and expr_mentions_field(atom, "service_queriers", "Zeroconf"))
        okf = bool(falses) and all(must_pass_edges(h, bb, e_nq) for (bb, i) in falses)
        ctx.ob(pre + ".not-for-us-only-unbrowsed", h.name, okf, h.loc(), "is_for_us becomes false only for a PTR whose type is not being browsed")
        return h, l
    return None


def clause_c(ctx, P):
    f = P.one("DnsCache::add_or_update")
    tr = tracer(P, f)
    idx = param_index(f, "is_for_us", "bool")
    ctx.require(idx is not None, "C20c.anchor", f.name, f.loc(), "parameter is_for_us found")
    if idx is None:
        return
    e_us = guard_edges(P, f, lambda atom, outcome, bb: strip(atom) == {("param", idx)} and outcome is True)
    # "known name" tests: a lookup that found a non-empty entry also justifies touching the map
    e_known = guard_edges(P, f, lambda atom, outcome, bb: (atom[0] == "call" and name_matches(strip_generics(atom[1]), "HashMap::contains_key") and outcome is True)
                          or (atom[0] == "variant" and has_call(atom[1], "HashMap::get", "HashMap::get_mut") and outcome == frozenset(["Some"]))
                          or (atom[0] == "call" and name_matches(strip_generics(atom[1]), "Vec::is_empty", "Option::is_some_and", "Option::map_or") and has_call(atom, "HashMap::get")))
    creating = _map_calls(P, f, ("entry", "insert"))
    n = 0
    for m, sites in sorted(creating.items()):
        for k, (sf, sb, meth) in enumerate(sites):
            if sf is not f:
                continue
            n += 1
            ok = guarded(P, f, sb, e_us) or guarded(P, f, sb, e_us | e_known)
            ctx.ob("C20c.no-entry-before-decision", "%s|%s.%s#%d" % (f.name, m, meth, k + 1), ok, f.loc(sb),
                   ("DnsCache.%s.%s() is reached only when the record is for us or the name is already cached" % (m, meth)) if ok else
                   ("DnsCache.%s.%s() creates a key before the `!is_for_us` early return: every foreign name leaves an empty entry behind, "
                    "so the key sets grow with unrelated traffic while the metrics (sums of lengths) stay flat" % (m, meth)))
    ctx.floor("C20c.no-entry-before-decision", n, 6, "map-creating calls in add_or_update")
    # the rejecting return exists: None under record_vec.is_empty() && !is_for_us
    e_not = guard_edges(P, f, lambda atom, outcome, bb: strip(atom) == {("param", idx)} and outcome is False)
    nones = [b for b, i, s in aggregates(f, "option::Option", "None") if s["p"]["l"] == 0]
    ok = any(must_pass_edges(f, b, e_not) for b in nones)
    ctx.ob("C20c.rejecting-return", f.name, ok, f.loc(), "add_or_update returns None for a record that is not for us and whose name is unknown")
    r = is_for_us_rule(ctx, P, "C20c")
    if r is not None:
        h, l = r
        mem = {fld for fld in ("service_queriers", "hostname_resolvers") for bb, tt in h.calls()
               if name_matches(cname(tt), "HashMap::contains_key") and recv_mentions(P, h, bb, tt, fld, "Zeroconf")}
        ctx.ob("C20c.membership-tests", h.name, mem == {"service_queriers", "hostname_resolvers"}, h.loc(), "is_for_us consults both search maps (%s)" % sorted(mem))
        e_acc = guard_edges(P, h, lambda atom, outcome, bb: atom[0] == "field" and atom[2] == "accept_unsolicited" and outcome is True)
        trues = [(bb, i) for bb, i, s in h.assigns() if not s["p"]["proj"] and s["p"]["l"] == l and s["r"]["k"] == "use" and s["r"]["a"].get("val") in (1, True)]
        oka = any(must_pass_edges(h, bb, e_acc) for (bb, i) in trues)
        ctx.ob("C20c.accept-unsolicited", h.name, oka, h.loc(), "accept_unsolicited forces is_for_us = true")
    # the subtype reverse map is only fed for records that are for us
    sub = _map_calls(P, f, ("insert", "entry")).get("subtype", [])       # insert, or the entry API
    ok = bool(sub) and all(guarded(P, f, sb, e_us) for (sf, sb, meth) in sub if sf is f)
    ctx.ob("C20c.subtype-only-for-us", f.name, ok, f.loc(), "the subtype reverse map is written only when is_for_us")


def clause_d(ctx, P):
    c12.clause_b(ctx, P)
    check_restart_replaces(ctx, P, "Zeroconf::exec_command_browse", "Browse", rule="C20d")
    check_restart_replaces(ctx, P, "Zeroconf::exec_command_resolve_hostname", "ResolveHostname", rule="C20d")


def clause_e(ctx, P):
    f = P.one("Zeroconf::exec_command_get_metrics")
    tr = tracer(P, f)
    want = {"ptr_count": "ptr", "srv_count": "srv", "addr_count": "addr", "txt_count": "txt", "nsec_count": "nsec", "subtype_count": "subtype"}
    called = {method(cname(t)) for b, t in f.calls() if cname(t).startswith("dns_cache::DnsCache::")}
    ctx.ob("C20e.metrics-cover-maps", f.name, set(want) <= called, f.loc(), "get_metrics reports %s" % sorted(called & set(want)))
    for g, fld in want.items():
        gf = P.one("DnsCache::" + g)
        gtr = tracer(P, gf)
        rs = [gtr.local(0, endpos(gf, rb)) for rb in gf.exits()]
        ok = all(expr_mentions_field(r, fld, "DnsCache") for r in rs) and not any(expr_mentions_field(r, o, "DnsCache") for r in rs for o in MAPS if o != fld)
        ctx.ob("C20e.count-reads-own-map", gf.name, ok, gf.loc(), "%s counts DnsCache.%s" % (g, fld))
    hl = [b for b, t in f.calls() if name_matches(cname(t), "BinaryHeap::len") and recv_mentions(P, f, b, t, "timers", "Zeroconf")]
    ctx.ob("C20e.metrics-timers", f.name, bool(hl), f.loc(), "get_metrics reports timers.len()")
    # each count is stored under its own counter
    pairs = {}
    for b, t in f.calls():
        if name_matches(cname(t), "Zeroconf::set_counter"):
            c = tr.operand(t["args"][1], endpos(f, b))
            v = tr.operand(t["args"][2], endpos(f, b))
            cv = [x[3] for x in strip(c) if x[0] == "agg"]
            src = [method(strip_generics(x[1])) for x in walk(v) if x[0] == "call" and strip_generics(x[1]).startswith("dns_cache::DnsCache::")]
            if cv and src:
                pairs[cv[0]] = src[0]
    exp = {"CachedPTR": "ptr_count", "CachedSRV": "srv_count", "CachedAddr": "addr_count", "CachedTxt": "txt_count", "CachedNSec": "nsec_count", "CachedSubtype": "subtype_count"}
    ctx.ob("C20e.counter-pairing", f.name, pairs == exp, f.loc(), "each cache counter is fed by its own count function: %s" % pairs)


def clause_f(ctx, P):
    """unrequested data is not kept: (1) the is_for_us scan of handle_response is left early only on a positive
    membership test (never on the initial assumption), (2) wake-up times are armed only for records the cache kept"""
    h = P.one("Zeroconf::handle_response")
    tr = tracer(P, h)
    loops = h.loops()
    # (1) the scan loop: the loop that contains the membership tests on service_queriers
    mem = [b for b, t in h.calls() if name_matches(cname(t), "HashMap::contains_key") and
           (recv_mentions(P, h, b, t, "service_queriers", "Zeroconf") or recv_mentions(P, h, b, t, "hostname_resolvers", "Zeroconf"))]
    hr = [b for b in mem if recv_mentions(P, h, b, h.term(b), "hostname_resolvers", "Zeroconf")]
    heads = [hd for hd, body in loops.items() if hr and all(b in body for b in hr) and any(b in body for b in mem if b not in hr)]
    ctx.require(bool(heads), "C20f.anchor", h.name + "|is_for_us scan", h.loc(), "loop with the membership tests found")
    if heads:
        hd = min(heads, key=lambda x: len(loops[x]))
        body = loops[hd]
        pos = guard_edges(P, h, lambda atom, outcome, bb: atom[0] == "call" and name_matches(strip_generics(atom[1]), "HashMap::contains_key") and outcome is True)
        none_exit = guard_edges(P, h, lambda atom, outcome, bb: bb in body and atom[0] == "variant" and outcome == frozenset(["None"]) and has_call(atom[1], "::next"))
        exits = [(b, s) for b in body for s in h.succs(b) if s not in body and (b, s) not in none_exit and h.term(s)["k"] not in ("resume", "unreachable")
                 and not _is_cleanup_edge(h, b, s)]
        bad = []
        for (b, s) in exits:
            # the block that leaves the loop must only be reachable through a positive membership test
            if (b, s) in pos:
                continue
            if not (pos and must_pass_edges(h, b, pos)):
                bad.append(h.loc(b))
        ctx.ob("C20f.scan-left-only-on-a-match", h.name, bool(exits) and not bad, h.loc(hd),
               "%d early exit(s) of the is_for_us scan, each behind contains_key(..) == true" % len(exits) if exits and not bad else
               "the is_for_us scan can be left early at %s without a positive membership test: the initial `true` then stands and the whole "
               "message (PTRs of types nobody browses included) is cached" % (bad[:3] or "?"))
    # (2) pushes onto the timer list handed to add_or_update
    aou = calls_to(h, "DnsCache::add_or_update")
    if aou:
        cb, ct = aou[0]
        te = tr.operand(ct["args"][3], endpos(h, cb))
        news = [x for x in strip(te) if x[0] == "call" and strip_generics(x[1]).endswith("Vec::new")]
        some_edges = guard_edges(P, h, lambda atom, outcome, bb: atom[0] == "variant" and outcome == frozenset(["Some"]) and
                                 any(x[0] == "call" and x[3] == (h.name, cb) for x in walk(atom[1])))
        n = 0
        for b, t in h.calls():
            if not name_matches(cname(t), "Vec::push") or not news:
                continue
            recv = tr.operand(t["args"][0], endpos(h, b))
            if not any(x == news[0] for x in walk(recv)):
                continue
            n += 1
            ok = bool(some_edges) and must_pass_edges(h, b, some_edges)
            ctx.ob("C20f.timer-only-for-cached-record", "%s|timers.push#%d" % (h.name, n), ok, h.loc(b),
                   "a wake-up time is armed only under Some(..) from add_or_update" if ok else
                   "a wake-up time is pushed for a record whether or not the cache kept it: every unrelated announcement leaves timers "
                   "behind for the sender's TTL")
        ctx.floor("C20f.timer-only-for-cached-record", n, 2, "pushes onto the timer list in handle_response")


def _is_cleanup_edge(fn, b, s):
    t = fn.term(b)
    return t["k"] in ("call", "drop", "assert") and t.get("unwind") == s


def run(ctx, P):
    from . import r2
    r2.expiry_only_brought_forward(ctx, P, "C20g")
    r2.verify_chain_is_finite(ctx, P, "C20h")
    r2.followup_chain_not_restarted(ctx, P, "C20i")
    r2.stop_forgets_every_record_kind(ctx, P, "C20j")
    r2.subtype_map_pruned_on_every_sweep(ctx, P, "C20k")
    from . import r4
    r4.stop_forgets_every_listed_instance(ctx, P, "C20l")
    clause_f(ctx, P)
    clause_a(ctx, P)
    clause_b(ctx, P)
    clause_c(ctx, P)
    clause_d(ctx, P)
    clause_e(ctx, P)
