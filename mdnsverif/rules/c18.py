"""C18 — Each interface is its own link; nothing leaks or outlives its removal."""
from .lib import *
from . import f4
from .f10 import check_consumed
from .c20 import _map_calls, MAPS, REMOVE_METHODS

EXPLANATION = (
    "Static rules: (a) F4 address provenance (only subnet-filtered addresses enter address records) plus same-interface: "
    "in every builder the interface given to get_addrs_on_my_intf_* is the interface the packet is sent on, and a "
    "builder with no matching address sends nothing; (b) per-interface state: the receive path indexes dns_registry_map "
    "and my_intfs with the packet's if_index; (c) packets for a disabled IP family are dropped before decoding; "
    "(d) interface gone ⇒ remove_records_on_intf purges every cache map and its result reaches both notifications (F10), "
    "del_interface_addr drops cached addresses with BOTH when the interface disappears and with the vanished family "
    "otherwise; (e) apply_intf_selections and selected_intfs are siblings (same front-to-back overwrite loop), "
    "enable/disable append to if_selections, check_ip_changes ends with apply_intf_selections on the fresh list; "
    "(f) automatic addressing: insert_ipaddr / remove_ipaddr only under is_addr_auto().  Decides these mechanisms, not "
    "behaviour over topologies and event sequences."
    " (g) Inside the arm taken for one IP family no accessor of the other family is consulted. (h) remove_records_on_intf reports an instance removed iff no remaining PTR names it (polarity of the search)."
    " (i) In add_interface every addr_auto service gets the new address: only is_addr_auto() == false skips insert_ipaddr."
    " (j) check_ip_changes removes what vanished before it adds what appeared.")
UNDECIDED = ["behaviour over topologies and event sequences (moving addresses, flapping interfaces)"]


def clause_a(ctx, P):
    n = f4.check_address_provenance(ctx, P, "C18a")
    ctx.floor("C18a.F4.address-sites", n, 5, "DnsAddress::new outside the decoder")
    # same interface: builder functions
    for bname, send_fn in (("service_daemon::prepare_announce", None), ("Zeroconf::unregister_service", "service_daemon::send_dns_outgoing"),
                           ("DnsOutgoing::add_answer_with_additionals", None)):
        f = P.one(bname)
        tr = tracer(P, f)
        intfs = set()
        for b, t in f.calls():
            if name_matches(cname(t), *f4.ADDR_SOURCES):
                intfs |= strip(tr.operand(t["args"][1], endpos(f, b)))
        ok = len(intfs) == 1
        tag = None
        for s in f4.builder_sites(P):
            if s.fn is f and s.kind == "ADDR":
                tag = strip(s.args["interface_id"])
                # interface_id = intf.into(): derives from the same interface
                ok = ok and any(any(y in intfs for y in walk(x)) for x in tag)
        if send_fn:
            for b, t in f.calls():
                if name_matches(cname(t), send_fn):
                    ok = ok and strip(tr.operand(t["args"][1], endpos(f, b))) == intfs
        ctx.ob("C18a.same-interface", f.name, ok, f.loc(), "addresses are filtered for, tagged with and sent on the same interface (%s)" % "; ".join(show(x) for x in intfs))
    # announce_service_on_intf passes the same intf to prepare_announce and to send_dns_outgoing
    a = P.one("service_daemon::announce_service_on_intf")
    atr = tracer(P, a)
    pa = calls_to(a, "service_daemon::prepare_announce")
    sd = calls_to(a, "service_daemon::send_dns_outgoing")
    ok = len(pa) == 1 and len(sd) == 1 and strip(atr.operand(pa[0][1]["args"][1], endpos(a, pa[0][0]))) == strip(atr.operand(sd[0][1]["args"][1], endpos(a, sd[0][0])))
    ctx.ob("C18a.announce-same-interface", a.name, ok, a.loc(), "the announcement is built for and sent on the same interface")
    # handle_query: addresses filtered for `intf`, which is my_intfs[if_index], and sent via that intf
    hq = P.one("Zeroconf::handle_query")
    htr = tracer(P, hq)
    intfs = set()
    for b, t in hq.calls():
        if name_matches(cname(t), *f4.ADDR_SOURCES, "DnsOutgoing::add_answer_with_additionals", "service_daemon::send_dns_outgoing"):
            i = {"add_answer_with_additionals": 3, "send_dns_outgoing": 1}.get(method(cname(t)), 1)
            intfs |= strip(htr.operand(t["args"][i], endpos(hq, b)))
    ok = len(intfs) == 1 and all(has_call(x, "HashMap::get") and expr_mentions_field(x, "my_intfs", "Zeroconf") for x in intfs)
    ctx.ob("C18a.query-same-interface", hq.name, ok, hq.loc(), "handle_query filters, answers and sends on my_intfs[if_index] only")
    # no address on the link => nothing sent
    for bname in ("service_daemon::prepare_announce", "Zeroconf::unregister_service"):
        f = P.one(bname)
        e_ne = guard_edges(P, f, lambda atom, outcome, bb: atom[0] == "call" and name_matches(strip_generics(atom[1]), "Vec::is_empty") and outcome is False and has_call(atom, *f4.ADDR_SOURCES))
        sites = [s for s in f4.builder_sites(P) if s.fn is f and s.kind == "ADDR"]
        snd = calls_to(f, "service_daemon::send_dns_outgoing")
        somes = [b for b, i, s in aggregates(f, "option::Option", "Some") if s["p"]["ty"].endswith("Option<dns_parser::DnsOutgoing>")]
        targets = [b for b, t in snd] + somes
        ok = bool(targets) and all(must_pass_edges(f, b, e_ne) for b in targets)
        ctx.ob("C18a.no-address-nothing-sent", f.name, ok, f.loc(), "without a subnet-matching address nothing is produced for this interface")


def clause_b(ctx, P):
    hr = P.one("Zeroconf::handle_read")
    tr = tracer(P, hr)
    # the if_index passed on comes from the pktinfo of the same recv
    for callee in ("Zeroconf::handle_query", "Zeroconf::handle_response"):
        cs = calls_to(hr, callee)
        ok = bool(cs)
        for b, t in cs:
            e = tr.operand(t["args"][2], endpos(hr, b))
            ok = ok and has_call(e, "recv") and any(x[0] == "field" and x[2] == "if_index" for x in walk(e))
        ctx.ob("C18b.if-index-from-packet", "%s|%s" % (hr.name, callee.split("::")[-1]), ok, hr.loc(), "%s receives the if_index of the packet's PKTINFO" % callee.split("::")[-1])
    for fname in ("Zeroconf::handle_query", "Zeroconf::conflict_handler", "Zeroconf::exec_command_register_resend"):
        f = P.one(fname)
        ftr = tracer(P, f)
        idx = param_index(f, "if_index", "u32")
        keys = set()
        n = 0
        for b, t in f.calls():
            if name_matches(cname(t), "HashMap::get", "HashMap::get_mut") and (recv_is_field(P, f, b, t, "dns_registry_map", "Zeroconf") or recv_is_field(P, f, b, t, "my_intfs", "Zeroconf")):
                n += 1
                keys |= strip(ftr.operand(t["args"][1], endpos(f, b)))
        ctx.ob("C18b.same-index-for-registry-and-intf", f.name, idx is not None and keys == {("param", idx)} and n >= 2, f.loc(),
               "dns_registry_map and my_intfs are both indexed with the handler's if_index (%d lookups)" % n)
    ph = P.one("Zeroconf::probing_handler")
    ptr_ = tracer(P, ph)
    keys = set()
    for b, t in ph.calls():
        if name_matches(cname(t), "HashMap::get_mut") and recv_mentions(P, ph, b, t, "dns_registry_map", "Zeroconf"):
            keys |= strip(ptr_.operand(t["args"][1], endpos(ph, b)))
    ok = bool(keys) and all(expr_mentions_field(k, "my_intfs", "Zeroconf") for k in keys)
    ctx.ob("C18b.probing-per-interface", ph.name, ok, ph.loc(), "the probing handler pairs each interface of my_intfs with the registry of the same index")


def clause_c(ctx, P):
    hr = P.one("Zeroconf::handle_read")
    dn = calls_to(hr, "DnsIncoming::new")
    ctx.require(len(dn) == 1, "C18c.anchor", hr.name, hr.loc(), "one DnsIncoming::new in handle_read")
    if not dn:
        return
    b = dn[0][0]
    e4 = guard_edges(P, hr, lambda atom, outcome, bb: atom[0] == "call" and name_matches(strip_generics(atom[1]), "Option::is_none") and has_call(atom, "MyIntf::next_ifaddr_v4") and outcome is False)
    e6 = guard_edges(P, hr, lambda atom, outcome, bb: atom[0] == "call" and name_matches(strip_generics(atom[1]), "Option::is_none") and has_call(atom, "MyIntf::next_ifaddr_v6") and outcome is False)
    # either the packet's family has an address (is_none false) ... path-insensitively: decoding is unreachable when both
    # `is_none` tests that are evaluated are true; check that removing the "family has an address" edges and the family-selector
    # edges makes the decoder unreachable
    e_is4_f = guard_edges(P, hr, lambda atom, outcome, bb: atom[0] == "binop" and atom[1] == "Eq" and fold(atom[3]) == 4 and outcome is False)
    e_is4_t = guard_edges(P, hr, lambda atom, outcome, bb: atom[0] == "binop" and atom[1] == "Eq" and fold(atom[3]) == 4 and outcome is True)
    e46 = guard_edges(P, hr, lambda atom, outcome, bb: atom[0] == "call" and name_matches(strip_generics(atom[1]), "Option::is_none") and
                      (has_call(atom, "MyIntf::next_ifaddr_v4") or has_call(atom, "MyIntf::next_ifaddr_v6")) and outcome is False)
    both = any(has_call(x, "MyIntf::next_ifaddr_v4") for x in [tracer(P, hr).operand(t["args"][0], endpos(hr, bb)) for bb, t in hr.calls() if name_matches(cname(t), "Option::is_none", "Option::is_some")]) and \
        any(has_call(x, "MyIntf::next_ifaddr_v6") for x in [tracer(P, hr).operand(t["args"][0], endpos(hr, bb)) for bb, t in hr.calls() if name_matches(cname(t), "Option::is_none", "Option::is_some")])
    ok = (bool(e4) and bool(e6) and must_pass_edges(hr, b, e4 | e6)) or (both and bool(e46) and must_pass_edges(hr, b, e46))
    ctx.ob("C18c.disabled-family-dropped", hr.name, ok, hr.loc(b),
           "DnsIncoming::new is reachable only when the receiving interface still has an address of the packet's family")
    # the interface lookup precedes decoding
    e_intf = guard_edges(P, hr, lambda atom, outcome, bb: atom[0] == "variant" and has_call(atom[1], "HashMap::get") and expr_mentions_field(atom[1], "my_intfs", "Zeroconf") and outcome == frozenset(["Some"]))
    ctx.ob("C18c.unknown-interface-dropped", hr.name, must_pass_edges(hr, b, e_intf), hr.loc(b), "packets from an interface that is not enabled are not decoded")


def clause_d(ctx, P):
    f = P.one("DnsCache::remove_records_on_intf")
    got = _map_calls(P, f, REMOVE_METHODS)
    for m in MAPS:
        ok = m in got
        ctx.ob("C18d.F11.intf-removal-covers-map", "%s|%s" % (f.name, m), ok, f.loc(),
               ("remove_records_on_intf purges DnsCache.%s" % m) if ok else
               ("remove_records_on_intf never removes anything from DnsCache.%s: data learned on the removed interface outlives it" % m))
    for (g, cb, t) in P.call_sites_of("dns_cache::DnsCache::remove_records_on_intf"):
        check_consumed(ctx, P, g, cb, "remove_records_on_intf", ["Zeroconf::notify_service_removal"], "C18d.F10.intf-removed-notified", field="removed_instances")
        check_consumed(ctx, P, g, cb, "remove_records_on_intf", ["Zeroconf::resolve_updated_instances"], "C18d.F10.intf-modified-reresolve", field="modified_instances")
    # the records removed are those whose src_intf == intf_id
    n = 0
    for c in [f.name] + [x for x in P.closures_of.get(f.name, [])] + [y for x in P.closures_of.get(f.name, []) for y in P.closures_of.get(x, [])]:
        cf = P.fns[c]
        for b, t in cf.calls():
            if name_matches(cname(t), "PartialEq::eq", "PartialEq::ne") and (t.get("gargs") or [""])[0].endswith("InterfaceId"):
                n += 1
    ctx.ob("C18d.filter-by-src-intf", f.name, n >= 5, f.loc(), "every map is filtered by comparing src_intf with the removed interface (%d comparisons)" % n)
    d = P.one("Zeroconf::del_interface_addr")
    dtr = tracer(P, d)
    calls = calls_to(d, "DnsCache::remove_addrs_on_disabled_intf")
    ctx.require(len(calls) == 2, "C18d.anchor", d.name, d.loc(), "two remove_addrs_on_disabled_intf calls (found %d)" % len(calls))
    e_empty = guard_edges(P, d, lambda atom, outcome, bb: atom[0] == "call" and name_matches(strip_generics(atom[1]), "HashSet::is_empty") and outcome is True)
    e_nonempty = guard_edges(P, d, lambda atom, outcome, bb: atom[0] == "call" and name_matches(strip_generics(atom[1]), "HashSet::is_empty") and outcome is False)
    for (b, t) in calls:
        ty = dtr.operand(t["args"][2], endpos(d, b))
        both = any(a[0] == "const" and (a[3] or "").endswith("IpType::BOTH") for a in strip(ty))
        if both:
            ok = must_pass_edges(d, b, e_empty)
            ctx.ob("C18d.gone-drops-both", d.name, ok, d.loc(b), "when the interface has no address left its cached addresses of both families are dropped")
            rm = [bb for bb, tt in d.calls() if name_matches(cname(tt), "HashMap::remove") and (recv_mentions(P, d, bb, tt, "my_intfs", "Zeroconf") or recv_mentions(P, d, bb, tt, "dns_registry_map", "Zeroconf"))]
            ctx.ob("C18d.gone-removes-state", d.name, len(rm) == 2 and all(must_pass_edges(d, bb, e_empty) for bb in rm), d.loc(b), "my_intfs and dns_registry_map forget the interface")
        else:
            e_gone = guard_edges(P, d, lambda atom, outcome, bb: outcome is True and any(x[0] == "call" and name_matches(strip_generics(x[1]), "Option::is_none") and has_call(x, "MyIntf::next_ifaddr_v4", "MyIntf::next_ifaddr_v6") for x in strip(atom)))
            ok = must_pass_edges(d, b, e_nonempty) and guarded(P, d, b, e_gone)
            alts = {a[3].split("::")[-1] for a in strip(ty) if a[0] == "const" and a[3]}
            ctx.ob("C18d.family-gone-drops-family", d.name, ok and alts == {"V4", "V6"}, d.loc(b),
                   "when only one family vanished, exactly that family's cached addresses are dropped (%s)" % sorted(alts))


def _selection_loop_table(P, f):
    """(iterates if_selections, calls IfKind::matches on interfaces[i], stores selection.selected into flags[i])"""
    tr = tracer(P, f)
    m = [(b, t) for b, t in f.calls() if name_matches(cname(t), "IfKind::matches")]
    res = {"matches": len(m), "iter_front_to_back": False, "writes_selected": False, "init_true": False}
    for (b, t) in m:
        e = tr.operand(t["args"][0], endpos(f, b))
        if expr_mentions_field(e, "if_selections", "Zeroconf") and has_call(e, "::iter") and not has_call(e, "::rev"):
            res["iter_front_to_back"] = True
        e_true = guard_edges(P, f, lambda atom, outcome, bb: atom[0] == "call" and atom[3] == (f.name, b) and outcome is True)
        for bb, i, s in f.assigns():
            pr = s["p"]["proj"]
            if pr and pr[-1][0] == "index" or (pr and pr[0][0] == "deref" and s["p"]["ty"] == "bool"):
                v = tr.rvalue(s["r"], (bb, i))
                if any(x[0] == "field" and x[2] == "selected" for x in walk(v)) and must_pass_edges(f, bb, e_true):
                    res["writes_selected"] = True
    for b, t in f.calls():
        if name_matches(cname(t), "vec::from_elem"):
            if fold(tr.operand(t["args"][0], endpos(f, b))) in (1, True):
                res["init_true"] = True
    return res


def clause_e(ctx, P):
    a = P.one("Zeroconf::apply_intf_selections")
    s = P.one("Zeroconf::selected_intfs")
    ta, ts = _selection_loop_table(P, a), _selection_loop_table(P, s)
    ctx.ob("C18e.selection-siblings-agree", "apply_intf_selections~selected_intfs", ta == ts and ta["matches"] == 1 and all(v for k, v in ta.items() if k != "matches"),
           a.loc(), "both functions start with all-true, walk if_selections front to back and overwrite the flag of every matching interface: %s / %s" % (ta, ts))
    # every selection is appended (call order = list order = precedence), wherever the push lives: in the handler or in
    # a helper it calls; the flag pushed for enable_interface is the constant true, for disable_interface false
    from .f4 import _param_alternatives
    pushes = [(f, b, t) for f in P.lib_fns() if not f.in_tests() for b, t in f.calls()
              if cname(t) == "std::vec::Vec::push" and recv_mentions(P, f, b, t, "if_selections", "Zeroconf")]
    ctx.floor("C18e.selection-appended", len(pushes), 1, "Vec::push on if_selections")
    flags = []      # (function the flag value originates in, value)
    for (f, b, t) in pushes:
        e = tracer(P, f).operand(t["args"][1], endpos(f, b))
        aggs = [x for x in strip(e) if x[0] == "agg" and (x[2] or "").endswith("IfSelection")]
        if not aggs:
            flags.append((f, None))
            continue
        fields = P.adt_fields("service_daemon::IfSelection")
        si = fields.index("selected") if "selected" in fields else 1
        for x in aggs:
            for (f2, alt) in _param_alternatives(P, f, x[4][si]):
                flags.append((f2, fold(alt)))
    for name, val in (("Zeroconf::enable_interface", True), ("Zeroconf::disable_interface", False)):
        f = P.one(name)
        mine = [v for (f2, v) in flags if f2.name == f.name or (f2.is_closure and (f2.parent or "").startswith(f.name))]
        ok = bool(mine) and all(v == int(val) for v in mine)
        ap = calls_to(f, "Zeroconf::apply_intf_selections")
        ok = ok and len(ap) == 1 and all_paths_to_return_pass(f, 0, [ap[0][0]], include_from=True)
        ctx.ob("C18e.selection-appended", f.name, ok, f.loc(), "%s appends IfSelection{selected: %s} (flag values reaching the push from here: %s) and re-applies all selections" % (f.short, str(val).lower(), mine))
    # nothing edits the list in place, reorders or shortens it (order = call order)
    MUTATORS = ("insert", "remove", "swap_remove", "clear", "retain", "retain_mut", "truncate", "pop", "drain", "sort", "sort_by", "sort_by_key", "sort_unstable",
                "sort_unstable_by", "swap", "reverse", "dedup", "dedup_by", "dedup_by_key", "iter_mut", "index_mut", "get_mut", "last_mut", "first_mut",
                "as_mut_slice", "deref_mut", "split_off", "append", "rotate_left", "rotate_right", "fill")
    edits = []
    for f in P.lib_fns():
        if f.in_tests():
            continue
        for b, t in f.calls():
            if t["args"] and method(cname(t)) in MUTATORS and recv_mentions(P, f, b, t, "if_selections", "Zeroconf"):
                edits.append("%s (%s)" % (method(cname(t)), f.loc(b)))
        for b, i, st in f.assigns():
            if place_mentions_field(st["p"], "Zeroconf", "if_selections") and f.short not in ("new",):
                edits.append("assignment (%s)" % f.loc(b, i))
    ctx.ob("C18e.who-writes-selections", "Zeroconf.if_selections", not edits, "",
           "if_selections is only appended to (%d push site(s))" % len(pushes) if not edits else
           "if_selections is edited in place / reordered / shortened: %s — the order of the list is the order of the calls, and the last matching entry wins" % edits[:4])
    c = P.one("Zeroconf::check_ip_changes")
    ctr = tracer(P, c)
    ap = calls_to(c, "Zeroconf::apply_intf_selections")
    ok = len(ap) == 1 and all_paths_to_return_pass(c, 0, [ap[0][0]], include_from=True)
    if ok:
        e = ctr.operand(ap[0][1]["args"][1], endpos(c, ap[0][0]))
        ok = has_call(e, "service_daemon::my_ip_interfaces_inner")
    ctx.ob("C18e.late-interfaces", c.name, ok, c.loc(), "check_ip_changes always ends by applying the selections to the fresh interface list")


def clause_f(ctx, P):
    for (fname, callee) in (("Zeroconf::add_interface", "ServiceInfo::insert_ipaddr"), ("Zeroconf::del_addr_in_my_services", "ServiceInfo::remove_ipaddr"),
                            ("Zeroconf::register_service", "ServiceInfo::insert_ipaddr")):
        f = P.one(fname)
        cs = calls_to(f, callee)
        e_auto = guard_edges(P, f, lambda atom, outcome, bb: atom[0] == "call" and name_matches(strip_generics(atom[1]), "ServiceInfo::is_addr_auto") and outcome is True)
        ok = bool(cs) and all(must_pass_edges(f, b, e_auto) for b, t in cs)
        ctx.ob("C18f.auto-address-only-if-enabled", f.name, ok, f.loc(), "%s is applied only to services with is_addr_auto()" % callee.split("::")[-1])
    # every removal path reaches del_addr_in_my_services
    for fname in ("Zeroconf::del_ip", "Zeroconf::del_interface_addr"):
        f = P.one(fname)
        cs = calls_to(f, "Zeroconf::del_addr_in_my_services")
        ctx.ob("C18f.removal-updates-services", f.name, bool(cs), f.loc(), "%s updates the addresses of auto-addressed services" % f.short)
    # insert_ipaddr honours the service's interface restriction
    ins = P.one("ServiceInfo::insert_ipaddr")
    e_sup = guard_edges(P, ins, lambda atom, outcome, bb: atom[0] == "call" and name_matches(strip_generics(atom[1]), "ServiceInfo::is_address_supported") and outcome is True)
    hs = [b for b, t in ins.calls() if name_matches(cname(t), "HashSet::insert")]
    ctx.ob("C18f.insert-respects-restrictions", ins.name, bool(hs) and all(must_pass_edges(ins, b, e_sup) for b in hs), ins.loc(), "an address is adopted only if is_address_supported(intf)")


def run(ctx, P):
    from . import r2
    r2.family_arms_consistent(ctx, P, "C18g")
    r2.removed_iff_no_ptr_left(ctx, P, "C18h")
    from . import r4
    r4.auto_addr_follows_every_new_address(ctx, P, "C18i")
    r4.removals_before_additions_on_ip_change(ctx, P, "C18j")
    clause_a(ctx, P)
    clause_b(ctx, P)
    clause_c(ctx, P)
    clause_d(ctx, P)
    clause_e(ctx, P)
    clause_f(ctx, P)
