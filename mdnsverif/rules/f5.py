"""F5 key normalisation: every keyed access of a lower-cased map uses a lower-cased key."""
from ..origin import strip, walk, show
from ..model import strip_generics
from .lib import (cname, method, tracer, endpos, expr_mentions_field, all_aggregates, where)

KEYED = ("get", "get_mut", "contains_key", "insert", "entry", "remove", "remove_entry", "get_key_value")

# maps whose keys are lower-cased by contract (the code's own comments say so):
#   Zeroconf.my_services        "The key has to be lower case letter as DNS record name is case insensitive."
#   Zeroconf.hostname_resolvers "`hostname` is case-insensitive and stored in lowercase."
#   DnsCache.addr               "DnsAddr records indexed by the hostname in lowercase."
MAPS = {
    "my_services": {"field": ("my_services", "Zeroconf"), "valty": "service_info::ServiceInfo"},
    "hostname_resolvers": {"field": ("hostname_resolvers", "Zeroconf"),
                           "valty": "(flume::Sender<service_daemon::HostnameResolutionEvent>, std::option::Option<u64>)"},
    "addr": {"field": ("addr", "DnsCache"), "valty": None},
}

ITER_STEPS = ("::next", "::into_iter", "::iter", "::iter_mut", "::keys", "::into_keys", "::cloned", "::copied",
              "::collect", "::filter", "::drain", "::clone", "::deref", "::peekable", "::rev", "::by_ref",
              "::map", "::enumerate", "::flatten", "::filter_map", "::flat_map")


def which_map(recv_expr, t):
    """name of the table map a HashMap call operates on, or None"""
    for name, m in MAPS.items():
        f, owner = m["field"]
        if expr_mentions_field(recv_expr, f, owner):
            return name
    gargs = t.get("gargs") or []
    if len(gargs) >= 2:
        for name, m in MAPS.items():
            if m["valty"] and gargs[1] == m["valty"] and gargs[0] == "std::string::String":
                return name
    return None


def keyed_accesses(P, maps=None):
    """yield (fn, bb, term, mapname, method, key_expr)"""
    for f in P.lib_fns():
        tr = tracer(P, f)
        for b, t in f.calls():
            n = cname(t)
            if "HashMap" not in n and "hash_map" not in n:
                continue
            m = method(n)
            if m not in KEYED or len(t["args"]) < 2:
                continue
            recv = tr.operand(t["args"][0], endpos(f, b))
            mp = which_map(recv, t)
            if mp is None or (maps and mp not in maps):
                continue
            key = tr.operand(t["args"][1], endpos(f, b))
            yield f, b, t, mp, m, key


class Normalised:
    """decides whether an expression is a lower-cased string on every alternative"""

    def __init__(self, P):
        self.P = P
        self.param_memo = {}
        self.payload_memo = {}
        self.trail = []
        self.kinds = set()      # folding functions met while deciding (to_lowercase / to_ascii_lowercase)

    def ok(self, fn, e, depth=0, why=None):
        why = why if why is not None else []
        if depth > 12:
            why.append("depth")
            return False
        alts = strip(e)
        if not alts:
            why.append("no origin")
            return False
        for a in alts:
            if not self._one(fn, a, depth, why):
                return False
        return True

    def _one(self, fn, a, depth, why):
        k = a[0]
        if k == "call":
            n = strip_generics(a[1])
            if n.endswith("::to_lowercase") or n.endswith("::to_ascii_lowercase"):
                self.kinds.add(n.rsplit("::", 1)[-1])
                return True
            # key read back from a table map through an iterator chain
            if any(n.endswith(s) for s in ITER_STEPS) or n.endswith("::remove_entry"):
                if (n.endswith("::map") or n.endswith("::filter_map") or n.endswith("::flat_map")) and len(a[2]) > 1:
                    # mapping closure must hand through (a projection of) its argument — or produce a lower-cased
                    # string itself (`.filter_map(|srv| Some(srv.host().to_lowercase()))`)
                    if not self._closure_passes_through(a[2][1]):
                        if self._closure_returns_normalised(a[2][1], depth, why):
                            return True
                        why.append("map closure transforms the key")
                        return False
                if a[2]:
                    return self._one_alt(fn, a[2][0], depth + 1, why)
            why.append("call %s is not a normalising step" % n)
            return False
        if k == "payload":
            return self._one_alt(fn, a[1], depth + 1, why)
        if k == "field":
            # tuple element of an iterator item (k, v): element 0 of a map item is the key
            base = a[1]
            if a[2] in (0, "0"):
                # (k, v) items: accept when the base derives from a table map
                if self._from_table_map(base):
                    return True
            # enum payload reached through a parameter:  (param as Variant).i
            if base[0] == "downcast":
                return self._payload_ok(fn, base, a[2], a[3], depth, why)
            # field of a table map itself (e.g. iterating the map): handled by caller
            if self._from_table_map(a):
                return True
            why.append("field %s" % show(a))
            return False
        if k == "param":
            return self._param_ok(fn, a[1], depth, why)
        if k == "local":
            # a local collection / variable without resolvable def: look for element inserts
            why.append("unresolved local %s" % show(a))
            return False
        if k == "index":
            return self._one_alt(fn, a[1], depth + 1, why)
        if k == "const" and isinstance(a[1], str):
            return a[1] == a[1].lower()
        why.append("origin %s" % show(a)[:120])
        return False

    def _one_alt(self, fn, e, depth, why):
        # collections built locally: HashSet::new()/Vec::new() + inserts
        alts = strip(e)
        if not alts:
            return False
        for a in alts:
            if a[0] == "call" and (strip_generics(a[1]).endswith("::new") or strip_generics(a[1]).endswith("::with_capacity")):
                # element provenance: every insert/push/extend into the local holding this collection
                pos = a[3]
                if not self._collection_elements_ok(fn, a, depth, why):
                    return False
                continue
            if self._from_table_map(a):
                continue
            if not self._one(fn, a, depth, why):
                return False
        return True

    def _from_table_map(self, e):
        for x in walk(e):
            if x[0] == "field":
                for name, m in MAPS.items():
                    f, owner = m["field"]
                    if x[2] == f and (x[3] or "").endswith(owner):
                        return True
        return False

    def _closure_returns_normalised(self, clo, depth, why):
        """every value the closure can return (looking into Some(..)) is a lower-cased string"""
        cs = [c for c in strip(clo) if c[0] == "closure"]
        if not cs:
            return False
        for c in cs:
            cf = self.P.fns.get(c[1])
            if cf is None:
                return False
            tr = tracer(self.P, cf)
            got = False
            for rb in cf.exits():
                e = tr.local(0, endpos(cf, rb))
                for a in strip(e):
                    if a[0] == "agg" and a[1] == "adt" and (a[2] or "").endswith("option::Option"):
                        if a[3] == "None":
                            continue
                        if a[3] == "Some" and a[4]:
                            if not self.ok(cf, a[4][0], depth + 1, why):
                                return False
                            got = True
                            continue
                    if not self._one(cf, a, depth + 1, why):
                        return False
                    got = True
            if not got:
                return False
        return True

    def _closure_passes_through(self, clo):
        for c in strip(clo):
            if c[0] != "closure":
                return False
            cf = self.P.fns.get(c[1])
            if cf is None:
                return False
            tr = tracer(self.P, cf)
            for rb in cf.exits():
                e = tr.local(0, endpos(cf, rb))
                for a in strip(e):
                    # must be the closure's argument (param 2) or a field of it
                    base = a
                    while base[0] in ("field", "deref", "ref", "payload", "downcast"):
                        base = base[1]
                    if not (base[0] == "param" and base[1] >= 2):
                        return False
        return True

    def _collection_elements_ok(self, fn, newcall, depth, why):
        """`newcall` is the HashSet::new()/Vec::new() expression; find the local it was stored in and
        check every element inserted into it."""
        tr = tracer(self.P, fn)
        (fname, bb) = newcall[3]
        t = fn.term(bb)
        loc = t["dest"]["l"]
        # follow simple moves of the fresh collection into a named local
        locs = {loc}
        changed = True
        while changed:
            changed = False
            for b, i, s in fn.assigns():
                r = s["r"]
                if r["k"] == "use" and r["a"]["k"] in ("move", "copy") and r["a"]["p"]["l"] in locs and not r["a"]["p"]["proj"]:
                    if not s["p"]["proj"] and s["p"]["l"] not in locs:
                        locs.add(s["p"]["l"])
                        changed = True
        found = 0
        for b, tt in fn.calls():
            n = cname(tt)
            m = method(n)
            if m not in ("insert", "push", "extend", "push_back") or not tt["args"]:
                continue
            recv = tr.operand(tt["args"][0], endpos(fn, b))
            base = recv
            while base[0] in ("ref", "deref"):
                base = base[1]
            # receiver must be one of the locals holding the fresh collection
            a0 = tt["args"][0]
            rl = None
            if a0["k"] in ("move", "copy"):
                # &mut _x temp: find its def
                for d in fn.reaching_defs(a0["p"]["l"], endpos(fn, b)):
                    if d[2] == "assign" and d[3]["k"] == "ref" and not d[3]["p"]["proj"]:
                        rl = d[3]["p"]["l"]
            if rl not in locs:
                continue
            found += 1
            el = tr.operand(tt["args"][1], endpos(fn, b))
            if not self.ok(fn, el, depth + 1, why):
                why.append("element inserted at %s is not normalised" % where(fn, b))
                return False
        if found == 0:
            why.append("no element source found for local collection")
            return False
        return True

    def _param_ok(self, fn, idx, depth, why):
        key = (fn.name, idx)
        if key in self.param_memo:
            return self.param_memo[key]
        self.param_memo[key] = True   # optimistic for recursion
        sites = self.P.call_sites_of(fn.name)
        ok = True
        if fn.is_closure:
            why.append("closure parameter %s of %s" % (idx, fn.name))
            ok = False
        elif not sites:
            why.append("parameter %d of %s has no call site (public entry?)" % (idx, fn.name))
            ok = False
        for (cf, b, t) in sites:
            if idx - 1 >= len(t["args"]):
                ok = False
                break
            tr = tracer(self.P, cf)
            e = tr.operand(t["args"][idx - 1], endpos(cf, b))
            w2 = []
            if not self.ok(cf, e, depth + 1, w2):
                why.append("call site %s in %s passes %s (%s)" % (where(cf, b), cf.name, show(e)[:100], "; ".join(w2[:3])))
                ok = False
        self.param_memo[key] = ok
        return ok

    def _payload_ok(self, fn, downcast_expr, fidx, owner, depth, why):
        """(x as Variant).fidx where x is an enum value: every construction site of that variant must
        store a normalised value in field fidx."""
        variant = downcast_expr[2]
        # which enum? look at construction sites of any local enum with such a variant
        cands = [a for a in self.P.adts.values() if a["kind"].lower().startswith("enum")
                 and any(v["name"] == variant for v in a["variants"])
                 and (not owner or owner == a["name"] + "::" + variant)]
        if len(cands) != 1:
            why.append("cannot identify enum of variant %s" % variant)
            return False
        adt = cands[0]["name"]
        key = (adt, variant, fidx)
        if key in self.payload_memo:
            return self.payload_memo[key]
        self.payload_memo[key] = True
        ok = True
        n = 0
        idx = fidx if isinstance(fidx, int) else None
        if idx is None:
            # named field -> index
            for v in cands[0]["variants"]:
                if v["name"] == variant:
                    names = [f["name"] for f in v["fields"]]
                    idx = names.index(fidx) if fidx in names else int(fidx)
        for (cf, b, i, s) in all_aggregates(self.P, adt, variant):
            n += 1
            tr = tracer(self.P, cf)
            e = tr.operand(s["r"]["ops"][idx], (b, i))
            w2 = []
            if not self.ok(cf, e, depth + 1, w2):
                why.append("%s::%s constructed at %s in %s stores %s (%s)" % (
                    adt.split("::")[-1], variant, where(cf, b, i), cf.name, show(e)[:100], "; ".join(w2[:2])))
                ok = False
        if n == 0:
            why.append("no construction site of %s::%s" % (adt, variant))
            ok = False
        self.payload_memo[key] = ok
        return ok


def run_f5(ctx, P, maps, rule="F5.key-normalised", only_fns=None, floor=None):
    """evaluate F5 for the given maps; only_fns restricts to accesses inside those functions
    (suffix match).  Returns number of accesses checked."""
    norm = Normalised(P)
    n = 0
    per_fn_ord = {}
    for (f, b, t, mp, m, key) in keyed_accesses(P, maps):
        if only_fns and not any(f.name.endswith(s) for s in only_fns):
            continue
        n += 1
        ordk = (f.name, mp, m)
        per_fn_ord[ordk] = per_fn_ord.get(ordk, 0) + 1
        why = []
        ok = norm.ok(f, key, 0, why)
        k = "%s|%s.%s#%d" % (f.name, mp, m, per_fn_ord[ordk])
        ctx.ob(rule, k, ok, where(f, b),
               ("key %s is lower-cased on every path" % show(key)[:120]) if ok else
               ("key of %s.%s() is not provably lower-cased: %s; reasons: %s" % (mp, m, show(key)[:160], " | ".join(why[:4]))))
    if floor is not None:
        ctx.floor(rule, n, floor, "keyed accesses of %s" % ",".join(sorted(maps)))
    return n


# ------------------------------------------------------------------------------------------------
def _closure_item_is_table_key(P, norm, cf, alt):
    """`alt` is (the key part of) the item a closure receives from an iterator over one of the lower-cased table maps:
    `my_services.iter().find(|(k, _v)| .. k ..)`"""
    if not cf.is_closure:
        return False
    base = alt
    saw_key = False
    while base[0] in ("field", "deref", "ref", "call") and (base[0] != "call" or (len(base[2]) >= 1 and strip_generics(base[1]).rsplit("::", 1)[-1] in ("as_str", "deref", "as_ref", "borrow", "clone"))):
        if base[0] == "field" and base[2] in (0, "0"):
            saw_key = True
        base = base[1] if base[0] != "call" else base[2][0]
    if base[0] != "param" or base[1] < 2 or not saw_key:
        return False
    parent = P.fns.get(cf.j.get("parent") or "")
    if parent is None:
        return False
    tr = tracer(P, parent)
    for b, t in parent.calls():
        for ai, a in enumerate(t["args"][1:], 1):
            e = tr.operand(a, endpos(parent, b))
            if any(x[0] == "closure" and x[1] == cf.name for x in walk(e)):
                recv = tr.operand(t["args"][0], endpos(parent, b))
                return norm._from_table_map(recv)
    return False


def check_map_key_consistency(ctx, P, rule, field, owner):
    """every key that reaches <owner>.<field> (a HashMap keyed by names) has the same spelling discipline: either all
    are lower-cased, or none is.  A map written under the registered spelling and read under the lower-cased one (or
    the reverse) silently misses for every name with a capital letter.  Keys that arrive through a parameter are
    judged at each call site."""
    from .lib import arg_expr
    from .f4 import _param_alternatives, _live
    norm = Normalised(P)
    seen = []
    for f in P.lib_fns():
        if not _live(P, f):
            continue
        tr = tracer(P, f)
        for b, t in f.calls():
            n = cname(t)
            if "HashMap" not in n and "hash_map" not in n:
                continue
            m = method(n)
            if m not in KEYED or len(t["args"]) < 2:
                continue
            recv = tr.operand(t["args"][0], endpos(f, b))
            if not expr_mentions_field(recv, field, owner):
                continue
            key = tr.operand(t["args"][1], endpos(f, b))
            for (f2, alt) in _param_alternatives(P, f, key):
                why = []
                low = norm.ok(f2, alt, 0, why) or _closure_item_is_table_key(P, norm, f2, alt)
                seen.append((f, b, m, f2, alt, low))
    lows = [x for x in seen if x[5]]
    exact = [x for x in seen if not x[5]]
    ctx.floor(rule, len(seen), 4, "keys reaching %s.%s" % (owner, field))
    minority = lows if len(lows) <= len(exact) else exact
    majority_is = "the registered spelling" if minority is lows else "lower case"
    if not lows or not exact:
        ctx.ob(rule, "%s.%s" % (owner, field), True, "", "all %d keys reaching %s.%s use %s" % (len(seen), owner, field, "lower case" if lows else "the spelling the names were registered with"))
        return
    k = 0
    for (f, b, m, f2, alt, low) in minority:
        k += 1
        label = f2.short if not f2.is_closure else "%s::%s" % ((P.fns[f2.parent].short if f2.parent in P.fns else "?"), f2.short)
        ctx.ob(rule, "%s.%s|%s#%d" % (owner, field, label, k), False, where(f2, f2.loc() and b if f2 is f else 0) if False else f.loc(b),
               "%s.%s is keyed by %s in %d place(s), but this key (%s, passed from %s) is %s: the lookup misses for every name that has a "
               "capital letter" % (owner, field, majority_is, len(seen) - len(minority), show(alt)[:70], f2.short, "lower-cased" if low else "not lower-cased"))


def check_single_folding(ctx, P, maps, rule):
    """the keys of one table are all folded by the same function: `to_lowercase` (Unicode) and `to_ascii_lowercase`
    agree on ASCII names only — a table written with one and read with the other misses for a name such as
    `ÉCOLE.local.`"""
    per_map = {}
    n = {}
    for (f, b, t, mp, m, key) in keyed_accesses(P, maps):
        norm = Normalised(P)        # fresh memo: every folding call on this key's flows is visited
        norm.ok(f, key, 0, [])
        n[mp] = n.get(mp, 0) + 1
        for k in norm.kinds:
            per_map.setdefault(mp, {}).setdefault(k, []).append("%s (%s)" % (f.short, where(f, b)))
    # the names carried by the reruns of a search are compared with the table's keys when a search is stopped or
    # replaced: the folding applied in those comparisons belongs to the same table
    PAYLOADS = {"hostname_resolvers": "ResolveHostname"}
    for mp in maps:
        var = PAYLOADS.get(mp)
        if not var:
            continue
        for f in P.lib_fns():
            if f.in_tests():
                continue
            tr = None
            for b, t in f.calls():
                if method(cname(t)) not in ("eq", "ne", "eq_ignore_ascii_case") or len(t["args"]) < 2:
                    continue
                tr = tr or tracer(P, f)
                sides = [tr.operand(a, endpos(f, b)) for a in t["args"][:2]]
                if not any(any(x[0] == "downcast" and x[2] == var for x in walk(sd)) for sd in sides):
                    continue
                if method(cname(t)) == "eq_ignore_ascii_case":
                    per_map.setdefault(mp, {}).setdefault("to_ascii_lowercase", []).append("%s (%s, eq_ignore_ascii_case)" % (f.short, where(f, b)))
                for sd in sides:
                    for x in walk(sd):
                        if x[0] == "call":
                            k = strip_generics(x[1]).rsplit("::", 1)[-1]
                            if k in ("to_lowercase", "to_ascii_lowercase"):
                                per_map.setdefault(mp, {}).setdefault(k, []).append("%s (%s, rerun comparison)" % (f.short, where(f, b)))
    for mp in sorted(maps):
        kinds = per_map.get(mp, {})
        ok = len(kinds) <= 1
        ctx.ob(rule, mp, ok and n.get(mp, 0) > 0, "",
               "all keys of %s are folded by %s (%d accesses)" % (mp, "/".join(sorted(kinds)) or "-", n.get(mp, 0)) if ok else
               "keys of %s are folded by different functions: %s — they disagree for names with non-ASCII capitals, so a lookup misses an entry "
               "stored under the other spelling" % (mp, "; ".join("%s in %s" % (k, ", ".join(v[:3])) for k, v in sorted(kinds.items()))))
