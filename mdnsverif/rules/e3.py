"""Shared driver for the E3 (numeric abstract interpretation) rules: F1 panic sites and F2 loop termination."""
import os
from ..model import callee_name
import re

from ..absint2 import Analyzer, StructInvariant
from ..linarith import Lin
from ..effects import Effects
from ..model import strip_generics
from ..termination import analyse_loops

_SRC = {}


def source_snippet(P, fn, bb):
    """the source text of the terminator of block bb (whitespace-normalised, <= 70 chars); macro expansions give
    the macro name.  Used as the line-number-free part of an obligation key."""
    t = fn.term(bb)
    sp = t.get("sp") or {}
    if sp.get("exp"):
        m = sp.get("macro") or "macro"
        mm = re.search(r'"([^"]+)"', m)
        nm = mm.group(1).replace("$crate::", "") if mm else m
        if nm in ("assert", "assert_eq", "assert_ne") and sp.get("xl0"):
            # an assertion is identified by what it asserts: `<assert> s.len() < 64` (a known finding about one bound must
            # not cover another bound)
            repo = getattr(P, "repo", None) or "/repo"
            path = os.path.join(repo, sp.get("xfile") or fn.blocks[bb].get("file") or fn.file or "")
            if path not in _SRC:
                try:
                    _SRC[path] = open(path, encoding="utf-8", errors="replace").read().split("\n")
                except OSError:
                    _SRC[path] = None
            lines = _SRC[path]
            if lines and sp["xl0"] <= len(lines):
                txt = re.sub(r"\s+", " ", lines[sp["xl0"] - 1]).strip()
                mc = re.search(r"assert(?:_eq|_ne)?!\((.*)\);?\s*$", txt)
                if mc:
                    return ("<%s> %s" % (nm, mc.group(1)))[:70]
        return "<%s>" % nm
    repo = getattr(P, "repo", None) or "/repo"
    path = os.path.join(repo, fn.blocks[bb].get("file") or fn.file or "")      # blocks of an inlined helper keep their file
    if path not in _SRC:
        try:
            _SRC[path] = open(path, encoding="utf-8", errors="replace").read().split("\n")
        except OSError:
            _SRC[path] = None
    lines = _SRC[path]
    if not lines or not sp.get("l0"):
        return "?"
    l0, c0, l1, c1 = sp["l0"], sp.get("c0", 1), sp.get("l1", sp["l0"]), sp.get("c1", 1)
    if l0 > len(lines) or l1 > len(lines):
        return "?"
    if l0 == l1:
        s = lines[l0 - 1][c0 - 1:c1 - 1]
    else:
        s = lines[l0 - 1][c0 - 1:] + " " + " ".join(x.strip() for x in lines[l0:l1 - 1]) + " " + lines[l1 - 1][:c1 - 1].strip()
    s = re.sub(r"\s+", " ", s).strip()
    return s[:70]


DECODER_INVARIANT = StructInvariant(
    "dns_parser::DnsIncoming",
    lambda i, l: [(i("offset").sub(l("data")) if i("offset") is not None and l("data") is not None else None)],
    "offset <= len(data)", fields=("offset", "data"))


OUTPACKET_INVARIANT = StructInvariant(
    "dns_parser::DnsOutPacket",
    lambda i, l: [(Lin.const(12).sub(l("data")) if l("data") is not None else None)],
    "len(data) >= 12", fields=("data",))


def check_invariant_support(ctx, P, rule, eff):
    """the declared invariant `DnsIncoming.offset <= len(DnsIncoming.data)` is only meaningful while nothing but the
    constructor writes `data`"""
    writers = [P.fns[n].short for n in eff.writers_of("DnsIncoming", "data")]
    ctx.ob(rule, "DnsIncoming.data is never written after construction", not writers, "src/dns_parser.rs",
           "field-effect scan: writers of DnsIncoming.data = %s (the constructor builds it in an aggregate)" % (sorted(set(writers)) or "none"))


_ADDR = {}


def is_api(f):
    """callable by a user of the crate: nameable from outside (rustc's effective visibility `exported`: public and
    re-exported along a public path).  Items that are merely `reachable` (public items of private modules) are not
    nameable; whatever of them is really used is reached through the call graph."""
    n = f.j.get("nameable")
    return bool(f.exported if n is None else n)


def addr_taken(P):
    """crate functions used as values (function items passed around): their callers are not all visible as calls"""
    k = id(P)
    if k not in _ADDR:
        seen = set()

        def scan(o):
            if isinstance(o, dict):
                if o.get("k") == "const" and "fn" in o:
                    n = o["fn"]
                    seen.add(n[len("mdns_sd::"):] if n.startswith("mdns_sd::") else n)
                for v in o.values():
                    scan(v)
            elif isinstance(o, list):
                for v in o:
                    scan(v)
        for f in P.fns.values():
            for b in range(f.n):
                for s in f.stmts(b):
                    scan(s)
                for a in f.term(b).get("args") or ():
                    scan(a)
        _ADDR[k] = seen
    return _ADDR[k]


def run_engine(P, roots, scope=None, invariants=(), inline_depth=3, max_inline_blocks=60, param_ranges=None, monotone=(),
               field_ranges=None, propagate_params=False, ret_ranges=None):
    """one analysis of the scope.  With propagate_params the run is repeated with the integer-parameter ranges
    observed at the call sites of the previous run (only for functions that cannot be called from outside the crate
    nor through a closure / function pointer), until the assumed ranges are confirmed by the run that used them."""
    if propagate_params:
        # Narrowing iteration.  Round k analyses the scope under the ranges `assumed` (parameters) and `rets`
        # (results); the ranges it observes at the call sites / exits are the candidates for round k+1.  A round whose
        # observations lie inside what it assumed is self-confirming (the assumption is inductive): only the result of
        # such a round is used.  Round 0 assumes nothing and is therefore always confirmed.
        rounds = propagate_params if isinstance(propagate_params, int) and propagate_params > 1 else 3
        assumed = dict(param_ranges or {})
        rets = {}
        best = None
        for _round in range(rounds + 1):
            A, eff = run_engine(P, roots, scope, invariants, inline_depth, max_inline_blocks, assumed, monotone, field_ranges, False, ret_ranges=rets)
            nxt = {}
            for (name, i), (lo, hi) in A.observed.items():
                f = P.fns.get(name)
                if f is None or is_api(f) or f.j.get("closure") or f.j.get("impl_trait") or name in addr_taken(P) or name in roots:
                    continue
                nxt[(name, i)] = (lo, hi)
            new_rets = dict(A.ret_observed)
            confirmed = all(k in nxt and nxt[k][0] >= v[0] and nxt[k][1] <= v[1] for k, v in assumed.items()) and \
                all(k in new_rets and new_rets[k][0] >= v[0] and new_rets[k][1] <= v[1] for k, v in rets.items() if k in A.ret_used)
            A.param_rounds = _round + 1
            A.assumed_params = dict(assumed)
            A.param_confirmed = confirmed
            if confirmed:
                best = (A, eff)
                if nxt == assumed and all(new_rets.get(k) == v for k, v in rets.items()):
                    break
                assumed, rets = nxt, new_rets
            else:
                # not inductive: weaken towards what was observed and try again
                assumed = {k: (min(v[0], nxt[k][0]), max(v[1], nxt[k][1])) for k, v in assumed.items() if k in nxt}
                rets = {k: (min(v[0], new_rets[k][0]), max(v[1], new_rets[k][1])) for k, v in rets.items() if k in new_rets}
        return best
    eff = Effects(P)
    A = Analyzer(P, eff, invariants=list(invariants), inline_depth=inline_depth, max_inline_blocks=max_inline_blocks)
    A.monotone = list(monotone)
    A.field_ranges = dict(field_ranges or {})
    A.assumed_params = dict(param_ranges or {})
    A.ret_ranges = dict(ret_ranges or {})
    A.param_rounds = 0
    A.scope = set(scope) if scope is not None else None
    if param_ranges:
        A.param_ranges.update(param_ranges)
    A.run(list(roots))
    # every function of the scope must have been analysed in some context; the rest standalone.  Plain functions
    # first: closures handed to modelled combinators are then analysed at their call, with the arguments known.
    if scope is not None:
        for _ in range(len(scope) + 10):
            visited_fns = {n for (n, _b) in A.visited}
            missing = [n for n in sorted(scope) if n not in visited_fns and n in P.fns]
            if not missing:
                break
            plain = [n for n in missing if not P.fns[n].j.get("closure")]
            # callers before callees: a function is analysed on its own only when no caller that could still
            # inline it (with its actual arguments) is itself waiting
            mset = set(missing)
            rcg = P.rev_callgraph()
            top = [n for n in plain if not any(c in mset and c != n for c in rcg.get(n, ()))]
            if not top and plain:
                # only cycles are left: take a function of a source component (everything that reaches it is
                # reached by it), so that the others are still analysed from their callers
                cg = P.callgraph()

                def reach(n):
                    seen, stack = set(), [n]
                    while stack:
                        x = stack.pop()
                        for y in cg.get(x, ()):
                            if y in mset and y not in seen:
                                seen.add(y)
                                stack.append(y)
                    return seen
                rs = {n: reach(n) for n in plain}
                for n in plain:
                    if all(n in rs.get(m, ()) and m in rs[n] for m in plain if m != n and n in rs.get(m, ())):
                        top = [n]
                        break
            pick = top[:1] or plain[:1] or missing[:1]
            A.run(pick)
        # a closure value with more than one use is also analysed without context
        for n in sorted(A.closure_multi - A.analyzed_standalone):
            if n in scope:
                A.run([n])
    return A, eff


def syntactic_sites(P, fn):
    """panic-capable constructs of one function as the MIR shows them (no analysis): the completeness yardstick"""
    out = []
    for b in range(fn.n):
        t = fn.term(b)
        if t["k"] == "assert":
            out.append((b, "assert:" + (t.get("msg") or {}).get("k", "?")))
        elif t["k"] == "call":
            n = strip_generics(t.get("callee") or "")
            if n.startswith("core::panicking::") or n.endswith("::unwrap") or n.endswith("::expect") or \
               n in ("std::ops::Index::index", "std::ops::IndexMut::index_mut", "core::slice::copy_from_slice"):
                out.append((b, "call:" + n))
    return out


def emit_sites(ctx, P, A, rule, scope, classes=("A", "B"), justify=None, where_prefix=""):
    """one obligation per panic site of the functions in scope.  justify: dict key -> reason (exact keys)"""
    justify = justify or {}
    used_just = set()
    loose_used = set()
    n = {"A": 0, "B": 0, "U": 0, "M": 0}
    dup = {}
    visited_fns = {nm for (nm, _b) in A.visited}
    for name in sorted(scope):
        fn = P.fns.get(name)
        if fn is None:
            continue
        if name not in visited_fns:
            ctx.ob(rule + ".analysed", fn.short, False, fn.loc(), "function in scope was never reached by the abstract interpreter")
            continue
    entries = []
    for k in sorted(A.sites, key=lambda k: (k[0], k[1], k[2])):
        s = A.sites[k]
        if s.fn.name not in scope:
            continue
        n[s.cls] = n.get(s.cls, 0) + 1
        if s.cls not in classes:
            continue
        snip = source_snippet(P, s.fn, s.bb)
        base = "%s|%s|%s" % (s.fn.short, s.kind, snip)
        dup[base] = dup.get(base, 0) + 1
        key = base if dup[base] == 1 else "%s#%d" % (base, dup[base])
        entries.append((s, key))
    # entries that some failing site matches exactly are not available for a looser match
    loose_used |= {rule + "|" + key for (s, key) in entries if not s.ok and (rule + "|" + key) in justify}
    for (s, key) in entries:
        ok = s.ok
        detail = ("proved: " + (s.proof or "unreachable or trivially true")) if ok else (s.fail_detail or "not proved")
        if not ok and (rule + "|" + key) in justify:
            used_just.add(rule + "|" + key)
            ok = True
            detail = "JUSTIFIED (trusted, not proved): %s" % justify[rule + "|" + key]
        elif not ok:
            # the justified expression may have been re-spelled (a renamed local, a helper call instead of the inline
            # formula): an unused entry for the same function and the same kind of site is accepted, at most one site
            # per entry (a further unproved site of that kind in the function is still reported)
            pre = "%s|%s|%s|" % (rule, s.fn.short, s.kind)
            cands = sorted(j for j in justify if j.startswith(pre) and j not in used_just and j not in loose_used)
            if not cands:
                # a closure body moved into its parent function (iterator chain -> loop) or back: the entry of a closure
                # matches a site of the same kind whose expression differs only in the name of the receiver variable
                def tail(sn):
                    return sn.split(" ", 1)[1] if " " in sn else sn
                mine = tail(key.split("|", 2)[2]) if key.count("|") >= 2 else None
                for j in sorted(justify):
                    parts = j.split("|", 3)
                    if len(parts) == 4 and parts[0] == rule and parts[2] == s.kind and j not in used_just and j not in loose_used and \
                            (parts[1].startswith("{closure#") or s.fn.short.startswith("{closure#")) and mine and tail(parts[3]) == mine and " " in parts[3]:
                        cands = [j]
                        break
            if cands:
                loose_used.add(cands[0])
                ok = True
                detail = "JUSTIFIED (trusted, not proved; entry matched by function and kind): %s" % (justify[cands[0]],)
        ctx.ob(rule, key, ok, s.fn.loc(s.bb), "%s — %s; evaluated in %d context(s)" % (s.what, detail, s.seen))
    for j in sorted(set(justify) - used_just):
        if j.startswith(rule + "|"):
            ctx.ob(rule + ".stale-justification", j, True, "", "justification entry no longer needed (site proved or gone)")
    return n


def emit_loops(ctx, P, A, rule, scope, exempt=None, semantic_exempt=None):
    exempt = exempt or {}
    verdicts = analyse_loops(A, P, scope)
    dup = {}
    counts = {"iterator": 0, "ranked": 0, "open": 0, "exempt": 0}
    for v in verdicts:
        snip = source_snippet(P, v.fn, v.head)
        base = "%s|loop|%s" % (v.fn.short, snip)
        dup[base] = dup.get(base, 0) + 1
        key = base if dup[base] == 1 else "%s#%d" % (base, dup[base])
        if not v.ok and (v.fn.short, snip) in exempt:
            counts["exempt"] += 1
            ctx.ob(rule, key, True, v.fn.loc(v.head), "EXEMPT (not a terminating loop by design): %s" % exempt[(v.fn.short, snip)])
            continue
        if not v.ok and semantic_exempt:
            why = None
            loops = v.fn.loops()
            body = loops.get(v.head, set())
            for (fshort, what, reason) in semantic_exempt:
                if v.fn.short != fshort:
                    continue
                if what == "<outermost>":
                    if body and len(body) == max(len(b) for b in loops.values()):
                        why = reason
                else:
                    for b in body:
                        t = v.fn.term(b)
                        if t["k"] == "call" and (callee_name(t) or "").replace(" ", "").endswith(what):
                            why = reason
                if why:
                    break
            if why:
                counts["exempt"] += 1
                ctx.ob(rule, key, True, v.fn.loc(v.head), "EXEMPT (not a terminating loop by design; identified by what it calls): %s" % why)
                continue
        counts[v.kind] += 1
        ctx.ob(rule, key, v.ok, v.fn.loc(v.head), "%s: %s" % (v.kind, v.detail))
    return counts


def recursion_free(ctx, P, rule, scope):
    """no cycle in the call graph restricted to the scope"""
    cg = P.callgraph()
    color = {}
    cyc = []

    def dfs(u, stack):
        color[u] = 1
        for v in sorted(cg.get(u, ())):
            if v not in scope:
                continue
            if color.get(v) == 1:
                cyc.append(stack[stack.index(v):] + [v] if v in stack else [u, v])
            elif v not in color:
                dfs(v, stack + [v])
        color[u] = 2

    import sys
    sys.setrecursionlimit(10000)
    for u in sorted(scope):
        if u not in color:
            dfs(u, [u])
    short = lambda n: P.fns[n].short if n in P.fns else n
    ctx.ob(rule, "call graph of the scope is acyclic", not cyc, "",
           "%d functions; cycles: %s" % (len(scope), [" -> ".join(short(x) for x in c) for c in cyc[:3]] or "none"))
    return cyc
