"""C17 — Hostname resolution: right addresses, case-insensitive, ends on time."""
from .lib import *
from . import f5
from . import c13
from .f10 import check_consumed

EXPLANATION = (
    "Static rules: (a) F5 — every keyed access of the lower-cased maps Zeroconf.hostname_resolvers and DnsCache.addr "
    "uses a provably lower-cased key (interprocedural through parameters and Command payloads); (b) the start handler "
    "asks A and AAAA for the same name in one query vector; (c) the run loop's hostname-refresh block is passed on "
    "every iteration and refresh_due_hostname_resolutions yields only unexpired, due records and disarms them; "
    "(d) timeout ordering SearchTimeout → SearchStopped → removal, deadline armed as a timer, reschedule bounded by "
    "the deadline; (e) evicted addresses reach AddressesRemoved (F10); (f) AddressesFound is built only from "
    "get_addresses_for_host, whose address accessor is guarded by a liveness test and tagged with the record's "
    "interface.  Decides these structural clauses, not which addresses over which history."
    " (g) Every path that ends a hostname search purges its pending ResolveHostname rerun."
    " (h) HostnameResolutionEvent sends are lossless; keys of hostname_resolvers and addr are folded by one function."
    " (i) A function that compares a record type with A or AAAA compares it with both. The doubling schedule of the hostname search (C19a) is checked here too."
    " (j) refresh_due_hostname_resolutions returns one entry per due address record (name, address), not one per host."
    " (k) The tail of handle_response always walks the address changes for the hostname resolvers."
    " (l) add_hostname_resolver stores the (listener, deadline) pair on every path. (m) The due address records returned by refresh_due_hostname_resolutions are walked in a loop of their own: one query per record.")
UNDECIDED = ["which addresses are reported over which arrival history", "exact time of SearchTimeout",
             "doubling schedule (decided under C19)"]


def clause_b(ctx, P):
    fn = P.one("Zeroconf::exec_command_resolve_hostname")
    tr = tracer(P, fn)
    qs = calls_to(fn, "Zeroconf::send_query_vec")
    ctx.require(len(qs) == 1, "C17b.anchor", fn.name, fn.loc(), "one send_query_vec call in the start handler (found %d)" % len(qs))
    for (b, t) in qs:
        e = tr.operand(t["args"][1], endpos(fn, b))
        arr = [x for x in walk(e) if x[0] == "agg" and x[1] == "array"]
        ok = False
        detail = show(e)[:160]
        if arr:
            tuples = [x for x in arr[0][4] if x[0] == "agg" and x[1] == "tuple"]
            types = set()
            names = set()
            for tp in tuples:
                names.add(frozenset(strip(tp[4][0])))
                v = tp[4][1]
                types.add(v[3] if v[0] == "agg" else (v[1] if v[0] == "const" else None))
            ok = types in ({"A", "AAAA"}, {1, 28}) and len(names) == 1 and len(tuples) == 2
        ctx.ob("C17b.a-and-aaaa-together", fn.name, ok, fn.loc(b),
               "one query vector asks RRType::A (1) and RRType::AAAA (28) for the same name" if ok else
               "query vector is not {A, AAAA} of one name: " + detail)
        # unconditional: sent on every run of the handler that got past SearchStarted
        started = [em for em in direct_sends(P, fn) if "SearchStarted" in em.names()]
        if started:
            ok = all_paths_to_return_pass(fn, started[0].bb, [b]) or _only_err_skips(P, fn, started[0], b)
            ctx.ob("C17b.query-every-run", fn.name, ok, fn.loc(b), "every run that delivered SearchStarted sends the query")


def _only_err_skips(P, fn, em, qb):
    """all paths from the SearchStarted send that avoid the query go through the send's Err edge"""
    err = guard_edges(P, fn, lambda atom, outcome, bb: atom[0] == "variant" and atom[1][0] == "call" and atom[1][3] == (fn.name, em.bb)
                      and "Err" in outcome and "Ok" not in outcome)
    for s in fn.succs(em.bb):
        reach = fn.reachable(s, removed_blocks=[qb], removed_edges=err)
        if any(fn.term(r)["k"] == "return" for r in reach):
            return False
    return True


def clause_c(ctx, P):
    run = P.one("Zeroconf::run")
    loops = run.loops()
    main = max(loops, key=lambda h: len(loops[h]))
    is_hr = lambda n: name_matches(n, "DnsCache::refresh_due_hostname_resolutions")
    sites = direct_callers_in_lib(P, is_hr)
    ctx.require(len(sites) == 1, "C17c.anchor", "one refresh_due_hostname_resolutions call site", run.loc(), "%d call site(s)" % len(sites))
    if sites:
        # the step may live in run itself or in a helper run calls on every iteration
        hr = [b for b, _c in blocks_always_reaching(P, run, is_hr, outer_head=main) if b in loops[main]]
        ok = bool(hr) and loop_every_iteration_passes(run, main, loops[main], hr)
        ctx.ob("C17c.refresh-every-iteration", run.name, ok, run.loc(hr[0]) if hr else run.loc(),
               "every cycle of the run loop enters the hostname-refresh loop" if ok else "an iteration can skip the hostname refresh block")
        # iterates hostname_resolvers and queries what the cache returns
        (hf, b, t) = sites[0]
        tr = tracer(P, hf)
        e = tr.operand(t["args"][1], endpos(hf, b))
        ctx.ob("C17c.refresh-over-resolvers", hf.name, expr_mentions_field(e, "hostname_resolvers", "Zeroconf"), hf.loc(b),
               "the refresh argument ranges over the keys of hostname_resolvers")
        hloops = hf.loops()
        outer = main if hf is run else None
        inner = [h for h, body in hloops.items() if b in body and h != outer]
        sq = [bb for bb, tt in hf.calls() if cname(tt).endswith("Zeroconf::send_query") and bb in hloops.get(max(inner, key=lambda h: len(hloops[h])), ())] if inner else []
        ctx.ob("C17c.refresh-queries", hf.name, bool(sq), hf.loc(b), "due addresses are re-queried inside that loop")
    g = P.one("DnsCache::refresh_due_hostname_resolutions")
    for c in P.closures_of.get(g.name, []):
        cf = P.fns[c]
        somes = [(b, i) for b, i, s in aggregates(cf, "option::Option", "Some")]
        nomore = [b for b, t in cf.calls() if cname(t).endswith("DnsRecord::refresh_no_more")]
        e_exp = guard_edges(P, cf, lambda atom, outcome, bb: atom[0] == "call" and strip_generics(atom[1]).endswith("DnsRecord::is_expired") and outcome is False)
        e_due = guard_edges(P, cf, lambda atom, outcome, bb: atom[0] == "call" and strip_generics(atom[1]).endswith("DnsRecord::refresh_due") and outcome is True)
        for (b, i) in somes:
            ok = must_pass_edges(cf, b, e_exp) and must_pass_edges(cf, b, e_due)
            ctx.ob("C17c.refresh-only-live-due", cf.name, ok, cf.loc(b, i), "a record is returned for refresh only if !is_expired(now) && refresh_due(now)")
            ok2 = bool(nomore) and all(cf.dominates(nb, b) for nb in nomore)
            ctx.ob("C17c.refresh-disarmed", cf.name, ok2, cf.loc(b, i), "refresh_no_more() is applied before the record is returned (once per mark)")
        ctx.require(bool(somes), "C17c.anchor2", cf.name, cf.loc(), "filter closure returns Some(..)")


def clause_d(ctx, P):
    c13.clause_d(ctx, P)     # shared with C13: timeout ordering, deadline guard, F5 on hostname_resolvers
    fn = resolver_registration_fn(P)
    tr = tracer(P, fn)
    ins = [(b, t) for b, t in fn.calls() if "HashMap" in cname(t) and method(cname(t)) == "insert" and recv_mentions(P, fn, b, t, "hostname_resolvers", "Zeroconf")]
    adds = calls_to(fn, "Zeroconf::add_timer")
    ok = False
    stored = []
    if ins and adds:
        ie = tr.operand(ins[0][1]["args"][2], endpos(fn, ins[0][0]))
        # the timer value is the payload of the same Option stored in the map
        stored = [x for x in walk(ie) if x[0] == "call" and strip_generics(x[1]).endswith("Option::map")]
        adds = [(b, t) for (b, t) in adds if any(x in stored for x in walk(tr.operand(t["args"][1], endpos(fn, b))))] or adds
        ae = tr.operand(adds[0][1]["args"][1], endpos(fn, adds[0][0]))
        ok = bool(stored) and any(x in stored for x in walk(ae))
    ctx.ob("C17d.F6.deadline-armed", fn.name, ok, fn.loc(), "the stored deadline (timeout.map(|t| now + t)) is also pushed as a timer")
    if adds:
        # armed whenever a deadline exists: add_timer guarded only by Some(deadline)
        b = adds[0][0]
        e_some = guard_edges(P, fn, lambda atom, outcome, bb: atom[0] == "variant" and outcome == frozenset(["Some"]) and (not stored or any(x in stored for x in walk(atom[1]))))
        e_none = edges_complement(P, fn, e_some)
        ok = not any(fn.term(r)["k"] == "return" for (bb, tgt) in e_some for r in fn.reachable(tgt, removed_blocks=[b]))
        ctx.ob("C17d.F6.deadline-armed-always", fn.name, ok, fn.loc(b), "every path with Some(deadline) reaches add_timer")


def clause_e(ctx, P):
    run = P.one("Zeroconf::run")
    cs = calls_to(run, "DnsCache::evict_expired_addr")
    if cs:
        check_consumed(ctx, P, run, cs[0][0], "evict_expired_addr", ["call_hostname_resolution_listener"], "C17e.F10.evicted-addrs-notified")
    ems = [em for em in emissions(P) if em.fn is run and "AddressesRemoved" in em.names()]
    ctx.ob("C17e.addresses-removed-event", run.name, len(ems) == 1, run.loc(), "AddressesRemoved emitted from the eviction result")
    # evict_expired_addr reports exactly what it removes: the `removed` insert is guarded by is_expired == true
    g = P.one("DnsCache::evict_expired_addr")
    found = False
    for c in P.closures_of.get(g.name, []) + [x for k in P.closures_of.get(g.name, []) for x in P.closures_of.get(k, [])]:
        cf = P.fns[c]
        ins = [b for b, t in cf.calls() if "HashSet" in cname(t) and method(cname(t)) == "insert"]
        if not ins:
            continue
        found = True
        e_exp = guard_edges(P, cf, lambda atom, outcome, bb: atom[0] == "call" and strip_generics(atom[1]).endswith("DnsRecord::is_expired") and outcome is True)
        ok = all(must_pass_edges(cf, b, e_exp) for b in ins)
        ctx.ob("C17e.reported-iff-expired", cf.name, ok, cf.loc(ins[0]), "an address is added to the removed set only when is_expired(now)")
        # the retain result is !expired
        tr = tracer(P, cf)
        rets = [tr.local(0, endpos(cf, rb)) for rb in cf.exits()]
        okr = all(r[0] == "unop" and r[1] == "Not" and has_call(r, "DnsRecord::is_expired") for r in rets)
        if not okr:
            # the same predicate written with early returns: on every path the constant returned is the negation of the
            # is_expired() outcome the path took
            from .f9 import closure_paths
            e_t = guard_edges(P, cf, lambda atom, outcome, bb: atom[0] == "call" and strip_generics(atom[1]).endswith("DnsRecord::is_expired") and outcome is True)
            e_f = guard_edges(P, cf, lambda atom, outcome, bb: atom[0] == "call" and strip_generics(atom[1]).endswith("DnsRecord::is_expired") and outcome is False)
            paths = closure_paths(P, cf)
            okr = bool(paths) and bool(e_t) and bool(e_f)
            for (edges, val) in (paths or []):
                took_t, took_f = bool(edges & e_t), bool(edges & e_f)
                if not (isinstance(val, bool) and (took_t != took_f) and val is took_f):
                    okr = False
        ctx.ob("C17e.retain-not-expired", cf.name, okr, cf.loc(), "retain keeps exactly the records that are not expired: " + "; ".join(show(r)[:60] for r in rets))
    ctx.require(found, "C17e.anchor", g.name, g.loc(), "eviction closure found")


def clause_f(ctx, P):
    ems = [em for em in emissions(P) if "AddressesFound" in em.names()]
    ctx.floor("C17f.found-sites", len(ems), 2, "AddressesFound emission sites")
    for k, em in enumerate(sorted(ems, key=lambda e: (e.fn.name, e.bb))):
        ok = has_call(em.ev, "DnsCache::get_addresses_for_host")
        ctx.ob("C17f.F8.found-from-cache", "%s|AddressesFound#%d" % (em.fn.name, k + 1), ok, em.fn.loc(em.bb),
               "AddressesFound payload comes from DnsCache::get_addresses_for_host" if ok else "AddressesFound built from " + show(em.ev)[:120])
    allsites = sorted({f.name for (f, b, i, s) in all_aggregates(P, "service_daemon::HostnameResolutionEvent", "AddressesFound")})
    ctx.ob("C17f.who-constructs-found", "HostnameResolutionEvent::AddressesFound", len(allsites) == len({em.fn.name for em in ems}), "",
           "AddressesFound constructed only at the emission sites: %s" % allsites)
    g = P.one("DnsCache::get_addresses_for_host")
    tr = tracer(P, g)
    acc = [(b, t) for b, t in g.calls() if cname(t).endswith("DnsAddress::address")]
    ctx.require(len(acc) >= 1, "C17f.anchor", g.name, g.loc(), "address accessor found in get_addresses_for_host")
    live = guard_edges(P, g, lambda atom, outcome, bb: atom[0] == "call" and (
        strip_generics(atom[1]).endswith("::is_expired") and outcome is False or
        strip_generics(atom[1]).endswith("::expires_soon") and outcome is False))
    for (b, t) in acc:
        ok = must_pass_edges(g, b, live)
        ctx.ob("C17f.F8.found-only-live", "%s|address#%d" % (g.name, acc.index((b, t)) + 1), ok, g.loc(b),
               "the address of a cached record is listed only under a liveness test (!is_expired / !expires_soon) of that record" if ok else
               "get_addresses_for_host lists a cached address without any liveness test: a record past its TTL (not yet evicted in this "
               "loop iteration) can appear in AddressesFound")
    # interface tag: DnsAddress::address() builds the ScopedIp with the record's own interface_id
    a = P.one("DnsAddress::address")
    okk = True
    n = 0
    for b, i, s in a.assigns():
        r = s["r"]
        if r["k"] == "aggregate" and (r.get("adt") or "").endswith(("ScopedIpV4", "ScopedIpV6")):
            n += 1
            e = tracer(P, a).rvalue(r, (b, i))
            if not expr_mentions_field(e, "interface_id", "DnsAddress"):
                okk = False
    ctx.ob("C17f.interface-tag", a.name, okk and n == 2, a.loc(), "both ScopedIp variants carry the record's interface_id (%d sites)" % n)
    # the decoder stores the receiving interface in every address record
    d = P.one("DnsIncoming::read_rr_records")
    dtr = tracer(P, d)
    m = 0
    for b, t in d.calls():
        if cname(t).endswith("DnsAddress::new"):
            m += 1
            e = dtr.operand(t["args"][5], endpos(d, b))
            ctx.ob("C17f.decoder-interface", "%s|DnsAddress::new#%d" % (d.name, m), expr_mentions_field(e, "interface_id", "DnsIncoming"), d.loc(b),
                   "decoded address records are tagged with the packet's interface_id")
    ctx.floor("C17f.decoder-interface", m, 2, "DnsAddress::new in the decoder")


def run(ctx, P):
    from . import r2, f5 as _f5
    r2.events_are_lossless(ctx, P, "C17h", chan_suffix="HostnameResolutionEvent", floor=2)
    _f5.check_single_folding(ctx, P, {"hostname_resolvers", "addr"}, "C17a.F5.single-folding")
    c13.clause_stop_paths(ctx, P, "C17g")
    r2.address_types_come_in_pairs(ctx, P, "C17i")
    r2.refresh_result_is_per_record(ctx, P, "C17j")
    from . import r4
    r4.response_tail_always_runs(ctx, P, "C17k", want=("addresses",))
    r4.resolver_entry_always_rewritten(ctx, P, "C17l")
    r4.one_refresh_query_per_due_record(ctx, P, "C17m")
    from . import c19
    c19.clause_a(ctx, P)       # the doubling schedule of the hostname search (shared with C19)
    from . import c03
    c03.clause_e(ctx, P)       # cache-flush one-second rule, per interface and per record type (shared)
    f5.run_f5(ctx, P, {"addr"}, rule="C17a.F5.key-normalised", floor=8)
    clause_b(ctx, P)
    clause_c(ctx, P)
    clause_d(ctx, P)     # includes F5 on hostname_resolvers (floor 7)
    clause_e(ctx, P)
    clause_f(ctx, P)
