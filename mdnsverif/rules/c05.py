"""C05 — Departed services are reported removed, on time and only when true."""
from .lib import *
from . import f5
from .f10 import check_consumed, outer_loop_head

EXPLANATION = (
    "Static rules: (a) F10 must-consume — every result of the eviction family (evict_expired_services, "
    "evict_expired_addr, remove_records_on_intf) reaches the notification functions on all paths; (b) every "
    "iteration of the run loop passes both eviction calls; (c) who-may-construct ServiceRemoved and provenance of "
    "every notify_service_removal argument (eviction results, or the was-resolved set guarded by resolved.remove()); "
    "(d) the decoder rewrites TTL 0 to 1 for responses and handle_response arms a timer for the expiry of new and "
    "updated records; (e) verify shortens SRV/address expiry through set_expire_sooner, arms the new expiry and "
    "schedules the second query round.  Decides that removals are produced, forwarded and armed; not the time of "
    "delivery over histories."
    " (f) Only an expired PTR or an emptied SRV vector puts an instance into the removal set, and the eviction results reach the notifiers whole (no truncating adapter)."
    " (g) The host names evict_expired_addr reports are the expired records' own names. (h) Expiry times only move forward outside reset_ttl. (i) The walk over the PTR names in evict_expired_services removes no key from DnsCache.srv, so an expired SRV is reported under every type and subtype that lists the instance."
    " (j) ServiceEvent sends are lossless."
    " (k) exec_command_verify reaches service_verify_queries on every path. (l) Every answer of a response reaches add_or_update (shared with C03i)."
    " (m) verify shortens no PTR record (a shared record is known-answer-suppressed and cannot be re-confirmed). (n) as C03j.")
UNDECIDED = ["time of delivery of ServiceRemoved relative to the TTL", "'not before' (no spurious removal) over histories",
             "duplicates across histories"]


def clause_ab(ctx, P):
    run = P.one("Zeroconf::run")
    loops = run.loops()
    main = max(loops, key=lambda h: len(loops[h]))
    sites = {}
    for name in ("DnsCache::evict_expired_services", "DnsCache::evict_expired_addr"):
        cs = calls_to(run, name)
        ctx.require(len(cs) == 1, "C05b.anchor", "%s|%s" % (run.name, name), run.loc(), "one call of %s in run (found %d)" % (name, len(cs)))
        if cs:
            sites[name] = cs[0][0]
            ok = loop_every_iteration_passes(run, main, loops[main], [cs[0][0]])
            ctx.ob("C05b.evict-every-iteration", "%s|%s" % (run.name, name), ok, run.loc(cs[0][0]),
                   "every cycle of the run loop passes %s" % name if ok else "an iteration of the run loop can skip %s" % name)
    if "DnsCache::evict_expired_services" in sites:
        check_consumed(ctx, P, run, sites["DnsCache::evict_expired_services"], "evict_expired_services",
                       ["Zeroconf::notify_service_removal"], "C05a.F10.evicted-services-notified")
    if "DnsCache::evict_expired_addr" in sites:
        check_consumed(ctx, P, run, sites["DnsCache::evict_expired_addr"], "evict_expired_addr",
                       ["call_hostname_resolution_listener"], "C05a.F10.evicted-addrs-notified")
        check_consumed(ctx, P, run, sites["DnsCache::evict_expired_addr"], "evict_expired_addr",
                       ["Zeroconf::resolve_updated_instances"], "C05a.F10.evicted-addrs-reresolve")
        # the listener call carries AddressesRemoved
        ems = [em for em in emissions(P) if em.fn is run and "AddressesRemoved" in em.names()]
        ctx.ob("C05a.addresses-removed-event", run.name, len(ems) == 1, run.loc(),
               "run emits AddressesRemoved for evicted addresses (%d site)" % len(ems))
    # every call site of remove_records_on_intf
    n = 0
    for (f, b, t) in P.call_sites_of("dns_cache::DnsCache::remove_records_on_intf"):
        n += 1
        check_consumed(ctx, P, f, b, "remove_records_on_intf", ["Zeroconf::notify_service_removal"],
                       "C05a.F10.intf-removed-notified", field="removed_instances", accept_empty_skip=True)
        check_consumed(ctx, P, f, b, "remove_records_on_intf", ["Zeroconf::resolve_updated_instances"],
                       "C05a.F10.intf-modified-reresolve", field="modified_instances", accept_empty_skip=True)
    ctx.floor("C05a.F10", n, 1, "call sites of remove_records_on_intf")
    # every other call site of the eviction functions (outside run) is also checked
    for name in ("dns_cache::DnsCache::evict_expired_services", "dns_cache::DnsCache::evict_expired_addr"):
        for (f, b, t) in P.call_sites_of(name):
            if f is run:
                continue
            check_consumed(ctx, P, f, b, name.split("::")[-1],
                           ["Zeroconf::notify_service_removal", "call_hostname_resolution_listener"], "C05a.F10.extra-site")


def clause_c(ctx, P):
    sites = sorted({f.name for (f, b, i, s) in all_aggregates(P, "service_daemon::ServiceEvent", "ServiceRemoved")})
    allowed = {"service_daemon::Zeroconf::notify_service_removal", "service_daemon::Zeroconf::handle_response::{closure#0}"}
    extra = set(sites) - allowed
    ctx.ob("C05c.who-constructs-removed", "ServiceEvent::ServiceRemoved", not extra, "",
           "ServiceRemoved is constructed only in %s" % sites if not extra else "ServiceRemoved also constructed in %s" % sorted(extra))
    ctx.floor("C05c.who-constructs-removed", len(sites), 2, "construction sites of ServiceRemoved")
    # provenance of every notify_service_removal argument
    evict_family = ("DnsCache::evict_expired_services", "DnsCache::remove_records_on_intf")
    n = 0
    for (f, b, t) in P.call_sites_of("service_daemon::Zeroconf::notify_service_removal"):
        n += 1
        tr = tracer(P, f)
        e = tr.operand(t["args"][1], endpos(f, b))
        ok = False
        why = ""
        alts = strip(e)
        if all(has_call(a, *evict_family) for a in alts):
            ok = True
            why = "argument is the result of the eviction family"
        else:
            # locally built map: every insertion guarded by `self.resolved.remove(..) == true`
            ok, why = _removed_map_guarded(P, f, e)
        ctx.ob("C05c.removal-source", "%s|notify_service_removal#%d" % (f.name, _nth(f, b, "notify_service_removal")), ok, f.loc(b),
               why if ok else "argument of notify_service_removal has another origin: %s (%s)" % (show(e)[:120], why))
    ctx.floor("C05c.removal-source", n, 3, "call sites of notify_service_removal")
    # the expired-record closure in handle_response: guarded by is_expired and cache.remove()
    cl = P.fns.get("service_daemon::Zeroconf::handle_response::{closure#0}")
    ctx.require(cl is not None, "C05c.anchor", "handle_response::{closure#0}", "", "expired-record closure present")
    if cl is not None:
        ems = [em for em in emissions(P) if em.fn is cl and "ServiceRemoved" in em.names()]
        for em in ems:
            e1 = guard_edges(P, cl, lambda atom, outcome, bb: atom[0] == "call" and strip_generics(atom[1]).endswith("DnsRecord::is_expired") and outcome is True)
            e2 = guard_edges(P, cl, lambda atom, outcome, bb: atom[0] == "call" and strip_generics(atom[1]).endswith("DnsCache::remove") and outcome is True)
            ok = must_pass_edges(cl, em.bb, e1) and must_pass_edges(cl, em.bb, e2)
            ctx.ob("C05c.expired-closure-guards", cl.name, ok, cl.loc(em.bb),
                   "ServiceRemoved in the response handler only for a record that is expired and was actually removed from the cache")


def _nth(fn, bb, suffix):
    k = 0
    for b, t in fn.calls():
        if cname(t).endswith(suffix):
            k += 1
            if b == bb:
                return k
    return 0


def _removed_map_guarded(P, f, e):
    """e is a locally built HashMap (HashMap::new + entry().or_insert_with().insert()); all insertions must be
    guarded by HashSet::remove on Zeroconf.resolved returning true"""
    news = [a for a in strip(e) if a[0] == "call" and strip_generics(a[1]).endswith("HashMap::new")]
    if not news:
        return False, "not a locally built map"
    tr = tracer(P, f)
    edges = guard_edges(P, f, lambda atom, outcome, bb: atom[0] == "call" and strip_generics(atom[1]).endswith("HashSet::remove")
                        and expr_mentions_field(atom, "resolved", "Zeroconf") and outcome is True)
    n = 0
    for b, t in f.calls():
        n0 = cname(t)
        if "HashMap" in n0 and method(n0) in ("entry", "insert"):
            recv = tr.operand(t["args"][0], endpos(f, b))
            if any(a in news for a in strip(recv)):
                n += 1
                if not must_pass_edges(f, b, edges):
                    return False, "insertion at %s not guarded by resolved.remove()" % f.loc(b)
    if n == 0:
        return False, "no insertion found"
    return True, "locally built removal set; every insertion is guarded by `self.resolved.remove(instance)` returning true"


def clause_d(ctx, P):
    fn = P.one("DnsIncoming::read_rr_records")
    tr = tracer(P, fn)
    hits = []
    for b, i, s in fn.assigns():
        p = s["p"]
        if not p["proj"] and fn.locals[p["l"]].get("name") == "ttl" and s["r"]["k"] == "use" and s["r"]["a"].get("val") == 1:
            hits.append((b, i))
    ctx.require(len(hits) == 1, "C05d.ttl-rewrite-site", fn.name, fn.loc(), "one `ttl = 1` rewrite in the record decoder (found %d)" % len(hits))
    for (b, i) in hits:
        e_zero = guard_edges(P, fn, lambda atom, outcome, bb: atom[0] == "binop" and atom[1] == "Eq" and const_value(atom[3]) == 0 and outcome is True)
        e_resp = guard_edges(P, fn, lambda atom, outcome, bb: atom[0] == "call" and strip_generics(atom[1]).endswith("DnsIncoming::is_response") and outcome is True)
        ok = must_pass_edges(fn, b, e_zero) and must_pass_edges(fn, b, e_resp)
        ctx.ob("C05d.ttl0-becomes-1", fn.name, ok, fn.loc(b, i), "`ttl := 1` happens exactly under `ttl == 0 && is_response()`")
    # the rewritten ttl is what the record constructors receive
    n = 0
    for b, t in fn.calls():
        n0 = cname(t)
        if n0.startswith("dns_parser::Dns") and n0.endswith("::new"):
            callee = P.fns.get(n0)
            if callee is None:
                continue
            # find the parameter named ttl
            for l in range(1, callee.argc + 1):
                if callee.locals[l].get("name") == "ttl":
                    a = t["args"][l - 1]
                    ok = a["k"] in ("copy", "move") and _root_local_name(fn, tr, a, (b, len(fn.stmts(b)))) == "ttl"
                    n += 1
                    ctx.ob("C05d.rewritten-ttl-used", "%s|%s#%d" % (fn.name, n0.split("::")[-2], n), ok, fn.loc(b),
                           "%s receives the (rewritten) local `ttl`" % n0.split("::")[-2])
    ctx.floor("C05d.rewritten-ttl-used", n, 6, "record constructors in the decoder")
    # handle_response arms expiry timers for new and updated records
    fn = P.one("Zeroconf::handle_response")
    tr = tracer(P, fn)
    aou = calls_to(fn, "DnsCache::add_or_update")
    ctx.require(len(aou) == 1, "C05d.anchor", fn.name + "|add_or_update", fn.loc(), "one add_or_update call")
    if aou:
        ab = aou[0][0]
        pushes = []
        for b, t in fn.calls():
            if cname(t) == "std::vec::Vec::push" and len(t["args"]) > 1:
                e = tr.operand(t["args"][1], endpos(fn, b))
                if has_call(e, "DnsRecord::get_expire_time") and any(x[0] == "call" and x[3] == (fn.name, ab) for x in walk(e)):
                    pushes.append(b)
        some_edges = guard_edges(P, fn, lambda atom, outcome, bb: atom[0] == "variant" and atom[1][0] == "call"
                                 and atom[1][3] == (fn.name, ab) and outcome == frozenset(["Some"]))
        head = outer_loop_head(fn, ab)
        loops = fn.loops()
        inner = [h for h, body in loops.items() if ab in body]
        h = min(inner, key=lambda h: len(loops[h])) if inner else None
        ok = bool(pushes) and bool(some_edges) and h is not None
        if ok:
            for (b, tgt) in some_edges:
                if h in fn.reachable(tgt, removed_blocks=pushes):
                    ok = False
        ctx.ob("C05d.F6.expiry-armed", fn.name, ok, fn.loc(ab),
               "for every stored record (new or updated) the expiry time is pushed to the timer list before the next record" if ok else
               "a Some(..) result of add_or_update can reach the next iteration without pushing get_expire_time()")
        # the list is drained into add_timer after the loop
        adds = [b for b, t in fn.calls() if cname(t).endswith("Zeroconf::add_timer")]
        okd = False
        for b in adds:
            e = tr.operand(fn.term(b)["args"][1], endpos(fn, b))
            if has_call(e, "::next") and has_call(e, "Vec::new"):
                okd = True
                # unavoidable after the record loop: from the loop's exit every path to return passes the drain loop head
                dh = [hh for hh, body in loops.items() if b in body]
                if dh and h is not None:
                    dhead = min(dh, key=lambda x: len(loops[x]))
                    exits_of_loop = {s for x in loops[h] for s in fn.succs(x) if s not in loops[h]}
                    for s in exits_of_loop:
                        if any(fn.term(r)["k"] == "return" for r in fn.reachable(s, removed_blocks=[dhead])):
                            okd = False
        if not okd and h is not None:
            # the closure idiom: timers.into_iter().for_each(|t| self.add_timer(t))
            from .f6 import closure_drains
            for b in closure_drains(P, fn, lambda e: has_call(e, "Vec::new")):
                exits_of_loop = {s for x in loops[h] for s in fn.succs(x) if s not in loops[h]}
                if not any(any(fn.term(r)["k"] == "return" for r in fn.reachable(s, removed_blocks=[b])) for s in exits_of_loop):
                    okd = True
        ctx.ob("C05d.F6.timer-list-drained", fn.name, okd, fn.loc(), "the collected times are all handed to add_timer after the record loop")


def _root_local_name(fn, tr, a, pos):
    p = a["p"]
    l = p["l"]
    seen = 0
    while seen < 10:
        nm = fn.locals[l].get("name")
        if nm:
            return nm
        ds = fn.reaching_defs(l, pos)
        if len(ds) != 1 or ds[0][2] != "assign":
            return None
        r = ds[0][3]
        if r["k"] == "use" and r["a"]["k"] in ("copy", "move") and not r["a"]["p"]["proj"]:
            pos = (ds[0][0], ds[0][1])
            l = r["a"]["p"]["l"]
            seen += 1
            continue
        return None
    return None


def clause_e(ctx, P):
    fn = P.one("Zeroconf::exec_command_verify")
    tr = tracer(P, fn)
    svq = calls_to(fn, "DnsCache::service_verify_queries")
    ctx.require(len(svq) == 1, "C05e.anchor", fn.name, fn.loc(), "one service_verify_queries call")
    if not svq:
        return
    b, t = svq[0]
    e = tr.operand(t["args"][2], endpos(fn, b))
    # expire_at = if repeating {None} else {Some(now + timeout)}
    alts = e[1] if e[0] == "phi" else (e,)
    has_none = any(a[0] == "agg" and a[3] == "None" for a in alts)
    some = [a for a in alts if a[0] == "agg" and a[3] == "Some"]
    ok = has_none and len(some) == 1 and has_call(some[0], "current_time_millis") and has_call(some[0], "Duration::as_millis")
    ctx.ob("C05e.verify-deadline", fn.name, ok, fn.loc(b),
           "service_verify_queries receives Some(now + timeout) on the first run and None on the repeat: %s" % show(e)[:160])
    # new expiry armed + second round scheduled, under a non-empty query list
    adds = calls_to(fn, "Zeroconf::add_timer")
    ok = False
    for (ab, at) in adds:
        ae = tr.operand(at["args"][1], endpos(fn, ab))
        if any(x is some[0] or x == some[0] for x in walk(ae)) if some else False:
            ok = True
        elif some and has_call(ae, "Duration::as_millis"):
            ok = True
    ctx.ob("C05e.F6.verify-deadline-armed", fn.name, ok, fn.loc(), "the shortened expiry is pushed as a timer")
    rr = calls_to(fn, "Zeroconf::add_retransmission")
    ok = False
    for (rb, rt) in rr:
        te = tr.operand(rt["args"][1], endpos(fn, rb))
        ce = tr.operand(rt["args"][2], endpos(fn, rb))
        if ("service_daemon::Command", "Verify") in value_variants(ce) and te[0] == "binop" and te[1].startswith("Add") and fold(te[3]) == 1000:
            ok = True
    ctx.ob("C05e.verify-second-round", fn.name, ok, fn.loc(), "a second query round Command::Verify is scheduled at now + 1000")
    sq = calls_to(fn, "Zeroconf::send_query_vec", "Zeroconf::send_query")
    ctx.ob("C05e.verify-queries", fn.name, bool(sq), fn.loc(), "verify sends the queries returned by service_verify_queries")
    # inside service_verify_queries: set_expire_sooner on SRV and on the host's addresses
    g = P.one("DnsCache::service_verify_queries")
    gtr = tracer(P, g)
    ses = [(b, t) for b, t in g.calls() if cname(t).endswith("DnsRecordExt::set_expire_sooner")]
    on_srv = on_addr = False
    for (b, t) in ses:
        recv = gtr.operand(t["args"][0], endpos(g, b))
        if expr_mentions_field(recv, "srv", "DnsCache"):
            on_srv = True
        if expr_mentions_field(recv, "addr", "DnsCache"):
            on_addr = True
        # the new expiry is the function's expire_at parameter payload
        ne = gtr.operand(t["args"][1], endpos(g, b))
        okp = any(x == ("param", 3) for x in walk(ne))
        ctx.ob("C05e.expire-sooner-value", "%s|set_expire_sooner#%d" % (g.name, ses.index((b, t)) + 1), okp, g.loc(b),
               "set_expire_sooner receives the caller's deadline")
    ctx.ob("C05e.expire-sooner-srv", g.name, on_srv, g.loc(), "verify shortens the expiry of the instance's SRV records")
    ctx.ob("C05e.expire-sooner-addr", g.name, on_addr, g.loc(), "verify shortens the expiry of the host's address records")
    # set_expire_sooner really only shortens
    d = P.one("DnsRecordExt::set_expire_sooner")
    edges = guard_edges(P, d, lambda atom, outcome, bb: atom[0] == "binop" and atom[1] == "Lt" and outcome is True)
    se = [b for b, t in d.calls() if cname(t).endswith("::set_expire")]
    ok = bool(se) and all(must_pass_edges(d, b, edges) for b in se)
    ctx.ob("C05e.sooner-only", d.name, ok, d.loc(), "set_expire_sooner assigns only when the new time is earlier (`<`)")
    f5.run_f5(ctx, P, {"addr"}, rule="C05e.F5.key-normalised", only_fns=["DnsCache::service_verify_queries", "DnsCache::remove",
                                                                         "DnsCache::evict_expired_addr"])


def clause_f(ctx, P):
    """'only when true': evict_expired_services reports an instance only because its PTR expired or its last SRV
    expired — never because some other record type ran out"""
    f = P.one("DnsCache::evict_expired_services")
    sites = []
    for g in [f] + [P.fns[c] for c in P.closures_of.get(f.name, [])]:
        tr = tracer(P, g)
        for b, t in g.calls():
            if not name_matches(cname(t), "HashSet::insert"):
                continue
            recv = arg_expr(tr, g, b, t, 0)
            if not any(x[0] == "call" and method(strip_generics(x[1])) in ("or_insert_with", "or_default", "or_insert") for x in walk(recv)):
                continue
            sites.append((g, b, t))
    ctx.require(len(sites) >= 2, "C05f.anchor", f.name, f.loc(), "%d insertions into the result of evict_expired_services" % len(sites))
    for k, (g, b, t) in enumerate(sites):
        # (A) only under `is_empty()` of the vector fetched from self.srv
        e_srv = guard_edges(P, g, lambda atom, outcome, bb: atom[0] == "call" and name_matches(strip_generics(atom[1]), "Vec::is_empty") and outcome is True and
                            any(x[0] == "call" and method(strip_generics(x[1])) in ("get_mut", "get") and len(x[2]) >= 1 and
                                any(is_field_expr(y, "srv", "DnsCache") for y in strip(x[2][0])) for x in walk(atom)))
        okA = bool(e_srv) and must_pass_edges(g, b, e_srv)
        # (B) only for an expired record of the PTR vector: under is_expired(now) == true, where the record comes from
        # DnsCache.ptr — the predicate of a retain over it, or a loop / filter over it in the function itself
        OTHER = ("txt", "srv", "addr", "nsec")
        if g is f:
            e_exp = guard_edges(P, g, lambda atom, outcome, bb: atom[0] == "call" and method(strip_generics(atom[1])) == "is_expired" and outcome is True and
                                expr_mentions_field(atom, "ptr", "DnsCache") and not any(expr_mentions_field(atom, m, "DnsCache") for m in OTHER))
            okB = bool(e_exp) and must_pass_edges(g, b, e_exp)
        else:
            e_exp = guard_edges(P, g, lambda atom, outcome, bb: atom[0] == "call" and method(strip_generics(atom[1])) == "is_expired" and outcome is True)
            okB = bool(e_exp) and must_pass_edges(g, b, e_exp)
            parent_ok = False
            trf = tracer(P, f)
            for bb, tt in f.calls():
                if method(cname(tt)) in ("retain", "filter", "for_each") and any(x[0] == "closure" and x[1] == g.name for a in tt["args"][1:] for x in walk(trf.operand(a, endpos(f, bb)))):
                    recv = arg_expr(trf, f, bb, tt, 0)
                    parent_ok = expr_mentions_field(recv, "ptr", "DnsCache") and not any(expr_mentions_field(recv, m, "DnsCache") for m in OTHER)
            okB = okB and parent_ok
        ok = okA or okB
        why = ("reported only when the vector fetched from DnsCache.srv became empty" if okA else
               "reported only for an expired record of the PTR vector")
        ctx.ob("C05f.removal-only-for-ptr-or-srv", "%s|result.insert#%d" % (f.name, k + 1), ok, g.loc(b),
               why if ok else "an instance is put into the removal set without its PTR or its last SRV having expired")


def run(ctx, P):
    from . import r2
    r2.evicted_addr_names_are_record_names(ctx, P, "C05g")
    r2.expiry_only_brought_forward(ctx, P, "C05h")
    r2.srv_expiry_reported_for_every_listing(ctx, P, "C05i")
    r2.events_are_lossless(ctx, P, "C05j")
    r2.verify_always_shortens(ctx, P, "C05k")
    r2.every_answer_reaches_the_cache(ctx, P, "C05l")
    from . import r4
    r4.verify_disputes_unique_records_only(ctx, P, "C05m")
    r4.cached_names_updated_whatever_is_for_us(ctx, P, "C05n")
    clause_f(ctx, P)
    clause_ab(ctx, P)
    clause_c(ctx, P)
    clause_d(ctx, P)
    clause_e(ctx, P)
