"""C19 — Repeated queries back off: 1 s, 2 s, 4 s … capped at one hour."""
from .lib import *
from .f9 import check_restart_replaces, scheduled_variants
from .f12 import poly, linear
from .c12 import _payload_positive

EXPLANATION = (
    "Static rules: (a) F12 in both start handlers — the rerun time is now + next_delay·1000, the successor delay is "
    "min(2·next_delay, 3600), the first delay is the constant 1 at both public constructors, and the payload interval "
    "[1, 3600] keeps the u32 product from overflowing; (b) the rerun loop of run executes an entry only when "
    "now >= next_time and removes it from the queue first; (c) one chain per search — a handler run schedules exactly "
    "one successor of its own variant, and F9 (re-start): a fresh browse / resolve_hostname for a name purges the "
    "earlier chain before scheduling; (d) who-may-call on send_query / send_query_vec / send_query_on_intf: every call "
    "site is classified in a frozen table into the query sources the statement allows (schedule, refresh, ≤3 follow-ups, "
    "new interface, verify); the follow-up count is bounded by try_count < 3.  Decides the schedule's shape, not rates "
    "over long horizons."
    " The purge of a restarted ResolveHostname search compares lower-cased names on both sides."
    " (e) Every retain on the rerun queue keeps the commands of other kinds."
    " Every path that replaces the searcher in its map purges the replaced searcher's reruns, also paths that schedule nothing (cache-only). A query site outside the named handlers counts as a refresh source only if it is driven by a DnsCache::refresh_due_* result."
    " The retain predicate of a rerun purge drops exactly the entries whose name equals the search's name (polarity)."
    " (h) A stop handler that takes instances out of pending_resolves also purges their Resolve reruns."
    " (i) add_interface reports an address as new only on paths that store it (otherwise every IP check finds it new and sends a query per browse).")
UNDECIDED = ["query rates over long horizons as numbers", "interplay of refresh queries and the schedule"]

# frozen classification of query sources (function -> class); a caller not in the table is an unclassified source
QUERY_SOURCES = {
    "service_daemon::Zeroconf::exec_command_browse": "schedule",
    "service_daemon::Zeroconf::exec_command_resolve_hostname": "schedule",
    "service_daemon::Zeroconf::refresh_active_services": "refresh",
    "service_daemon::Zeroconf::run": "refresh (hostname addresses)",
    "service_daemon::Zeroconf::query_unresolved": "follow-up Resolve (<= 3)",
    "service_daemon::Zeroconf::add_interface": "new interface",
    "service_daemon::Zeroconf::exec_command_verify": "verify",
    "service_daemon::Zeroconf::send_query": "wrapper of send_query_vec",
}
QUERY_FNS = ("service_daemon::Zeroconf::send_query", "service_daemon::Zeroconf::send_query_vec", "service_daemon::Zeroconf::send_query_on_intf")

REFRESH_DUE = ("DnsCache::refresh_due_ptr", "DnsCache::refresh_due_srv_txt", "DnsCache::refresh_due_hosts", "DnsCache::refresh_due_hostname_resolutions")

HANDLERS = [("Zeroconf::exec_command_browse", "Browse", 1), ("Zeroconf::exec_command_resolve_hostname", "ResolveHostname", 1)]


def clause_a(ctx, P):
    for (hname, variant, didx) in HANDLERS:
        fn = P.one(hname)
        tr = tracer(P, fn)
        dl = param_index(fn, "next_delay", "u32")
        ctx.require(dl is not None, "C19a.anchor", fn.name, fn.loc(), "parameter next_delay found")
        adds = calls_to(fn, "Zeroconf::add_retransmission")
        ctx.require(len(adds) == 1, "C19a.anchor-add", fn.name, fn.loc(), "one add_retransmission (found %d)" % len(adds))
        if dl is None or len(adds) != 1:
            continue
        ab, at = adds[0]
        te = tr.operand(at["args"][1], endpos(fn, ab))
        p = poly(te)
        want_terms = {(("param", dl),): 1000}
        ok = False
        if p is not None:
            rest = {m: c for m, c in p.items() if m not in want_terms}
            ok = all(p.get(m) == c for m, c in want_terms.items()) and len(rest) == 1 and \
                all(len(m) == 1 and m[0][0].startswith("call:") and "current_time_millis" in m[0][0] and c == 1 for m, c in rest.items())
        ctx.ob("C19a.F12.next-time-formula", fn.name, ok, fn.loc(ab), "rerun time = now + next_delay * 1000 (%s)" % show(te)[:80])
        ce = tr.operand(at["args"][2], endpos(fn, ab))
        aggs = [x for x in walk(ce) if x[0] == "agg" and x[3] == variant]
        okd = False
        if aggs:
            de = aggs[0][4][didx]
            for a in strip(de):
                if a[0] == "call" and name_matches(strip_generics(a[1]), "cmp::min", "Ord::min") and len(a[2]) == 2:
                    p0, p1 = poly(a[2][0]), poly(a[2][1])
                    if p0 == {(("param", dl),): 2} and p1 == {(): 3600} or p1 == {(("param", dl),): 2} and p0 == {(): 3600}:
                        okd = True
        ctx.ob("C19a.F12.doubling-capped", fn.name, okd, fn.loc(ab), "successor delay = min(next_delay * 2, 3600)")
        # first delay = 1 at the public constructors; payload interval keeps >= 1 (inductive)
        n = 0
        for (f, b, i, s) in all_aggregates(P, "service_daemon::Command", variant):
            if f is fn:
                continue
            n += 1
            v = fold(tracer(P, f).operand(s["r"]["ops"][didx], (b, i)))
            ctx.ob("C19a.first-delay-one", "%s|%s" % (f.name, variant), v == 1, f.loc(b, i), "public constructor starts with next_delay = %s (want 1)" % v)
        ctx.floor("C19a.first-delay-one." + variant, n, 1, "public constructions of Command::%s" % variant)
        okp, why = _payload_positive(P, "service_daemon::Command::" + variant, didx)
        ctx.ob("C19a.delay-interval", "Command::%s.%d" % (variant, didx), okp, "", "payload invariant 1 <= next_delay (<= 3600 by the cap): " + why)
        # the schedule is unconditional for a continuing search: the only guards on add_retransmission are the listed ones
    # u32 product bound: next_delay <= 3600 => next_delay*1000 and next_delay*2 fit u32 (3.6e6, 7200)
    ctx.ob("C19a.product-fits-u32", "next_delay", 3600 * 1000 < 2 ** 32 and 3600 * 2 < 2 ** 32, "", "with next_delay in [1, 3600] the u32 products next_delay*1000 and next_delay*2 cannot overflow")


def clause_b(ctx, P):
    run = P.one("Zeroconf::run")
    tr = tracer(P, run)
    ex = [(b, t) for b, t in run.calls() if name_matches(cname(t), "Zeroconf::exec_command") and fold(tr.operand(t["args"][2], endpos(run, b))) == 1]
    ctx.require(len(ex) == 1, "C19b.anchor", run.name, run.loc(), "one exec_command(.., repeating = true) in run (found %d)" % len(ex))
    if not ex:
        return
    eb, et = ex[0]
    ce = tr.operand(et["args"][1], endpos(run, eb))
    rem = [x for x in walk(ce) if x[0] == "call" and name_matches(strip_generics(x[1]), "Vec::remove") and expr_mentions_field(x, "retransmissions", "Zeroconf")]
    ctx.ob("C19b.removed-before-run", run.name, bool(rem), run.loc(eb), "the executed command is the one just removed from the queue (Vec::remove(i).command)")
    e_due = guard_edges(P, run, lambda atom, outcome, bb: atom[0] == "binop" and atom[1] == "Ge" and outcome is True
                        and expr_mentions_field(atom[3], "next_time", "ReRun") and has_call(atom[2], "current_time_millis"))
    ctx.ob("C19b.only-when-due", run.name, must_pass_edges(run, eb, e_due), run.loc(eb), "a rerun is executed only under now >= next_time")
    # same index: the tested entry is the removed one
    if rem:
        idx_rm = rem[0][2][1]
        same = any(any(x[0] == "call" and (name_matches(strip_generics(x[1]), "Index::index") or method(strip_generics(x[1])) in ("get", "get_mut")) and len(x[2]) > 1 and strip(x[2][1]) == strip(idx_rm) for x in walk(atom_))
                   for atom_ in _atoms(P, run, e_due))
        ctx.ob("C19b.same-entry", run.name, same, run.loc(eb), "the entry tested for being due is the entry removed and executed")


def _atoms(P, fn, edges):
    out = []
    for (b, tgt) in edges:
        for (t2, atom, outcome) in switch_edges(P, fn, b):
            if t2 == tgt:
                out.append(atom)
    return out


def clause_c(ctx, P):
    for (hname, variant, didx) in HANDLERS:
        check_restart_replaces(ctx, P, hname, variant, rule="C19c")
    # follow-up Resolve: bounded by try_count < 3, starts at 1, +1 each time
    fn = P.one("Zeroconf::exec_command_resolve")
    tr = tracer(P, fn)
    adds = calls_to(fn, "Zeroconf::add_retransmission")
    tc = param_index(fn, "try_count", "u16")
    ok = False
    if adds and tc:
        e_lt = guard_edges(P, fn, lambda atom, outcome, bb: atom[0] == "binop" and atom[1] == "Lt" and strip(atom[2]) == {("param", tc)} and fold(atom[3]) == 3 and outcome is True)
        ok = must_pass_edges(fn, adds[0][0], e_lt)
        ce = tr.operand(adds[0][1]["args"][2], endpos(fn, adds[0][0]))
        aggs = [x for x in walk(ce) if x[0] == "agg" and x[3] == "Resolve"]
        inc = bool(aggs) and poly(aggs[0][4][1]) == {(("param", tc),): 1, (): 1}
        ctx.ob("C19c.followup-increments", fn.name, inc, fn.loc(), "the retry carries try_count + 1")
        te = tr.operand(adds[0][1]["args"][1], endpos(fn, adds[0][0]))
        ctx.ob("C19c.followup-500ms", fn.name, any(a[0] == "binop" and fold(a[3]) == 500 for a in strip(te)), fn.loc(), "follow-up queries are 500 ms apart")
    ctx.ob("C19c.followup-bounded", fn.name, ok, fn.loc(), "a follow-up Resolve is rescheduled only while try_count < 3")
    first = [(f, b, i, s) for (f, b, i, s) in all_aggregates(P, "service_daemon::Command", "Resolve") if f is not fn]
    okf = bool(first) and all(fold(tracer(P, f).operand(s["r"]["ops"][1], (b, i))) == 1 for (f, b, i, s) in first)
    ctx.ob("C19c.followup-starts-at-one", "Command::Resolve", okf, "", "every fresh Command::Resolve starts with try_count = 1 (%d site(s))" % len(first))
    # one pending chain per instance
    ap = P.one("Zeroconf::add_pending_resolve")
    e_new = guard_edges(P, ap, lambda atom, outcome, bb: atom[0] == "call" and name_matches(strip_generics(atom[1]), "HashSet::contains") and outcome is False
                        and expr_mentions_field(atom, "pending_resolves", "Zeroconf"))
    adds = calls_to(ap, "Zeroconf::add_retransmission")
    ctx.ob("C19c.followup-once-per-instance", ap.name, bool(adds) and must_pass_edges(ap, adds[0][0], e_new), ap.loc(),
           "a follow-up chain is started only for an instance not already pending")


def clause_d(ctx, P):
    n = 0
    seen = {}
    for q in QUERY_FNS:
        for (g, cb, t) in P.call_sites_of(q):
            if g.in_tests():
                continue
            n += 1
            seen[g.name] = seen.get(g.name, 0) + 1
            cls = QUERY_SOURCES.get(g.name.split("::{closure")[0])
            if cls is None:
                # a helper that is not in the table: a refresh source if the query is sent only for entries that a
                # DnsCache::refresh_due_* call returned
                e_any = guard_edges(P, g, lambda atom, outcome, bb: has_call(atom[1] if atom[0] in ("variant", "int") else atom, *REFRESH_DUE))
                if e_any and must_pass_edges(g, cb, e_any):
                    cls = "refresh (driven by refresh_due_*)"
            ctx.ob("C19d.query-source-classified", "%s|%s#%d" % (g.name, q.split("::")[-1], seen[g.name]), cls is not None, g.loc(cb),
                   ("query source class: %s" % cls) if cls else
                   "a query is sent from %s, which is not one of the sources the statement allows (schedule, refresh, follow-up, new interface, verify)" % g.name)
    ctx.floor("C19d.query-sites", n, 11, "call sites of send_query / send_query_vec / send_query_on_intf")
    # nothing else builds a query packet: DnsOutgoing::new(FLAGS_QR_QUERY) sites
    qn = 0
    for f in P.lib_fns():
        tr = tracer(P, f)
        for b, t in f.calls():
            if name_matches(cname(t), "DnsOutgoing::new") and fold(tr.operand(t["args"][0], endpos(f, b))) == 0:
                qn += 1
                ok = f.name in QUERY_FNS or f.name in ("service_daemon::check_probing", "service_daemon::_new_socket_bind")
                ctx.ob("C19d.query-packet-builders", f.name, ok, f.loc(b), "query packets are built only by the send_query family, probing and the socket self-test")
    ctx.floor("C19d.query-packet-builders", qn, 3, "DnsOutgoing::new(FLAGS_QR_QUERY) sites")
    # refresh queries in run/refresh_active_services are driven by refresh_due_* results only
    ras = P.one("Zeroconf::refresh_active_services")
    rtr = tracer(P, ras)
    k = 0
    for b, t in ras.calls():
        if cname(t) in QUERY_FNS:
            k += 1
            e_any = guard_edges(P, ras, lambda atom, outcome, bb: has_call(atom[1] if atom[0] in ("variant", "int") else atom, "DnsCache::refresh_due_ptr", "DnsCache::refresh_due_srv_txt", "DnsCache::refresh_due_hosts"))
            ctx.ob("C19d.refresh-driven", "%s|query#%d" % (ras.name, k), must_pass_edges(ras, b, e_any), ras.loc(b), "a refresh query is sent only for entries returned by refresh_due_*")


def run(ctx, P):
    from . import r2
    r2.purges_keep_other_commands(ctx, P, "C19e")
    r2.followup_chain_not_restarted(ctx, P, "C19f")
    r2.verify_chain_is_finite(ctx, P, "C19g")
    from . import r4
    r4.pending_cleared_only_with_its_reruns(ctx, P, "C19h")
    r4.new_address_reported_only_when_stored(ctx, P, "C19i")
    from . import c13
    c13.clause_c(ctx, P)          # stopping a search ends its schedule (shared with C13)
    clause_a(ctx, P)
    clause_b(ctx, P)
    clause_c(ctx, P)
    clause_d(ctx, P)
