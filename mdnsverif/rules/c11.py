"""C11 — Records live for their TTL, refresh at 80/85/90/95 %, obey cache-flush."""
from .lib import *
from . import c03, c05
from .f12 import poly, ret_exprs, norm_cmp, expect_cmp, F, P1, P2

EXPLANATION = (
    "Lifetimes are arithmetic on run-time values; what is static: (a) F12 lifetime formulas — get_expiration_time ≡ "
    "created + ttl·percent·10 in u64, DnsRecord::new sets refresh := f(80) and expires := f(100), is_expired ≡ now >= "
    "expires, expires_soon ≡ now + 1000 >= expires, refresh_due ≡ now >= refresh, reset_ttl copies ttl/created and "
    "recomputes both (refresh := expires for ttl <= 1); (b) the refresh ladder: refresh_maybe returns false when expired "
    "or not due, and the chain of tests/assignments on percent constants is the strictly increasing sequence "
    "80→85→90→95→100, the last step being refresh_no_more (100); (c) the refresh functions run on every loop "
    "iteration for every browsed type / open resolver and all returned times are armed; (d) eviction on every iteration "
    "(C05b); (e) the cache-flush one-second rule (C03e).  Decides that the code computes these formulas and visits them "
    "every iteration, not when something happens for a given TTL and observation sequence."
    " (f) A matched cached record always gets reset_ttl(incoming)."
    " (g) Expiry times only move forward outside reset_ttl. In run, refresh_active_services comes before the hostname-resolver refresh in every iteration (they share a record's refresh mark; the resolver step disarms it), wherever the steps live (inline or helper)."
    " (h) refresh_due_srv_txt records RRType::SRV under the test on DnsCache.srv and TXT under the test on DnsCache.txt."
    " (i) Every answer of a response reaches add_or_update (shared with C03i).")
UNDECIDED = ["when something happens for a given TTL and observation sequence (skipped marks, restart after an answer, u32::MAX TTLs) — run-time quantities",
             "that a fresh copy restarts the schedule as a trace property (only reset_ttl's formula is decided)"]


def _field_assigns(P, fn, owner, field):
    tr = tracer(P, fn)
    out = []
    for b, i, s in fn.assigns():
        pr = s["p"]["proj"]
        if pr and pr[-1][0] == "field" and pr[-1][2] == field and pr[-1][4].endswith(owner):
            out.append((b, i, tr.rvalue(s["r"], (b, i))))
    return out


def _is_exp(e, pct, created="created", ttl="ttl"):
    for a in strip(e):
        if not (a[0] == "call" and name_matches(strip_generics(a[1]), "get_expiration_time") and len(a[2]) == 3):
            return False
        if fold(a[2][2]) != pct:
            return False
        if not any(x[0] == "field" and x[2] == created for x in walk(a[2][0])) and not strip(a[2][0]) <= {("call",)}:
            if not has_call(a[2][0], "current_time_millis") and not any(x[0] == "field" and x[2] == created for x in walk(a[2][0])):
                return False
    return True


def clause_a(ctx, P):
    ge = P.one("dns_parser::get_expiration_time")
    rs = ret_exprs(P, ge)
    p = poly(rs[0]) if len(rs) == 1 else None
    want = {(("param", 1),): 1, tuple(sorted([("param", 2), ("param", 3)], key=repr)): 10}
    ctx.ob("C11a.F12.expiration-formula", ge.name, p == want, ge.loc(), "get_expiration_time ≡ created + ttl·percent·10: %s" % "; ".join(show(r) for r in rs))
    casts = [s for b, i, s in ge.assigns() if s["r"]["k"] == "cast" and s["r"]["ty"] == "u64"]
    ctx.ob("C11a.expiration-in-u64", ge.name, len(casts) >= 2, ge.loc(), "ttl and percent are widened to u64 before the product (no u32 overflow for any TTL)")
    nw = P.one("DnsRecord::new")
    tr = tracer(P, nw)
    ok = False
    for b, i, s in aggregates(nw, "dns_parser::DnsRecord"):
        vals = dict(zip(s["r"]["fields"], [tr.operand(o, (b, i)) for o in s["r"]["ops"]]))
        okc = has_call(vals["created"], "current_time_millis")
        okr = _exp_args(vals["refresh"], 80, vals["created"], ("param", 4))
        oke = _exp_args(vals["expires"], 100, vals["created"], ("param", 4))
        okt = strip(vals["ttl"]) == {("param", 4)}
        ok = okc and okr and oke and okt
    ctx.ob("C11a.F12.new-record-times", nw.name, ok, nw.loc(), "DnsRecord::new: created := now, refresh := f(created, ttl, 80), expires := f(created, ttl, 100)")
    for name, op, lhs_const, fld in (("DnsRecord::is_expired", "Ge", 0, "expires"), ("DnsRecord::expires_soon", "Ge", 1000, "expires"), ("DnsRecord::refresh_due", "Ge", 0, "refresh")):
        f = P.one(name)
        rs = ret_exprs(P, f)
        want = expect_cmp(op, {P2: 1, (): lhs_const}, {F(fld): 1})
        ctx.ob("C11a.F12.predicate", f.name, len(rs) == 1 and norm_cmp(rs[0]) == want, f.loc(),
               "%s ≡ now%s >= %s (%s)" % (name.split("::")[-1], (" + %d" % lhs_const) if lhs_const else "", fld, "; ".join(show(r) for r in rs)))
    rt = P.one("DnsRecord::reset_ttl")
    rtr = tracer(P, rt)
    w = {fld: _field_assigns(P, rt, "DnsRecord", fld) for fld in ("ttl", "created", "expires", "refresh")}
    ok_copy = len(w["ttl"]) == 1 and any(x[0] == "field" and x[2] == "ttl" and any(y == ("param", 2) for y in walk(x)) for x in walk(w["ttl"][0][2])) and \
        len(w["created"]) == 1 and any(x[0] == "field" and x[2] == "created" and any(y == ("param", 2) for y in walk(x)) for x in walk(w["created"][0][2]))
    ok_exp = len(w["expires"]) == 1 and _exp_pct(w["expires"][0][2]) == {100}
    ctx.ob("C11a.F12.reset-ttl-copy", rt.name, ok_copy and ok_exp, rt.loc(), "reset_ttl copies ttl and created from the new record and sets expires := f(created, ttl, 100)")
    # refresh: 80% when ttl > 1 else expires
    ok_ref = False
    if len(w["refresh"]) == 1:
        e = w["refresh"][0][2]
        alts = e[1] if e[0] == "phi" else (e,)
        pcts = set()
        exp_alt = False
        for a in alts:
            pcts |= _exp_pct(a)
            if any(x[0] == "field" and x[2] == "expires" for x in strip(a)):
                exp_alt = True
        ok_ref = pcts == {80} and exp_alt
        e_gt1 = guard_edges(P, rt, lambda atom, outcome, bb: atom[0] == "binop" and atom[1] == "Gt" and fold(atom[3]) == 1 and outcome is True and any(x[0] == "field" and x[2] == "ttl" for x in walk(atom[2])))
        call80 = [b for b, t in rt.calls() if name_matches(cname(t), "get_expiration_time") and fold(rtr.operand(t["args"][2], endpos(rt, b))) == 80]
        ok_ref = ok_ref and bool(call80) and all(must_pass_edges(rt, b, e_gt1) for b in call80)
    ctx.ob("C11a.F12.reset-ttl-refresh", rt.name, ok_ref, rt.loc(), "reset_ttl: refresh := f(80) when ttl > 1, else refresh := expires")
    # order: expires/refresh computed after ttl and created were copied
    if all(len(w[k]) == 1 for k in w):
        okd = rt.pos_dominates((w["ttl"][0][0], w["ttl"][0][1]), (w["expires"][0][0], w["expires"][0][1])) and rt.pos_dominates((w["created"][0][0], w["created"][0][1]), (w["expires"][0][0], w["expires"][0][1]))
        ctx.ob("C11a.reset-ttl-order", rt.name, okd, rt.loc(), "the new expiry is computed from the copied ttl/created")


def _exp_pct(e):
    return {fold(x[2][2]) for x in walk(e) if x[0] == "call" and name_matches(strip_generics(x[1]), "get_expiration_time") and len(x[2]) == 3}


def _exp_args(e, pct, created, ttl_atom):
    for a in strip(e):
        if not (a[0] == "call" and name_matches(strip_generics(a[1]), "get_expiration_time") and len(a[2]) == 3):
            return False
        if fold(a[2][2]) != pct or strip(a[2][0]) != strip(created) or strip(a[2][1]) != {ttl_atom}:
            return False
    return True


def clause_b(ctx, P):
    f = P.one("DnsRecord::refresh_maybe")
    tr = tracer(P, f)
    # early false
    falses = [b for b, i, s in f.assigns() if not s["p"]["proj"] and s["p"]["l"] == 0 and s["r"]["k"] == "use" and s["r"]["a"].get("val") in (0, False)]
    trues = [b for b, i, s in f.assigns() if not s["p"]["proj"] and s["p"]["l"] == 0 and s["r"]["k"] == "use" and s["r"]["a"].get("val") in (1, True)]
    e_ok = guard_edges(P, f, lambda atom, outcome, bb: atom[0] == "call" and name_matches(strip_generics(atom[1]), "DnsRecord::is_expired") and outcome is False)
    e_due = guard_edges(P, f, lambda atom, outcome, bb: atom[0] == "call" and name_matches(strip_generics(atom[1]), "DnsRecord::refresh_due") and outcome is True)
    ws = _field_assigns(P, f, "DnsRecord", "refresh")
    nm = calls_to(f, "DnsRecord::refresh_no_more")
    sites = [b for (b, i, e) in ws] + [b for b, t in nm] + trues
    ok = bool(falses) and bool(trues) and all(must_pass_edges(f, b, e_ok) and must_pass_edges(f, b, e_due) for b in sites)
    ctx.ob("C11b.refresh-only-live-and-due", f.name, ok, f.loc(), "refresh is moved (and true returned) only when !is_expired(now) && refresh_due(now)")
    # ladder: tests `refresh == f(p)` -> assignment f(q), chained by the false edges
    steps = []
    for b in sorted(f.live_blocks()):
        for (tgt, atom, outcome) in switch_edges(P, f, b):
            if outcome is True and atom[0] == "binop" and atom[1] == "Eq" and any(x[0] == "field" and x[2] == "refresh" for x in walk(atom[2])):
                pt = _exp_pct(atom[3])
                # the assignment reachable from tgt before any other test
                asg = [(wb, e) for (wb, wi, e) in ws if wb in f.reachable(tgt, removed_blocks=[b]) and must_pass_edges(f, wb, {(b, tgt)})]
                if len(pt) == 1 and len(asg) == 1:
                    steps.append((next(iter(pt)), next(iter(_exp_pct(asg[0][1]))) if _exp_pct(asg[0][1]) else None, b))
    steps.sort()
    ladder = [(a, b_) for (a, b_, _blk) in steps]
    ok = ladder == [(80, 85), (85, 90), (90, 95)]
    ctx.ob("C11b.ladder-steps", f.name, ok, f.loc(), "refresh ladder tests/assignments: %s (want 80→85, 85→90, 90→95)" % ladder)
    # chained: each later test is on the false edge of the previous; final else = refresh_no_more
    okc = True
    for k in range(1, len(steps)):
        prev_b = steps[k - 1][2]
        e_false = {(prev_b, tgt) for (tgt, atom, outcome) in switch_edges(P, f, prev_b) if outcome is False}
        if not must_pass_edges(f, steps[k][2], e_false):
            okc = False
    if steps and nm:
        last_b = steps[-1][2]
        e_false = {(last_b, tgt) for (tgt, atom, outcome) in switch_edges(P, f, last_b) if outcome is False}
        okc = okc and must_pass_edges(f, nm[0][0], e_false)
    else:
        okc = False
    ctx.ob("C11b.ladder-chained", f.name, okc, f.loc(), "the tests are chained by else-branches and the final else is refresh_no_more()")
    rn = P.one("DnsRecord::refresh_no_more")
    wr = _field_assigns(P, rn, "DnsRecord", "refresh")
    ctx.ob("C11b.ladder-ends-at-expiry", rn.name, len(wr) == 1 and _exp_pct(wr[0][2]) == {100}, rn.loc(), "refresh_no_more: refresh := f(created, ttl, 100)")
    ctx.ob("C11b.ladder-monotone", f.name, ok and all(a < b_ for (a, b_) in ladder) and (not ladder or ladder[-1][1] < 100), f.loc(), "80 < 85 < 90 < 95 < 100: each mark is strictly later than the previous")
    u = P.one("DnsRecordExt::updated_refresh_time")
    utr = tracer(P, u)
    rm = calls_to(u, "DnsRecord::refresh_maybe")
    e_t = guard_edges(P, u, lambda atom, outcome, bb: rm and atom[0] == "call" and atom[3] == (u.name, rm[0][0]) and outcome is True)
    somes = [b for b, i, s in aggregates(u, "option::Option", "Some")]
    ctx.ob("C11b.updated-refresh-time", u.name, bool(rm) and bool(somes) and all(must_pass_edges(u, b, e_t) for b in somes), u.loc(), "a refresh is reported (Some) exactly when refresh_maybe moved the mark")


def clause_c(ctx, P):
    run = P.one("Zeroconf::run")
    loops = run.loops()
    main = max(loops, key=lambda h: len(loops[h]))
    ra = calls_to(run, "Zeroconf::refresh_active_services")
    ok = bool(ra) and loop_every_iteration_passes(run, main, loops[main], [ra[0][0]])
    ctx.ob("C11c.refresh-every-iteration", run.name, ok, run.loc(), "refresh_active_services runs on every iteration of the run loop")
    # the hostname-refresh step (in run or in a helper it calls): taken on every iteration, and after the browse refresh —
    # both steps advance the same `refresh` mark of an address record; the browse step steps it 80 -> 85 -> 90 -> 95, the
    # resolver step asks once and disarms it (refresh_no_more), so it has to come second
    is_hr = lambda n: name_matches(n, "DnsCache::refresh_due_hostname_resolutions")
    hr = blocks_always_reaching(P, run, is_hr, outer_head=main)
    hr_blocks = [b for b, _c in hr if b in loops[main]]
    ok = bool(hr_blocks) and loop_every_iteration_passes(run, main, loops[main], hr_blocks)
    if ra and hr_blocks:
        body = loops[main]
        # inside one iteration: from the loop head to the hostname step without passing the browse refresh
        seen = {main}
        st = [main]
        while st:
            x = st.pop()
            for s_ in run.succs(x):
                if s_ not in body or s_ == main or s_ in seen or s_ == ra[0][0]:
                    continue
                seen.add(s_)
                st.append(s_)
        early = [b for b in hr_blocks if b in seen]
        ctx.ob("C11c.browse-refresh-before-hostname-refresh", run.name, not early, run.loc(hr_blocks[0]),
               "in every iteration refresh_active_services (80/85/90/95 stepping) runs before the hostname-resolver refresh (one query, then disarm)" if not early else
               "the hostname-resolver refresh can run before refresh_active_services: it disarms the shared refresh mark of an address record "
               "(refresh_no_more) so the 85/90/95 % re-queries of a browsed service's host never happen")
    ctx.ob("C11c.hostname-refresh-every-iteration", run.name, ok, run.loc(), "the hostname-refresh loop is entered on every iteration")
    f = P.one("Zeroconf::refresh_active_services")
    tr = tracer(P, f)
    floops = f.loops()
    for callee in ("DnsCache::refresh_due_ptr", "DnsCache::refresh_due_srv_txt", "DnsCache::refresh_due_hosts"):
        c = calls_to(f, callee)
        ok = len(c) == 1
        if ok:
            b, t = c[0]
            e = tr.operand(t["args"][1], endpos(f, b))
            ok = expr_mentions_field(e, "service_queriers", "Zeroconf")
            heads = [h for h, body in floops.items() if b in body]
            h = max(heads, key=lambda h: len(floops[h])) if heads else None
            # unconditional inside the per-type loop
            if h is not None:
                se = guard_edges(P, f, lambda atom, outcome, bb: bb in floops[h] and atom[0] == "variant" and outcome == frozenset(["Some"]) and has_call(atom[1], "::next") and all(is_field_expr(x, "service_queriers", "Zeroconf") for x in iter_base(atom[1])))
                # the one legitimate skip: a cache-only browser (C13: it never sends a query)
                from .c13 import cache_only_marker
                mk = cache_only_marker(P)
                skip = guard_edges(P, f, lambda atom, outcome, bb: mk is not None and atom[0] == "call" and method(strip_generics(atom[1])) == "contains" and
                                   expr_mentions_field(atom, mk, "Zeroconf") and outcome is True)
                for (bb, tgt) in se:
                    if h in f.reachable(tgt, removed_blocks=[b], removed_edges=skip):
                        ok = False
            else:
                ok = False
        ctx.ob("C11c.refresh-covers", "%s|%s" % (f.name, callee.split("::")[-1]), ok, f.loc(), "%s is called for every browsed type (cache-only browsers excepted) on every pass" % callee.split("::")[-1])
    adds = calls_to(f, "Zeroconf::add_timer")
    ok = False
    for (b, t) in adds:
        e = tr.operand(t["args"][1], endpos(f, b))
        if has_call(e, "HashSet::new") and has_call(e, "::next"):
            heads = [h for h, body in floops.items() if b in body]
            if heads:
                ok = all_paths_to_return_pass(f, 0, [min(heads, key=lambda h: len(floops[h]))], include_from=True)
    ctx.ob("C11c.F6.refresh-times-armed", f.name, ok, f.loc(), "every collected refresh time is handed to add_timer before the function returns")


def run(ctx, P):
    from . import r2
    r2.cache_update_rules(ctx, P, "C11f", want=("reset",))
    r2.expiry_only_brought_forward(ctx, P, "C11g")
    r2.refresh_asks_for_the_due_type(ctx, P, "C11h")
    r2.every_answer_reaches_the_cache(ctx, P, "C11i")
    clause_a(ctx, P)
    clause_b(ctx, P)
    clause_c(ctx, P)
    c05.clause_ab(ctx, P)      # (d) eviction on every iteration (shared)
    c03.clause_e(ctx, P)       # (e) cache-flush one-second rule (shared)
