"""F13 gating helpers: status guards, announce-success guards, constant fields (F15)."""
from .lib import *


def status_guard_edges(P, fn, if_index_param=None, status="Announced"):
    """edges taken only when get_status(S, if_index) == status; returns [(edge, S_expr)]"""
    out = []
    seen = set()
    if True:
        for ((b, tgt), atom, outcome) in guard_atoms(P, fn):
            if atom[0] != "call" or (b, tgt) in seen:
                continue
            n = strip_generics(atom[1])
            if not (n.endswith("ServiceStatus as std::cmp::PartialEq>::ne") or n.endswith("ServiceStatus as std::cmp::PartialEq>::eq")):
                continue
            is_ne = n.endswith("::ne")
            want = (outcome is False) if is_ne else (outcome is True)
            if not want:
                continue
            a, c = atom[2][0], atom[2][1]
            gs = [x for x in strip(a) if x[0] == "call" and strip_generics(x[1]).endswith("ServiceInfo::get_status")]
            cs = [x for x in strip(c) if x[0] == "agg" and x[3] == status]
            if not gs or not cs:
                gs = [x for x in strip(c) if x[0] == "call" and strip_generics(x[1]).endswith("ServiceInfo::get_status")]
                cs = [x for x in strip(a) if x[0] == "agg" and x[3] == status]
            if not gs or not cs:
                continue
            g = gs[0]
            if if_index_param is not None:
                idx_alts = strip(g[2][1])
                if not all(x == ("param", if_index_param) or (x[0] == "field" and False) for x in idx_alts):
                    # allow *if_index deref of a loop variable bound to the same key: handled by caller
                    pass
            seen.add((b, tgt))
            out.append(((b, tgt), g[2][0], g[2][1]))
    return out


def contains_expr(hay, needle):
    ns = strip(needle)
    for x in walk(hay):
        if x in ns or x == needle:
            return True
    return False


def announce_true_edges(P, fn, depth=0):
    """edges whose traversal implies announce_service_on_intf returned Ok(true)"""
    edges = set()
    if depth > 3:
        return edges
    for b in fn.live_blocks():
        t = fn.term(b)
        if t["k"] != "switch":
            continue
        for (tgt, atom, outcome) in switch_edges(P, fn, b):
            if outcome is not True:
                continue
            if _true_implies_announce(P, fn, atom, t, b, depth):
                edges.add((b, tgt))
    return edges


def _is_announce_payload(x):
    # Ok-payload (bool) of an announce_service_on_intf call, possibly through `?`
    if x[0] == "payload" and x[2] == "Ok":
        inner = x[1]
        for y in strip(inner):
            if y[0] == "call" and strip_generics(y[1]).endswith("announce_service_on_intf"):
                return True
    return False


def _true_implies_announce(P, fn, atom, t, b, depth):
    alts = strip(atom)
    if not alts:
        return False
    # flags: look at the reaching definitions of the switched local
    d = t["d"]
    for a in alts:
        if _is_announce_payload(a):
            continue
        if a[0] == "const" and a[1] in (0, False):
            continue
        if a[0] == "const" and a[1] in (1, True):
            # a `true` constant: must have been assigned under an announce-true guard
            if not _true_defs_guarded(P, fn, d, b, depth):
                return False
            continue
        return False
    return True


def _true_defs_guarded(P, fn, d, b, depth):
    if "p" not in d:
        return False
    l = d["p"]["l"]
    pos = endpos(fn, b)
    # follow copies back to the named flag
    for _ in range(6):
        defs = fn.reaching_defs(l, pos)
        if len(defs) == 1 and defs[0][2] == "assign" and defs[0][3]["k"] == "use" and defs[0][3]["a"]["k"] in ("copy", "move") \
                and not defs[0][3]["a"]["p"]["proj"]:
            pos = (defs[0][0], defs[0][1])
            l = defs[0][3]["a"]["p"]["l"]
            continue
        break
    defs = fn.reaching_defs(l, pos)
    inner = announce_true_edges(P, fn, depth + 1) if depth < 2 else set()
    for (db, di, kind, payload) in defs:
        if kind != "assign" or payload["k"] != "use" or payload["a"]["k"] != "const":
            # non-constant def: must itself be an announce payload
            tr = tracer(P, fn)
            e = tr._def_expr(l, (db, di, kind, payload), 0)
            if all(_is_announce_payload(x) or (x[0] == "const" and x[1] in (0, False)) for x in strip(e)):
                continue
            return False
        v = payload["a"].get("val")
        if v in (0, False):
            continue
        # true def: guarded?
        if not inner or not must_pass_edges(fn, db, inner):
            return False
    return True


# ------------------------------------------------------------------------------------------------
# F15 constant fields
# ------------------------------------------------------------------------------------------------
def field_values(P, owner, field):
    """(all_constant, set_of_values, sites): every value ever stored into <owner>.<field>"""
    vals = set()
    allconst = True
    sites = []
    for (f, b, i, s) in all_aggregates(P, owner):
        names = s["r"].get("fields") or []
        if field in names:
            op = s["r"]["ops"][names.index(field)]
            e = tracer(P, f).operand(op, (b, i))
            v = fold(e)
            sites.append((f, b, i))
            if v is None:
                allconst = False
            else:
                vals.add(v)
    for (f, b, i, s) in field_writes(P, owner, field):
        if is_derived_impl(f):
            continue
        e = tracer(P, f).rvalue(s["r"], (b, i))
        v = fold(e)
        sites.append((f, b, i))
        if v is None:
            allconst = False
        else:
            vals.add(v)
    # &mut escapes of the field (e.g. passed to a callee) make it non-constant
    for f in P.lib_fns():
        if is_derived_impl(f):
            continue
        for b, i, s in f.assigns():
            r = s["r"]
            if r["k"] == "ref" and r["bk"] == "mut" and r["p"]["proj"] and r["p"]["proj"][-1][0] == "field" \
                    and r["p"]["proj"][-1][2] == field and r["p"]["proj"][-1][4].endswith(owner):
                allconst = False
                sites.append((f, b, i))
    return allconst, vals, sites
