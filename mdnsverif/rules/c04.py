"""C04 — Everything advertised for a browsed type is found and resolved (pipeline connectivity only)."""
from .lib import *
from .f12 import poly

EXPLANATION = (
    "C04 is a completeness/liveness property over packet partitions and loss; only the *pipeline connectivity* is "
    "visible in the code and is decided here: (a) every record of every section of a decoded message is offered to the "
    "cache (all_records chains all three record vectors; handle_response feeds each item to add_or_update); (b) every "
    "new record leads to a resolve attempt: on the Some((_, true)) arm a change is recorded for every type, PTR changes "
    "emit ServiceFound first, and all changes flow into the resolve_updated_instances call that every path after the "
    "record loop reaches; address changes are mapped through get_instances_on_host; (c) an unresolved instance is sent "
    "to add_pending_resolve, which schedules Command::Resolve at now + 500 ms, retried while try_count < 3, and "
    "query_unresolved asks ANY for the instance or A+AAAA for the SRV host; (d) a new browse is answered from the cache "
    "before the first query.  This decides necessary plumbing, not 'no later than the next scheduling step' nor "
    "behaviour under loss/duplication."
    " (e) A received record set is kept iff some PTR in it is for a browsed type: the is_for_us flag is cleared only under !service_queriers.contains_key."
    " (f) Every retain on the shared rerun queue answers true for all commands of other kinds (a purge of one search cannot drop the Resolve follow-ups). (g) Every DnsCache function that removes records from the vectors of a map also drops the entries that became empty, so `get_addr(host).is_none()` / `get_srv(..)` mean 'missing'."
    " (h) ServiceEvent sends are lossless."
    " (i) For a new PTR the instance recorded as changed is the PTR's alias; the A/AAAA follow-up is asked for DnsSrv::host() of the cached SRV, the ANY follow-up for the instance."
    " (j) The open-browse test of the follow-up reaches the instance through the cached PTR records (subtype browses). (k) ServiceResolved is decided per (browsed type, instance): no per-pass memo stands in front of the send."
    " (l) handle_read decodes every datagram it does not drop for a listed reason and dispatches every message by its QR bit; (m) the tail of handle_response always reaches resolve_updated_instances; (n) whoever purges Resolve reruns also edits pending_resolves; (o) a function that compares its parameter exactly with DnsSrv::host() never receives a lower-cased name.")
UNDECIDED = ["'no later than the daemon's next scheduling step' (timing)", "behaviour under loss, duplication and reordering of packets",
             "escaping of instance names on the way in (value-level)", "records arriving in packets that are 'not for us' (is_for_us heuristics, value-level)"]


def clause_a(ctx, P):
    ar = P.one("DnsIncoming::all_records")
    tr = tracer(P, ar)
    rs = [tr.local(0, endpos(ar, rb)) for rb in ar.exits()]
    flds = {x[2] for r in rs for x in walk(r) if x[0] == "field" and (x[3] or "").endswith("DnsIncoming")}
    want = {f["name"] for f in P.adt("dns_parser::DnsIncoming")["variants"][0]["fields"] if f["ty"].startswith("std::vec::Vec<std::boxed::Box<") and "dyn dns_parser::DnsRecordExt" in f["ty"]}
    ctx.ob("C04a.all-sections-chained", ar.name, flds == want and len(want) == 3, ar.loc(), "all_records chains every record vector of DnsIncoming: %s (struct has %s)" % (sorted(flds), sorted(want)))
    h = P.one("Zeroconf::handle_response")
    htr = tracer(P, h)
    aou = calls_to(h, "DnsCache::add_or_update")
    ok = len(aou) == 1
    if ok:
        b, t = aou[0]
        e = htr.operand(t["args"][2], endpos(h, b))
        ok = has_call(e, "DnsIncoming::all_records") and has_call(e, "::next")
        loops = h.loops()
        heads = [x for x, body in loops.items() if b in body]
        hh = min(heads, key=lambda x: len(loops[x])) if heads else None
        ok = ok and hh is not None
        if ok:
            se = guard_edges(P, h, lambda atom, outcome, bb: bb in loops[hh] and atom[0] == "variant" and outcome == frozenset(["Some"]) and has_call(atom[1], "::next") and has_call(atom[1], "DnsIncoming::all_records")
                             and all(x[0] == "call" and name_matches(strip_generics(x[1]), "DnsIncoming::all_records") for x in iter_base(atom[1])))
            ok = bool(se)
            for (bb, tgt) in se:
                if hh in h.reachable(tgt, removed_blocks=[b]):
                    ok = False
    ctx.ob("C04a.every-record-offered", h.name, ok, h.loc(), "every item of all_records() is passed to add_or_update (no skipping path in the record loop)")


def clause_b(ctx, P):
    h = P.one("Zeroconf::handle_response")
    htr = tracer(P, h)
    aou = calls_to(h, "DnsCache::add_or_update")
    if not aou:
        return
    ab = aou[0][0]
    loops = h.loops()
    heads = [x for x, body in loops.items() if ab in body]
    hh = min(heads, key=lambda x: len(loops[x]))
    # pushes into `changes`
    pushes = []
    for b, t in h.calls():
        if cname(t) == "std::vec::Vec::push" and (t.get("gargs") or [""])[0].endswith("InstanceChange"):
            pushes.append(b)
    ctx.floor("C04b.change-pushes", len(pushes), 2, "pushes of InstanceChange")
    # on the (.., true) arm every path to the next record passes a push (or is the PTR-without-downcast corner)
    e_new = guard_edges(P, h, lambda atom, outcome, bb: outcome is True and atom[0] == "field" and atom[2] == 1 and any(x[0] == "call" and x[3] == (h.name, ab) for x in walk(atom)))
    ok = bool(e_new)
    e_down_none = guard_edges(P, h, lambda atom, outcome, bb: atom[0] == "variant" and outcome == frozenset(["None"]) and has_call(atom[1], "downcast_ref"))
    for (bb, tgt) in e_new:
        if hh in h.reachable(tgt, removed_blocks=pushes, removed_edges=e_down_none):
            ok = False
    ctx.ob("C04b.new-record-recorded", h.name, ok, h.loc(ab), "every newly cached record of any type is recorded as a change (only a PTR that fails its own downcast is skipped)")
    founds = [em for em in emissions(P) if em.fn is h and "ServiceFound" in em.names()]
    rc = calls_to(h, "Zeroconf::resolve_updated_instances")
    ok = len(founds) == 1 and len(rc) == 1
    if ok:
        # the PTR change push is dominated by the Found emission
        ptr_push = [b for b in pushes if h.dominates(founds[0].bb, b)]
        ok = bool(ptr_push)
    ctx.ob("C04b.found-before-change", h.name, ok, h.loc(), "a new PTR emits ServiceFound before its instance is queued for resolving")
    if rc:
        rb = rc[0][0]
        # unavoidable after the record loop (only the unknown-interface early return precedes the loop)
        exits_ = {s for x in loops[hh] for s in h.succs(x) if s not in loops[hh]}
        # (nothing to resolve for when nobody browses, or when nothing changed: an `is_empty()` test on service_queriers or on a
        # local collection may go around the call — the same allowance as C04m)
        skip = guard_edges(P, h, lambda atom, outcome, bb: atom[0] == "call" and method(strip_generics(atom[1])) == "is_empty" and outcome is True and
                           (not any(x[0] == "field" and (x[3] or "").endswith("Zeroconf") for x in walk(atom)) or expr_mentions_field(atom, "service_queriers", "Zeroconf")))
        ok = all(not any(h.term(r)["k"] == "return" for r in h.reachable(s, removed_blocks=[rb], removed_edges=skip)) for s in exits_)
        ctx.ob("C04b.resolve-after-loop", h.name, ok, h.loc(rb), "every path leaving the record loop reaches resolve_updated_instances")
        arg = htr.operand(rc[0][1]["args"][1], endpos(h, rb))
        news = [x for x in walk(arg) if x[0] == "call" and name_matches(strip_generics(x[1]), "HashSet::new")]
        feeds = set()
        for b, t in h.calls():
            if method(cname(t)) in ("insert", "extend") and "HashSet" in cname(t):
                recv = htr.operand(t["args"][0], endpos(h, b))
                if news and any(x == news[0] for x in walk(recv)):
                    v = htr.operand(t["args"][1], endpos(h, b))
                    if has_call(v, "DnsCache::get_instances_on_host"):
                        feeds.add("addr->instances")
                    if any(x[0] == "field" and x[2] == "name" for x in walk(v)):
                        feeds.add("name")
        ctx.ob("C04b.changes-feed-resolve", h.name, feeds == {"addr->instances", "name"}, h.loc(rb),
               "the resolve set is fed by PTR/SRV/TXT change names and by get_instances_on_host(addr change): %s" % sorted(feeds))
        # type dispatch covers PTR|SRV|TXT and A|AAAA
        kinds = set()
        for bb in h.live_blocks():
            for (tgt, atom, outcome) in switch_edges(P, h, bb):
                if atom[0] == "variant" and isinstance(outcome, frozenset) and any(x[0] == "field" and x[2] == "ty" for x in walk(atom[1])):
                    if len(outcome) <= 3:
                        kinds |= set(outcome)
        ctx.ob("C04b.change-type-dispatch", h.name, {"PTR", "SRV", "TXT", "A", "AAAA"} <= kinds, h.loc(), "changes of types %s are dispatched to the resolve set" % sorted(kinds))


def clause_c(ctx, P):
    for fname in ("Zeroconf::resolve_updated_instances", "Zeroconf::query_cache_for_service"):
        f = P.one(fname)
        tr = tracer(P, f)
        ap = calls_to(f, "Zeroconf::add_pending_resolve")
        ok = len(ap) == 1
        if ok:
            e = tr.operand(ap[0][1]["args"][1], endpos(f, ap[0][0]))
            ok = has_call(e, "HashSet::drain") and has_call(e, "HashSet::new")
            # every invalid instance is inserted into that set
            news = [x for x in walk(e) if x[0] == "call" and name_matches(strip_generics(x[1]), "HashSet::new")]
            ins = [b for b, t in f.calls() if name_matches(cname(t), "HashSet::insert") and news and any(x == news[0] for x in walk(tr.operand(t["args"][0], endpos(f, b))))]
            e_inv = guard_edges(P, f, lambda atom, outcome, bb: atom[0] == "call" and name_matches(strip_generics(atom[1]), "ResolvedService::is_valid") and outcome is False)
            if fname.endswith("resolve_updated_instances"):
                okk = bool(ins) and bool(e_inv)
                for (bb, tgt) in e_inv:
                    loops = f.loops()
                    heads = [x for x, body in loops.items() if bb in body]
                    hh = min(heads, key=lambda x: len(loops[x])) if heads else None
                    if hh is not None and hh in f.reachable(tgt, removed_blocks=ins):
                        okk = False
                ok = ok and okk
            else:
                ok = ok and bool(ins)
        ctx.ob("C04c.unresolved-queued", f.name, ok, f.loc(), "every instance that could not be resolved from the cache is handed to add_pending_resolve")
    ap = P.one("Zeroconf::add_pending_resolve")
    atr = tracer(P, ap)
    ar = calls_to(ap, "Zeroconf::add_retransmission")
    ok = len(ar) == 1
    if ok:
        te = atr.operand(ar[0][1]["args"][1], endpos(ap, ar[0][0]))
        ce = atr.operand(ar[0][1]["args"][2], endpos(ap, ar[0][0]))
        ok = any(a[0] == "binop" and a[1].startswith("Add") and fold(a[3]) == 500 and has_call(a[2], "current_time_millis") for a in strip(te)) and \
            ("service_daemon::Command", "Resolve") in value_variants(ce)
    ctx.ob("C04c.F12.followup-in-500ms", ap.name, ok, ap.loc(), "a pending instance schedules Command::Resolve at now + 500 ms")
    er = P.one("Zeroconf::exec_command_resolve")
    etr = tracer(P, er)
    qu = calls_to(er, "Zeroconf::query_unresolved")
    ar = calls_to(er, "Zeroconf::add_retransmission")
    ok = len(qu) == 1 and len(ar) == 1 and er.dominates(qu[0][0], ar[0][0])
    ctx.ob("C04c.followup-queries", er.name, ok, er.loc(), "each Resolve run queries first and reschedules afterwards")
    q = P.one("Zeroconf::query_unresolved")
    qtr = tracer(P, q)
    kinds = set()
    for b, t in q.calls():
        if name_matches(cname(t), "Zeroconf::send_query"):
            kinds |= {v for (a, v) in value_variants(qtr.operand(t["args"][2], endpos(q, b)))}
        if name_matches(cname(t), "Zeroconf::send_query_vec"):
            e = qtr.operand(t["args"][1], endpos(q, b))
            for x in walk(e):
                if x[0] == "agg" and x[2] == "dns_parser::RRType":
                    kinds.add(x[3])
    ctx.ob("C04c.followup-question-types", q.name, kinds == {"ANY", "A", "AAAA"}, q.loc(), "follow-ups ask ANY for the instance or A + AAAA for the SRV host (%s)" % sorted(kinds))
    e_nosrv = guard_edges(P, q, lambda atom, outcome, bb: atom[0] == "variant" and has_call(atom[1], "DnsCache::get_srv") and outcome == frozenset(["None"]))
    anyq = [b for b, t in q.calls() if name_matches(cname(t), "Zeroconf::send_query")]
    e_noaddr = guard_edges(P, q, lambda atom, outcome, bb: atom[0] == "call" and name_matches(strip_generics(atom[1]), "Option::is_none") and has_call(atom, "DnsCache::get_addr") and outcome is True)
    addrq = [b for b, t in q.calls() if name_matches(cname(t), "Zeroconf::send_query_vec")]
    ok = bool(anyq) and all(must_pass_edges(q, b, e_nosrv) for b in anyq) and bool(addrq) and all(must_pass_edges(q, b, e_noaddr) for b in addrq)
    ctx.ob("C04c.followup-asks-what-is-missing", q.name, ok, q.loc(), "ANY is asked when no SRV is cached; A/AAAA when the SRV host has no address")
    # ... and under the right names: the address questions carry the SRV's host (the name whose addresses are missing and
    # that the get_addr test looked at), the ANY question the instance name
    okn = bool(addrq)
    det = []
    for b in addrq:
        e = qtr.operand(q.term(b)["args"][1], endpos(q, b))
        names = [x for x in walk(e) if x[0] == "agg" and x[1] == "tuple" and len(x[4]) == 2]
        for tup in names:
            nm = tup[4][0]
            host = has_call(nm, "DnsSrv::host")
            det.append(show(nm)[:50])
            if not host:
                okn = False
        if not names:
            okn = okn and has_call(e, "DnsSrv::host") and not any(x == ("param", 2) for x in walk(e))
    for b in anyq:
        e = qtr.operand(q.term(b)["args"][1], endpos(q, b))
        if not any(x == ("param", 2) for x in strip(e)):
            okn = False
            det.append("ANY for " + show(e)[:40])
    ctx.ob("C04c.followup-asks-under-the-right-name", q.name, okn, q.loc(),
           "A/AAAA are asked for DnsSrv::host() of the cached SRV, ANY for the instance (%s)" % "; ".join(det[:3]))


def clause_d(ctx, P):
    f = P.one("Zeroconf::exec_command_browse")
    qc = calls_to(f, "Zeroconf::query_cache_for_service")
    sq = calls_to(f, "Zeroconf::send_query")
    ok = len(qc) == 1 and len(sq) == 1 and not reachable_without(f, qc[0][0], start=sq[0][0])
    idx = rerun_flag_param(P, f)
    e_first = guard_edges(P, f, lambda atom, outcome, bb: atom == ("param", idx) and outcome is False)
    ok2 = bool(qc) and bool(e_first)
    for (b, tgt) in e_first:
        if sq and sq[0][0] in f.reachable(tgt, removed_blocks=[qc[0][0]] + [b]):
            ok2 = False
    ctx.ob("C04d.cache-before-query", f.name, ok and ok2, f.loc(), "a new browse replays the cache before the first query is sent")


def clause_e(ctx, P):
    """a record set that contains a PTR of a browsed type is kept whatever other names come with it"""
    from .c20 import is_for_us_rule
    is_for_us_rule(ctx, P, "C04e")


def run(ctx, P):
    from . import r2
    r2.purges_keep_other_commands(ctx, P, "C04f")
    r2.sweeps_drop_empty_entries(ctx, P, "C04g")
    r2.events_are_lossless(ctx, P, "C04h")
    r2.changed_instance_is_the_ptr_target(ctx, P, "C04i")
    from . import r4
    r4.followup_guard_goes_through_ptr(ctx, P, "C04j")
    r4.resolved_event_per_listing(ctx, P, "C04k")
    r4.every_packet_dispatched(ctx, P, "C04l")
    r4.response_tail_always_runs(ctx, P, "C04m", want=("resolve",))
    r4.resolve_purge_clears_pending(ctx, P, "C04n")
    r4.exact_host_compare_gets_exact_names(ctx, P, "C04o")
    clause_e(ctx, P)
    clause_a(ctx, P)
    clause_b(ctx, P)
    clause_c(ctx, P)
    clause_d(ctx, P)
