"""C07 — A name is probed three times before it is announced, then announced twice."""
from .lib import *
from . import f4, f5, c06
from .f12 import ret_exprs, norm_cmp, linear, expect_cmp, F, P1, P2

EXPLANATION = (
    "Static rules: (a) F13 in prepare_announce — every unique record (cache-flush class) enters the announcement only "
    "under `!requires_probe() || is_probing_done(that record)`, a failed gate bumps the probing counter and the packet is "
    "returned only when the counter is zero; (b) is_probing_done answers true only for a record matching one in "
    "`active`, and who-writes DnsRegistry.active = {handle_expired_probes (adds), update_hostname (removes)}; finished "
    "probes come only from check_probing under `now >= next_send && expired(now)`; (c) F12 formulas: expired ≡ now >= "
    "start_time + 750, next_send := now + 250, probe question ANY with all probe records as authorities, start jitter "
    "fastrand::u64(0..250); (d) no answers while probing (status guards, shared with C06a); (e) every first successful "
    "announce schedules Command::RegisterResend at +1000 with a timer, and the resend handler finds the service (F5 on "
    "my_services); (f) announcement record set.  Decides these mechanisms, not bounded-time liveness or wire spacing."
    " (g) Every `false` result of is_probing_done has put the service on the probe's waiting list."
    " (h) Every retain on the rerun queue keeps the commands of other kinds (announcement repeats survive a stop_browse). (i) add_interface writes the status after every announce attempt (a stale Announced cannot cover a registry that probes again)."
    " (j) DnsRegistry::update_hostname restarts (start_time := probe_time) every probe whose records it rewrites."
    " (e') Every write of ServiceStatus::Announced is accompanied, on the same path or by a later loop of the function, by the construction of Command::RegisterResend (no 'one is already pending' shortcut)."
    " (k) Every iteration of the run loop calls probing_handler. (l) The name in Command::RegisterResend is the registered name (the key of my_services), never the conflict-resolved one.")
UNDECIDED = ["'reaches the announced state within a bounded time' (liveness)", "actual spacing of probe packets on the wire",
             "several services sharing a host name (value-level interplay of probes)"]

# functions that may set Announced without scheduling a resend, with the reason
RESEND_EXEMPT = {
    "service_daemon::Zeroconf::exec_command_register_resend":
        "this is the second announcement itself",
    "service_daemon::Zeroconf::add_interface":
        "re-announcement on an interface whose registry already holds every record of the service as active: records become "
        "active only through handle_expired_probes, whose caller (probing_handler) schedules the resend; C07 concerns services "
        "that require probing",
}


def clause_a(ctx, P):
    fn = P.one("service_daemon::prepare_announce")
    tr = tracer(P, fn)
    adds = calls_to(fn, "DnsOutgoing::add_answer_at_time")
    gates = calls_to(fn, "DnsRegistry::is_probing_done")
    e_noprobe = guard_edges(P, fn, lambda atom, outcome, bb: atom[0] == "call" and name_matches(strip_generics(atom[1]), "ServiceInfo::requires_probe") and outcome is False)
    n = 0
    sites = {s.bb: s for s in f4.builder_sites(P) if s.fn is fn}      # constructors and calls of record factories
    for (b, t) in adds:
        rec = tr.operand(t["args"][1], endpos(fn, b))
        ctor = [x for x in strip(rec) if x[0] == "call" and x[3][0] == fn.name and x[3][1] in sites]
        if not ctor:
            ctx.ob("C07a.anchor", "%s|add_answer_at_time" % fn.name, False, fn.loc(b), "cannot identify the record added: " + show(rec)[:80])
            continue
        c = ctor[0]
        site = sites[c[3][1]]
        kind = site.kind
        cls = fold(site.args["class"]) if "class" in site.args else None
        unique = cls is not None and (cls & 0x8000) != 0
        if not unique:
            continue
        n += 1
        e_done = guard_edges(P, fn, lambda atom, outcome, bb, c=c: atom[0] == "call" and name_matches(strip_generics(atom[1]), "DnsRegistry::is_probing_done")
                             and outcome is True and any(x == c for x in walk(atom)))
        ok = must_pass_edges(fn, b, e_noprobe | e_done) and bool(e_done)
        ctx.ob("C07a.F13.unique-record-gated", "%s|%s#%d" % (fn.name, kind, n), ok, fn.loc(b),
               "%s record is announced only under !requires_probe() || is_probing_done(this record)" % kind if ok else
               "%s record (cache-flush class) can be announced before its probe completed" % kind)
    ctx.floor("C07a.F13.unique-record-gated", n, 3, "unique records added in prepare_announce")
    # failed gate => counter bumped; Some(out) only when counter == 0
    incs = []
    cnt_local = None
    for l, d in enumerate(fn.locals):
        if d.get("name") == "probing_count":
            cnt_local = l
    ctx.require(cnt_local is not None, "C07a.anchor-count", fn.name, fn.loc(), "local probing_count found")
    if cnt_local is not None:
        for b, i, s in fn.assigns():
            if not s["p"]["proj"] and s["p"]["l"] == cnt_local:
                e = tr.rvalue(s["r"], (b, i))
                if e[0] == "binop" and e[1].startswith("Add"):
                    incs.append(b)
        e_fail = guard_edges(P, fn, lambda atom, outcome, bb: atom[0] == "call" and name_matches(strip_generics(atom[1]), "DnsRegistry::is_probing_done") and outcome is False)
        okc = bool(e_fail)
        rets = fn.exits()
        for (b, tgt) in e_fail:
            reach = fn.reachable(tgt, removed_blocks=incs)
            # without passing an increment, no further gate, no loop head and no return may be reached
            if any(fn.term(r)["k"] == "return" for r in reach):
                okc = False
        ctx.ob("C07a.failed-gate-counted", fn.name, okc, fn.loc(), "every failed probe gate increments probing_count before anything else (%d gates, %d increments)" % (len(e_fail), len(incs)))
        somes = [(b, i) for b, i, s in aggregates(fn, "option::Option", "Some") if s["p"]["ty"].endswith("Option<dns_parser::DnsOutgoing>")]
        e_zero = guard_edges(P, fn, lambda atom, outcome, bb: atom[0] == "binop" and atom[1] == "Gt" and fold(atom[3]) == 0 and outcome is False)
        oks = bool(somes) and all(must_pass_edges(fn, b, e_zero) for (b, i) in somes)
        ctx.ob("C07a.packet-only-when-all-done", fn.name, oks, fn.loc(), "Some(packet) is returned only when probing_count > 0 is false")


def clause_b(ctx, P):
    fn = P.one("DnsRegistry::is_probing_done")
    tr = tracer(P, fn)
    trues = []
    for b, i, s in fn.assigns():
        if not s["p"]["proj"] and s["p"]["l"] == 0 and s["r"]["k"] == "use" and s["r"]["a"].get("val") in (1, True):
            trues.append((b, i))
    ctx.require(len(trues) >= 1, "C07b.anchor", fn.name, fn.loc(), "`return true` site in is_probing_done")
    e_match = guard_edges(P, fn, lambda atom, outcome, bb: atom[0] == "call" and name_matches(strip_generics(atom[1]), "DnsRecordExt::matches")
                          and outcome is True and expr_mentions_field(atom, "active", "DnsRegistry"))
    for (b, i) in trues:
        ok = must_pass_edges(fn, b, e_match)
        ctx.ob("C07b.done-means-active", fn.name, ok, fn.loc(b, i), "is_probing_done returns true only when the record matches one stored in `active`")
    # who writes DnsRegistry.active
    MUT = ("insert", "get_mut", "entry", "iter_mut", "values_mut", "remove", "retain", "clear", "drain", "extend", "remove_entry")
    writers = {}
    for f in P.lib_fns():
        ftr = tracer(P, f)
        for b, t in f.calls():
            n = cname(t)
            if ("HashMap" in n or "hash_map" in n) and method(n) in MUT and t["args"]:
                recv = ftr.operand(t["args"][0], endpos(f, b))
                if expr_mentions_field(recv, "active", "DnsRegistry"):
                    writers.setdefault(f.name.split("::{closure")[0], set()).add(method(n))
    allowed = {"service_daemon::handle_expired_probes", "service_info::DnsRegistry::update_hostname"}
    extra = set(writers) - allowed
    ctx.ob("C07b.who-writes-active", "DnsRegistry.active", not extra and allowed <= set(writers), "",
           "DnsRegistry.active is mutated only by %s" % {k: sorted(v) for k, v in writers.items()})
    # update_hostname only removes from active (retain), never inserts
    uh = writers.get("service_info::DnsRegistry::update_hostname", set())
    ctx.ob("C07b.update-hostname-removes-only", "service_info::DnsRegistry::update_hostname", uh <= {"iter_mut", "values_mut", "retain", "get_mut"} and "insert" not in uh, "",
           "update_hostname touches `active` through %s only" % sorted(uh))
    # finished probes: check_probing pushes a name only under now >= next_send && expired(now)
    cp = P.one("service_daemon::check_probing")
    ctr = tracer(P, cp)
    pushes = [b for b, t in cp.calls() if cname(t) == "std::vec::Vec::push" and t["dest"]["ty"] == "()" and
              any(x[0] == "call" and strip_generics(x[1]).endswith("Vec::new") for x in walk(ctr.operand(t["args"][0], endpos(cp, b))))
              and "String" in (t.get("gargs") or [""])[0]]
    e_exp = guard_edges(P, cp, lambda atom, outcome, bb: atom[0] == "call" and name_matches(strip_generics(atom[1]), "Probe::expired") and outcome is True)
    e_due = guard_edges(P, cp, lambda atom, outcome, bb: atom[0] == "binop" and atom[1] == "Ge" and expr_mentions_field(atom[3], "next_send", "Probe") and outcome is True)
    ok = bool(pushes) and all(must_pass_edges(cp, b, e_exp) and must_pass_edges(cp, b, e_due) for b in pushes)
    ctx.ob("C07b.finished-only-when-expired", cp.name, ok, cp.loc(), "a probe name is reported finished only under now >= next_send && probe.expired(now)")
    ph = P.one("Zeroconf::probing_handler")
    ptr_ = tracer(P, ph)
    he = calls_to(ph, "service_daemon::handle_expired_probes")
    ok = False
    for (b, t) in he:
        e = ptr_.operand(t["args"][0], endpos(ph, b))
        if has_call(e, "service_daemon::check_probing"):
            ok = True
    ctx.ob("C07b.expired-from-check-probing", ph.name, ok and len(he) == 1, ph.loc(), "handle_expired_probes consumes the finished list of check_probing")
    sites = P.call_sites_of("service_daemon::handle_expired_probes")
    ctx.ob("C07b.single-consumer", "handle_expired_probes", len(sites) == 1, "", "handle_expired_probes has one call site (%d)" % len(sites))


def clause_c(ctx, P):
    ex = P.one("Probe::expired")
    rs = ret_exprs(P, ex)
    ok = len(rs) == 1 and norm_cmp(rs[0]) == expect_cmp("Ge", {P2: 1}, {F("start_time"): 1, (): 750})
    ctx.ob("C07c.F12.expired-formula", ex.name, ok, ex.loc(), "Probe::expired ≡ now >= start_time + 750 (%s)" % "; ".join(show(r) for r in rs))
    un = P.one("Probe::update_next_send")
    tr = tracer(P, un)
    ok = False
    for b, i, s in un.assigns():
        if place_mentions_field(s["p"], "Probe", "next_send"):
            e = tr.rvalue(s["r"], (b, i))
            ok = linear(e) == ((P2,), 250)
    ctx.ob("C07c.F12.next-send-formula", un.name, ok, un.loc(), "update_next_send: next_send := now + 250")
    pn = P.one("Probe::new")
    tr = tracer(P, pn)
    ok = False
    for b, i, s in aggregates(pn, "service_info::Probe"):
        names = s["r"]["fields"]
        vals = {nm: tr.operand(op, (b, i)) for nm, op in zip(names, s["r"]["ops"])}
        ok = strip(vals["start_time"]) == {("param", 1)} and strip(vals["next_send"]) == {("param", 1)}
    ctx.ob("C07c.probe-new", pn.name, ok, pn.loc(), "a new probe starts with next_send = start_time (first probe at T)")
    cp = P.one("service_daemon::check_probing")
    tr = tracer(P, cp)
    aq = calls_to(cp, "DnsOutgoing::add_question")
    au = calls_to(cp, "DnsOutgoing::add_authority")
    un_ = calls_to(cp, "Probe::update_next_send")
    e_notexp = guard_edges(P, cp, lambda atom, outcome, bb: atom[0] == "call" and name_matches(strip_generics(atom[1]), "Probe::expired") and outcome is False)
    e_due = guard_edges(P, cp, lambda atom, outcome, bb: atom[0] == "binop" and atom[1] == "Ge" and expr_mentions_field(atom[3], "next_send", "Probe") and outcome is True)
    ok = len(aq) == 1 and len(au) == 1 and len(un_) == 1
    ctx.require(ok, "C07c.anchor", cp.name, cp.loc(), "check_probing has one add_question, one add_authority, one update_next_send")
    if ok:
        qb, qt = aq[0]
        okq = must_pass_edges(cp, qb, e_notexp) and must_pass_edges(cp, qb, e_due)
        ctx.ob("C07c.probe-sent-iff-due", cp.name, okq, cp.loc(qb), "a probe question is added iff now >= next_send && !expired(now)")
        qty = tr.operand(qt["args"][2], endpos(cp, qb))
        ctx.ob("C07c.probe-question-any", cp.name, ("dns_parser::RRType", "ANY") in value_variants(qty), cp.loc(qb), "probe question type is ANY")
        ab, at = au[0]
        ae = tr.operand(at["args"][1], endpos(cp, ab))
        loops = cp.loops()
        inloop = [h for h, body in loops.items() if ab in body]
        okall = expr_mentions_field(ae, "records", "Probe") and len(inloop) >= 2
        if okall:
            h = min(inloop, key=lambda h: len(loops[h]))
            se = guard_edges(P, cp, lambda atom, outcome, bb: bb in loops[h] and atom[0] == "variant" and outcome == frozenset(["Some"]) and has_call(atom[1], "::next"))
            for (b, tgt) in se:
                if h in cp.reachable(tgt, removed_blocks=[ab]):
                    okall = False
        ctx.ob("C07c.all-records-in-authority", cp.name, okall, cp.loc(ab), "every record of probe.records is cloned into the authority section")
        ub = un_[0][0]
        ctx.ob("C07c.next-send-advanced", cp.name, cp.dominates(qb, ub), cp.loc(ub), "next_send is advanced whenever a probe is sent")
    # jitter
    for name in ("service_daemon::prepare_announce", "Zeroconf::conflict_handler"):
        f = P.one(name)
        ftr = tracer(P, f)
        ok = False
        for b, t in f.calls():
            if cname(t) == "fastrand::u64":
                e = ftr.operand(t["args"][0], endpos(f, b))
                rng = [x for x in walk(e) if x[0] == "agg" and (x[2] or "").endswith("ops::Range")]
                if rng and fold(rng[0][4][0]) == 0 and fold(rng[0][4][1]) == 250:
                    ok = True
        ctx.ob("C07c.start-jitter", f.name, ok, f.loc(), "probe start time = now + fastrand::u64(0..250)")


def clause_e(ctx, P):
    n = 0
    for f in P.lib_fns():
        ftr = tracer(P, f)
        sets = []
        for b, t in f.calls():
            if name_matches(cname(t), "ServiceInfo::set_status") and len(t["args"]) == 3:
                st = ftr.operand(t["args"][2], endpos(f, b))
                if ("service_info::ServiceStatus", "Announced") in value_variants(st):
                    sets.append(b)
        if not sets:
            continue
        n += 1
        if f.name in RESEND_EXEMPT:
            ctx.ob("C07e.resend-scheduled", f.name, True, f.loc(), "exempt: " + RESEND_EXEMPT[f.name])
            continue
        # constructs Command::RegisterResend, time = now + 1000, paired with a timer
        rs = list(aggregates(f, "service_daemon::Command", "RegisterResend"))
        ok = bool(rs)
        detail = "no Command::RegisterResend is scheduled by a function that sets Announced"
        if ok:
            ok = False
            for b, t in f.calls():
                if name_matches(cname(t), "Zeroconf::add_retransmission"):
                    te = ftr.operand(t["args"][1], endpos(f, b))
                    ce = ftr.operand(t["args"][2], endpos(f, b))
                    if ("service_daemon::Command", "RegisterResend") in value_variants(ce) and _plus(te, 1000):
                        ok = True
                        detail = "RegisterResend scheduled through add_retransmission at now + 1000"
            for b, i, s in aggregates(f, "service_daemon::ReRun"):
                e = ftr.rvalue(s["r"], (b, i))
                names = s["r"]["fields"]
                vals = dict(zip(names, e[4]))
                if ("service_daemon::Command", "RegisterResend") in value_variants(vals["command"]) and _plus(vals["next_time"], 1000):
                    # raw push: a timers.push(Reverse(next_time)) with the same value must follow
                    for bb, t in f.calls():
                        if name_matches(cname(t), "BinaryHeap::push") and recv_mentions(P, f, bb, t, "timers", "Zeroconf"):
                            pe = ftr.operand(t["args"][1], endpos(f, bb))
                            if any(x == vals["next_time"] for x in walk(pe)) and f.dominates(b, bb):
                                ok = True
                                detail = "RegisterResend pushed on retransmissions at now + 1000 and the same time pushed on the timer heap"
        ctx.ob("C07e.resend-scheduled", f.name, ok, f.loc(), detail)
        # ... and on EVERY path that sets Announced: the construction of the resend either dominates the status write or lies on
        # every path that follows it up to the end of the iteration (no "one is already pending" shortcut: the resend is per
        # interface, and a pending one of another interface announces nothing here)
        rbs = [b for b, i, s in rs]
        loops = f.loops()
        bad = []
        for sb in sets:
            if any(f.dominates(rb, sb) for rb in rbs):
                continue
            # the resend may also be scheduled by a later loop of the function (one per interface that answered)
            heads = [h for h, body in loops.items() if sb in body and any(rb in body for rb in rbs)]
            stop = set(rbs) | {h for h, body in loops.items() if sb not in body and any(rb in body for rb in rbs)}
            seen, st, esc = {sb}, [sb], False
            while st and not esc:
                x = st.pop()
                if f.term(x)["k"] == "return":
                    esc = True
                for s_ in f.succs(x):
                    if s_ in stop or s_ in seen:
                        continue
                    if s_ in heads:
                        esc = True
                        continue
                    seen.add(s_)
                    st.append(s_)
            if esc:
                bad.append(f.loc(sb))
        ctx.ob("C07e.resend-on-every-announce", f.name, not bad, f.loc(),
               "every write of ServiceStatus::Announced is accompanied by the construction of Command::RegisterResend" if not bad else
               "the status is set to Announced at %s on a path that schedules no RegisterResend: the second announcement (RFC 6762 8.3) is "
               "not sent for that interface" % bad[:2])
    ctx.floor("C07e.resend-scheduled", n, 4, "functions that set ServiceStatus::Announced")
    # the resend handler must find the service: F5 on my_services
    f5.run_f5(ctx, P, {"my_services"}, rule="C07e.F5.key-normalised", floor=5)
    # and when it does not find it, it does not announce
    rh = P.one("Zeroconf::exec_command_register_resend")
    ann = calls_to(rh, "service_daemon::announce_service_on_intf")
    e_some = guard_edges(P, rh, lambda atom, outcome, bb: atom[0] == "variant" and has_call(atom[1], "HashMap::get_mut") and expr_mentions_field(atom[1], "my_services", "Zeroconf") and outcome == frozenset(["Some"]))
    ok = bool(ann) and all(must_pass_edges(rh, b, e_some) for b, t in ann)
    ctx.ob("C07e.resend-needs-service", rh.name, ok, rh.loc(), "the second announcement is sent only for a service still present in my_services")


def _plus(e, k):
    for a in strip(e):
        if a[0] == "binop" and a[1].startswith("Add") and fold(a[3]) == k and (has_call(a[2], "current_time_millis") or a[2][0] in ("param", "call")):
            return True
    return False


def clause_waiters(ctx, P):
    """liveness, structural part: a service that is told to wait for a probe (is_probing_done == false) is on that
    probe's waiting list, so the end of the probe wakes it"""
    f = P.one("DnsRegistry::is_probing_done")
    tr = tracer(P, f)
    sidx = param_index(f, "service_name", "&str")
    ins = []
    for b, t in f.calls():
        if name_matches(cname(t), "HashSet::insert") and recv_is_field(P, f, b, t, "waiting_services", "Probe"):
            e = arg_expr(tr, f, b, t, 1)
            if sidx is not None and any(x == ("param", sidx) for x in walk(e)):
                ins.append(b)
    ctx.require(bool(ins) and sidx is not None, "C07g.anchor", f.name, f.loc(), "%d insertions of service_name into Probe.waiting_services" % len(ins))
    falses = [b for b, i, s in f.assigns() if not s["p"]["proj"] and s["p"]["l"] == 0 and s["r"]["k"] == "use" and s["r"]["a"].get("val") in (0, False)]
    ctx.require(bool(falses), "C07g.anchor", f.name + "|return false", f.loc(), "%d `false` results" % len(falses))
    for k, b in enumerate(sorted(falses)):
        ok = must_pass_blocks(f, b, ins)
        ctx.ob("C07g.waiter-registered", "%s|return false#%d" % (f.name, k + 1), ok, f.loc(b),
               "every path to this `false` registers the service on the probe's waiting list" if ok else
               "the service is told to wait (false) on a path that never adds it to Probe.waiting_services: nothing wakes it when the probe ends")


def run(ctx, P):
    from . import r2
    r2.purges_keep_other_commands(ctx, P, "C07h")
    r2.interface_rules(ctx, P, "C07i", want=("status",))
    r2.rewritten_probe_restarts(ctx, P, "C07j")
    from . import r4
    r4.probes_driven_every_iteration(ctx, P, "C07k")
    r4.resend_is_keyed_like_my_services(ctx, P, "C07l")
    clause_waiters(ctx, P)
    clause_a(ctx, P)
    clause_b(ctx, P)
    clause_c(ctx, P)
    c06.clause_a(ctx, P)          # (d) status guards
    clause_e(ctx, P)
    f4.check_sibling_sets(ctx, P, "C07f", ["service_daemon::prepare_announce"])
