"""C09 — Unregistering says goodbye for exactly what was announced, then goes quiet."""
from .lib import *
from . import f4, f5
from .f13 import status_guard_edges, contains_expr

EXPLANATION = (
    "Static rules: (a) exec_command_unregister answers from my_services.remove_entry(key): None ⇒ NotFound, Some ⇒ OK, "
    "a reply is sent on both arms, and the key is lower-cased where the Command is built (F5); (b) F4 in "
    "unregister_service: every record has TTL constant 0, class per type, subnet-filtered addresses, the same record set "
    "as an announcement, all added as answers; the goodbye is produced per interface and socket family in both "
    "exec_command_unregister and cleanup; (c) F4 rename taint: names in the goodbye pass DnsRegistry::resolve_name; "
    "(d) F13: the goodbye on an interface is control-dependent on get_status(if_index) == Announced; (e) one "
    "UnregisterResend at now + 120 per non-empty packet, only on the first run, with a timer (F6); (f) the entry is "
    "removed before the reply and the resend handler does nothing for a missing service.  Decides these mechanisms, not "
    "what later queries observe over histories."
    " (g) Purges of the rerun queue keep UnregisterResend and every other kind. (h) add_interface does not replace an existing DnsRegistry."
    " (i) The per-interface status is never reset to Unknown while the interface is in use."
    " (j) The repeat of a goodbye is queued with is_ipv4 = true exactly in the branch that used the IPv4 socket."
    " (k) After a successful removal every path of exec_command_unregister enters the goodbye loop, whatever happens to the status reply, and DnsRegistry.name_changes is not edited before the goodbye was built. (l) After the IPv4 goodbye of an interface the IPv6 socket is always tried."
    " (m) as C06q. (n) No purge of the rerun queue names UnregisterResend (it carries no service name).")
UNDECIDED = ["what later queries observe over histories", "timing of the repeat on the wire"]


def clause_a(ctx, P):
    fn = P.one("Zeroconf::exec_command_unregister")
    tr = tracer(P, fn)
    rem = [(b, t) for b, t in fn.calls() if name_matches(cname(t), "HashMap::remove_entry", "HashMap::remove") and recv_mentions(P, fn, b, t, "my_services", "Zeroconf")]
    ctx.require(len(rem) == 1, "C09a.anchor", fn.name, fn.loc(), "one removal from my_services (found %d)" % len(rem))
    sends = [em for em in direct_sends(P, fn)]
    ctx.require(len(sends) == 1, "C09a.anchor-send", fn.name, fn.loc(), "one reply send (found %d)" % len(sends))
    if len(rem) != 1 or len(sends) != 1:
        return
    rb = rem[0][0]
    s = sends[0]
    # the reply value: phi(OK | NotFound); each alternative's defining block is guarded by the matching arm
    e_some = guard_edges(P, fn, lambda atom, outcome, bb: atom[0] == "variant" and atom[1][0] == "call" and atom[1][3] == (fn.name, rb) and outcome == frozenset(["Some"]))
    e_none = guard_edges(P, fn, lambda atom, outcome, bb: atom[0] == "variant" and atom[1][0] == "call" and atom[1][3] == (fn.name, rb) and outcome == frozenset(["None"]))
    srcs = {b for (b, _t) in e_some}
    e_some = {(b, t) for (b, t) in e_some if not any(o != b and fn.dominates(o, b) for o in srcs)}
    srcs = {b for (b, _t) in e_none}
    e_none = {(b, t) for (b, t) in e_none if not any(o != b and fn.dominates(o, b) for o in srcs)}
    oks = okn = False
    for b, i, st in aggregates(fn, "service_daemon::UnregisterStatus"):
        if st["r"]["vname"] == "OK":
            oks = must_pass_edges(fn, b, e_some)
        if st["r"]["vname"] == "NotFound":
            okn = must_pass_edges(fn, b, e_none)
    ctx.ob("C09a.ok-iff-registered", fn.name, oks and okn, fn.loc(rb),
           "UnregisterStatus::OK is produced exactly on the Some arm of my_services.remove_entry, NotFound on the None arm")
    vs = s.names()
    ctx.ob("C09a.reply-values", fn.name, vs == {"OK", "NotFound"}, fn.loc(s.bb), "the reply is OK or NotFound (%s)" % sorted(vs))
    ok = all_paths_to_return_pass(fn, rb, [s.bb])
    ctx.ob("C09a.reply-on-both-arms", fn.name, ok, fn.loc(s.bb), "every path after the removal sends the reply")
    # (f) removed before the reply
    ctx.ob("C09f.removed-before-reply", fn.name, fn.dominates(rb, s.bb), fn.loc(s.bb), "the service is removed from my_services before the reply is sent")
    f5.run_f5(ctx, P, {"my_services"}, rule="C09a.F5.key-normalised", only_fns=["Zeroconf::exec_command_unregister", "Zeroconf::cleanup"], floor=2)


def clause_b(ctx, P):
    only = lambda s: s.fn.name == "service_daemon::Zeroconf::unregister_service"
    n = f4.check_class_ttl(ctx, P, "C09b", only)
    ctx.floor("C09b.F4.goodbye-sites", n, 5, "record constructors in unregister_service")
    f4.check_address_provenance(ctx, P, "C09b", only)
    f4.check_sibling_sets(ctx, P, "C09b", ["Zeroconf::unregister_service"])
    fn = P.one("Zeroconf::unregister_service")
    tr = tracer(P, fn)
    # every constructed record is added as an answer
    adds = calls_to(fn, "DnsOutgoing::add_answer_at_time")
    sites = [s for s in f4.builder_sites(P) if s.fn is fn]
    for s in sites:
        ok = any(any(x[0] == "call" and x[3] == (fn.name, s.bb) for x in walk(tr.operand(t["args"][1], endpos(fn, b)))) for b, t in adds)
        ctx.ob("C09b.added-as-answer", s.key(s.ord), ok, fn.loc(s.bb), "the goodbye %s record is added to the answer section" % s.kind)
    # the announcement sibling: same record set as prepare_announce
    ctx.ob("C09b.same-set-as-announce", fn.name, f4.record_set(P, fn) == f4.record_set(P, P.one("service_daemon::prepare_announce")), fn.loc(),
           "goodbye builds the same record kinds as the announcement")
    goodbye_per_interface_and_family(ctx, P)


def goodbye_per_interface_and_family(ctx, P, callers=("Zeroconf::exec_command_unregister", "Zeroconf::cleanup")):
    # per interface x family, in both callers
    for caller in callers:
        cf = P.one(caller)
        ctr = tracer(P, cf)
        cs = calls_to(cf, "Zeroconf::unregister_service")
        fams = set()
        per_intf = True
        loops = cf.loops()
        for (b, t) in cs:
            se = ctr.operand(t["args"][3], endpos(cf, b))
            for fld in ("ipv4_sock", "ipv6_sock"):
                if expr_mentions_field(se, fld, "Zeroconf"):
                    fams.add(fld)
            ie = ctr.operand(t["args"][2], endpos(cf, b))
            if not (expr_mentions_field(ie, "my_intfs", "Zeroconf") and any(b in body for body in loops.values())):
                per_intf = False
        ctx.ob("C09b.per-interface-and-family", cf.name, fams == {"ipv4_sock", "ipv6_sock"} and per_intf and len(cs) == 2, cf.loc(),
               "goodbye is built for every interface of my_intfs over the IPv4 and the IPv6 socket (%d calls, %s)" % (len(cs), sorted(fams)))
    # cleanup covers every registered service
    cf = P.one("Zeroconf::cleanup")
    ctr = tracer(P, cf)
    cs = calls_to(cf, "Zeroconf::unregister_service")
    ok = False
    for (b, t) in cs:
        e = ctr.operand(t["args"][1], endpos(cf, b))
        if expr_mentions_field(e, "my_services", "Zeroconf") and has_call(e, "::keys", "::values", "::iter"):
            ok = True
    ctx.ob("C09b.cleanup-all-services", cf.name, ok, cf.loc(), "cleanup says goodbye for every key of my_services")


def clause_c(ctx, P):
    only = lambda s: s.fn.name == "service_daemon::Zeroconf::unregister_service"
    f4.check_rename_taint(ctx, P, "C09c", only)


def clause_d(ctx, P):
    for caller in ("Zeroconf::exec_command_unregister", "Zeroconf::cleanup"):
        cf = P.one(caller)
        ctr = tracer(P, cf)
        cs = calls_to(cf, "Zeroconf::unregister_service")
        guards = status_guard_edges(P, cf)
        for j, (b, t) in enumerate(cs):
            info = ctr.operand(t["args"][1], endpos(cf, b))
            good = {edge for (edge, S, I) in guards if contains_expr(info, S) or contains_expr(S, info) or strip(S) & strip(info)}
            ok = bool(good) and must_pass_edges(cf, b, good)
            # alternatively the builder itself may test the status
            if not ok:
                uf = P.one("Zeroconf::unregister_service")
                ug = status_guard_edges(P, uf)
                snd = calls_to(uf, "service_daemon::send_dns_outgoing")
                ok = bool(ug) and bool(snd) and all(must_pass_edges(uf, sb, {e for (e, S, I) in ug}) for sb, st in snd)
            ctx.ob("C09d.F13.goodbye-only-where-announced", "%s|unregister_service#%d" % (cf.name, j + 1), ok, cf.loc(b),
                   "the goodbye for an interface is sent only when the service's status on that interface is Announced" if ok else
                   "no status test guards the goodbye: a service still probing on (or never announced on) an interface is withdrawn there")


def clause_e(ctx, P):
    fn = P.one("Zeroconf::exec_command_unregister")
    tr = tracer(P, fn)
    idx = rerun_flag_param(P, fn)
    e_first = guard_edges(P, fn, lambda atom, outcome, bb: atom == ("param", idx) and outcome is False)
    reruns = list(aggregates(fn, "service_daemon::ReRun"))
    ctx.floor("C09e.resend-sites", len(reruns), 2, "ReRun constructions in exec_command_unregister (v4, v6)")
    times = []
    for j, (b, i, s) in enumerate(reruns):
        e = tr.rvalue(s["r"], (b, i))
        vals = dict(zip(s["r"]["fields"], e[4]))
        isr = ("service_daemon::Command", "UnregisterResend") in value_variants(vals["command"])
        t120 = any(a[0] == "binop" and a[1].startswith("Add") and fold(a[3]) == 120 and has_call(a[2], "current_time_millis") for a in strip(vals["next_time"]))
        ctx.ob("C09e.resend-120ms", "%s|ReRun#%d" % (fn.name, j + 1), isr and t120, fn.loc(b, i), "UnregisterResend scheduled at now + 120: %s" % show(vals["next_time"])[:60])
        # packet payload = result of unregister_service, non-empty, first run only
        cmd = [x for x in walk(vals["command"]) if x[0] == "agg" and x[3] == "UnregisterResend"]
        okp = bool(cmd) and has_call(cmd[0][4][0], "Zeroconf::unregister_service")
        e_nonempty = guard_edges(P, fn, lambda atom, outcome, bb: atom[0] == "call" and name_matches(strip_generics(atom[1]), "Vec::is_empty") and outcome is False
                                 and has_call(atom, "Zeroconf::unregister_service"))
        okg = must_pass_edges(fn, b, e_first) and must_pass_edges(fn, b, e_nonempty)
        ctx.ob("C09e.resend-first-run-nonempty", "%s|ReRun#%d" % (fn.name, j + 1), okp and okg, fn.loc(b, i),
               "the repeat carries the packet just sent and is scheduled only when !repeating && !packet.is_empty()")
        times.append((b, vals["next_time"]))
        # F6: pushed on retransmissions and the same time recorded for a timer
        pushed = False
        timed = False
        for bb, t in fn.calls():
            if cname(t) == "std::vec::Vec::push":
                if recv_mentions(P, fn, bb, t, "retransmissions", "Zeroconf"):
                    pe = tr.operand(t["args"][1], endpos(fn, bb))
                    if any(x[0] == "agg" and x == e for x in walk(pe)) or (bb == b or fn.dominates(b, bb)):
                        pushed = pushed or fn.dominates(b, bb)
                else:
                    pe = tr.operand(t["args"][1], endpos(fn, bb))
                    if any(x == vals["next_time"] for x in strip(pe)) and fn.dominates(b, bb):
                        timed = True
        ctx.ob("C09e.F6.resend-timed", "%s|ReRun#%d" % (fn.name, j + 1), pushed and timed, fn.loc(b, i),
               "the rerun is queued and its time is recorded in the local timer list")
    # the local timer list is drained into add_timer after the interface loop
    adds = calls_to(fn, "Zeroconf::add_timer")
    ok = False
    for (b, t) in adds:
        e = tr.operand(t["args"][1], endpos(fn, b))
        if has_call(e, "::next") and has_call(e, "Vec::new"):
            ok = True
    ctx.ob("C09e.F6.timer-list-drained", fn.name, ok, fn.loc(), "every recorded time is handed to add_timer")
    # the resend handler multicasts the stored packet
    rh = P.one("Zeroconf::exec_command_unregister_resend")
    rtr = tracer(P, rh)
    mc = calls_to(rh, "service_daemon::multicast_on_intf")
    ok = len(mc) == 1 and any(x == ("param", 2) for x in walk(rtr.operand(mc[0][1]["args"][0], endpos(rh, mc[0][0]))))
    ctx.ob("C09e.resend-sends-packet", rh.name, ok, rh.loc(), "UnregisterResend multicasts the stored packet bytes")


def clause_f(ctx, P):
    rh = P.one("Zeroconf::exec_command_register_resend")
    ann = calls_to(rh, "service_daemon::announce_service_on_intf")
    e_some = guard_edges(P, rh, lambda atom, outcome, bb: atom[0] == "variant" and has_call(atom[1], "HashMap::get_mut") and expr_mentions_field(atom[1], "my_services", "Zeroconf") and outcome == frozenset(["Some"]))
    ok = bool(ann) and all(must_pass_edges(rh, b, e_some) for b, t in ann)
    ctx.ob("C09f.no-reannounce-after-unregister", rh.name, ok, rh.loc(), "a pending RegisterResend does nothing once the service left my_services")
    # all answer paths iterate my_services: handle_query's service expressions derive from my_services
    hq = P.one("Zeroconf::handle_query")
    tr = tracer(P, hq)
    n = 0
    bad = 0
    for b, t in hq.calls():
        if name_matches(cname(t), "ServiceInfo::get_status"):
            n += 1
            e = tr.operand(t["args"][0], endpos(hq, b))
            if not expr_mentions_field(e, "my_services", "Zeroconf"):
                bad += 1
    ctx.ob("C09f.answers-from-registered-only", hq.name, n >= 3 and bad == 0, hq.loc(), "every answering service in handle_query is taken from my_services (%d lookups)" % n)


def run(ctx, P):
    from . import r2
    r2.purges_keep_other_commands(ctx, P, "C09g")
    r2.interface_rules(ctx, P, "C09h", want=("registry",))
    r2.status_never_forgotten(ctx, P, "C09i")
    r2.resend_goes_out_on_the_family_it_was_built_for(ctx, P, "C09j")
    r2.goodbye_independent_of_reply_and_state_order(ctx, P, "C09k")
    r2.both_families_every_interface(ctx, P, "C09l")
    from . import r4
    r4.shared_host_rename_outlives_one_service(ctx, P, "C09m")
    r4.goodbye_repeat_never_cancelled(ctx, P, "C09n")
    clause_a(ctx, P)
    clause_b(ctx, P)
    clause_c(ctx, P)
    clause_d(ctx, P)
    clause_e(ctx, P)
    clause_f(ctx, P)
