"""F9 start/stop sibling agreement on the rerun queue (Zeroconf.retransmissions)."""
from .lib import *

SEARCH_MAP = {"Browse": "service_queriers", "ResolveHostname": "hostname_resolvers"}
PURGE_METHODS = ("remove", "swap_remove", "retain", "retain_mut", "drain", "clear", "truncate")


def _command_switches(P, fn):
    """switch blocks whose scrutinee is the `command` of a ReRun: [(bb, [(tgt, outcome)])]"""
    out = []
    for b in sorted(fn.live_blocks()):
        if fn.term(b)["k"] != "switch":
            continue
        es = switch_edges(P, fn, b)
        if not es:
            continue
        atom = es[0][1]
        if atom[0] == "variant" and (expr_mentions_field(atom[1], "command", "ReRun") or _is_command_typed(P, fn, b)):
            out.append((b, [(tgt, outcome) for (tgt, _a, outcome) in es]))
    return out


def _is_command_typed(P, fn, bb):
    t = fn.term(bb)
    d = t["d"]
    if "p" not in d:
        return False
    for (b, i, kind, payload) in fn.defs().get(d["p"]["l"], []):
        if kind == "assign" and payload["k"] == "discr":
            return payload["p"]["ty"].replace("&", "").strip().endswith("service_daemon::Command")
    return False


def purge_info(P, fn, _depth=0):
    """{'removes': [(bb, variants)], 'regions': set(blocks a path must cross)}: purges of the rerun queue in fn"""
    removes = []
    regions = set()
    loops = fn.loops()
    sw = _command_switches(P, fn)
    for b, t in fn.calls():
        n = cname(t)
        if not n.startswith("std::vec::Vec::") or method(n) not in PURGE_METHODS:
            continue
        if not recv_mentions(P, fn, b, t, "retransmissions", "Zeroconf"):
            continue
        variants = set()
        m = method(n)
        if m in ("retain", "retain_mut"):
            # variants tested inside the closure
            for c in P.closures_of.get(fn.name, []):
                cf = P.fns[c]
                for (sb, es) in _command_switches(P, cf):
                    for (tgt, outcome) in es:
                        if len(outcome) == 1:
                            variants |= set(outcome)
            if not variants:
                variants = {"*"}
            regions.add(b)
        else:
            guarded = False
            for (sb, es) in sw:
                if not fn.dominates(sb, b):
                    continue
                guarded = True
                for (tgt, outcome) in es:
                    if b in fn.reachable(tgt, removed_blocks=[sb]):
                        variants |= set(outcome)
            if not guarded:
                variants = {"*"}
            # region: the innermost loop head containing the removal, else the block
            heads = [h for h, body in loops.items() if b in body]
            if heads:
                h = min(heads, key=lambda h: len(loops[h]))
                regions.add(h)
            else:
                regions.add(b)
        removes.append((b, variants))
    # helpers that purge
    if _depth < 2:
        for b, t in fn.calls():
            for tgt in P.call_targets(t):
                if tgt == fn.name or tgt not in P.fns or P.fns[tgt].in_tests():
                    continue
                g = P.fns[tgt]
                if not any(method(cname(tt)) in PURGE_METHODS and cname(tt).startswith("std::vec::Vec::") for _b, tt in g.calls()):
                    continue
                sub = purge_info(P, g, _depth + 1)
                if sub["removes"]:
                    vs = set()
                    for (_bb, v) in sub["removes"]:
                        vs |= v
                    removes.append((b, vs))
                    regions.add(b)
    return {"removes": removes, "regions": regions}


def scheduled_variants(P, fn):
    """Command variants constructed in fn (the reruns it schedules)"""
    out = {}
    for b, i, s in aggregates(fn, "service_daemon::Command"):
        out.setdefault(s["r"]["vname"], []).append((b, i))
    return out


def closure_paths(P, cf, limit=4000):
    """all paths entry -> return of a (small) closure with constant propagation of booleans (`let hit = matches!(..);
    .. !hit`): [(frozenset of switch edges taken, value returned: True / False / None = not a constant)].  None when the
    path budget is exceeded."""
    out = []
    budget = [limit]

    def step(b, env, edges, seen):
        if budget[0] <= 0:
            return False
        env = dict(env)
        for s in cf.stmts(b):
            if s["k"] != "assign" or s["p"]["proj"]:
                continue
            r = s["r"]
            val = None
            if r["k"] == "use" and r["a"].get("k") == "const" and r["a"].get("val") in (0, 1, True, False) and (r["a"].get("ty") == "bool"):
                val = bool(r["a"]["val"])
            elif r["k"] == "use" and r["a"].get("k") in ("copy", "move") and not r["a"]["p"]["proj"]:
                val = env.get(r["a"]["p"]["l"])
            elif r["k"] == "unop" and r.get("op") == "Not" and r["a"].get("k") in ("copy", "move") and not r["a"]["p"]["proj"]:
                v = env.get(r["a"]["p"]["l"])
                val = (not v) if isinstance(v, bool) else None
            if val is None:
                env.pop(s["p"]["l"], None)
            else:
                env[s["p"]["l"]] = val
        t = cf.term(b)
        k = t["k"]
        if k == "return":
            budget[0] -= 1
            out.append((frozenset(edges), env.get(0)))
            return True
        if k == "call" and t.get("dest") and not t["dest"]["proj"]:
            env.pop(t["dest"]["l"], None)
        succs = []
        if k == "switch":
            d = t["d"]
            known = env.get(d["p"]["l"]) if ("p" in d and not d["p"]["proj"]) else None
            if isinstance(known, bool):
                x = int(known)
                tgt = None
                for v, tg in t["branches"]:
                    if v == x:
                        tgt = tg
                succs = [tgt if tgt is not None else t["otherwise"]]
            else:
                succs = [tg for _v, tg in t["branches"]] + [t["otherwise"]]
        else:
            succs = [x for x in cf.succs(b) if x != t.get("unwind")]
        for sx in succs:
            if (b, sx) in seen:
                continue        # one pass through each edge is enough for the closures at hand (no loops expected)
            if not step(sx, env, edges + ([(b, sx)] if k == "switch" else []), seen | {(b, sx)}):
                return False
        return True
    ok = step(0, {}, [], frozenset())
    return out if ok else None


def retain_predicate_facts(P, cf, variant):
    """for a retain predicate over the rerun queue: (keeps_others, keyed, detail).  keeps_others: every path that does
    not take the `variant` edge of a switch on the command returns the constant true.  keyed: every path that can return
    something else than true passes the true outcome of an equality between the variant's payload and something."""
    paths = closure_paths(P, cf)
    sws = _command_switches(P, cf)
    if paths is None or not sws:
        return None
    target_edges, other_edges = set(), set()
    for (sb, es) in sws:
        for (tgt, outcome) in es:
            if len(outcome) == 1 and "<other>" not in outcome and (variant is None or variant in outcome):
                target_edges.add((sb, tgt))
            else:
                other_edges.add((sb, tgt))
    eq_edges = guard_edges(P, cf, lambda atom, outcome, bb: atom[0] == "call" and strip_generics(atom[1]).endswith("::eq") and outcome is True and
                           any(any(x[0] == "downcast" and (variant is None or x[2] == variant) for x in walk(s_)) for s_ in atom[2]))
    ne_edges = guard_edges(P, cf, lambda atom, outcome, bb: atom[0] == "call" and strip_generics(atom[1]).endswith("::eq") and outcome is False and
                           any(any(x[0] == "downcast" and (variant is None or x[2] == variant) for x in walk(s_)) for s_ in atom[2]))
    keeps = True
    keyed = True
    polarity = True
    for (edges, ret) in paths:
        if not (edges & target_edges) and ret is not True:
            keeps = False
        if ret is not True and not (edges & eq_edges):
            keyed = False
        # an entry that matched the name (eq edge taken as true) must not be kept, one that did not match must not be dropped
        if ret is True and (edges & eq_edges):
            polarity = False
        if ret is False and (edges & ne_edges) and not (edges & eq_edges):
            polarity = False
    # the comparison returned as the predicate's value: it has to be `payload != name` (or `!(payload == name)`)
    from .f12 import ret_exprs
    for e in ret_exprs(P, cf):
        for a in (e[1] if e[0] == "phi" else (e,)):
            neg = False
            while a[0] == "unop" and a[1] == "Not":
                a = a[2]
                neg = not neg
            if a[0] == "call" and any(any(x[0] == "downcast" for x in walk(s_)) for s_ in a[2]):
                n = strip_generics(a[1])
                if (n.endswith("::eq") and not neg) or (n.endswith("::ne") and neg):
                    polarity = False
                if (n.endswith("::eq") and neg) or (n.endswith("::ne") and not neg):
                    keyed = keyed or True
    # a returned `payload != name` counts as keyed
    if not keyed:
        for e in ret_exprs(P, cf):
            for a in (e[1] if e[0] == "phi" else (e,)):
                pass
    return keeps, keyed, "%d path(s)" % len(paths), polarity


def _retain_closure_at(P, fn, b):
    t = fn.term(b)
    if t["k"] != "call" or method(cname(t)) not in ("retain", "retain_mut"):
        return None
    tr = tracer(P, fn)
    for a in t["args"][1:]:
        e = tr.operand(a, endpos(fn, b))
        for x in sorted(strip(e) | ({e} if e[0] == "closure" else set()), key=repr):
            if x[0] == "closure" and x[1] in P.fns:
                return P.fns[x[1]]
    return None


def _key_guard(P, fn, rb, variant, mapfield):
    cf = _retain_closure_at(P, fn, rb)
    if cf is not None:
        r = retain_predicate_facts(P, cf, variant)
        return bool(r and r[1])
    return _key_guard_loop(P, fn, rb, variant, mapfield)


def _key_guard_loop(P, fn, rb, variant, mapfield):
    """the removal is guarded by an equality between the rerun's payload key and the search key"""
    def pred(atom, outcome, bb):
        if atom[0] != "call":
            return False
        n = strip_generics(atom[1])
        if n.endswith("::eq") and outcome is True or n.endswith("::ne") and outcome is False:
            sides = atom[2]
            hit_payload = any(any(x[0] == "downcast" and x[2] == variant for x in walk(s)) for s in sides)
            return hit_payload
        return False
    edges = guard_edges(P, fn, pred)
    return bool(edges) and must_pass_edges(fn, rb, edges)


def check_start_stop(ctx, P, start, stop, mapfield, variant, rule="F9"):
    sf = P.one(start)
    tf = P.one(stop)
    sched = scheduled_variants(P, sf)
    ctx.ob(rule + ".F9.start-schedules", "%s|%s" % (sf.name, variant), variant in sched, sf.loc(),
           "start handler schedules Command::%s (constructs %s)" % (variant, sorted(sched)))
    # stop removes the search from its map
    rem = [b for b, t in tf.calls() if "HashMap" in cname(t) and method(cname(t)) in ("remove", "remove_entry")
           and recv_mentions(P, tf, b, t, mapfield, "Zeroconf")]
    ctx.ob(rule + ".F9.stop-removes-search", "%s|%s" % (tf.name, mapfield), bool(rem), tf.loc(),
           "stop handler removes the search from %s" % mapfield)
    info = purge_info(P, tf)
    vs = set()
    for (_b, v) in info["removes"]:
        vs |= v
    ok = (variant in vs or "*" in vs)
    ctx.ob(rule + ".F9.variant-agreement", "%s|%s" % (tf.name, variant), ok, tf.loc(info["removes"][0][0]) if info["removes"] else tf.loc(),
           ("stop handler purges reruns of Command::%s, the variant the start handler schedules" % variant) if ok else
           ("start handler %s schedules Command::%s but stop handler purges %s: the rerun chain survives the stop" % (
               sf.short, variant, sorted(vs) or "nothing")))
    for (b, v) in info["removes"]:
        if "*" in v:
            continue
        g = _key_guard(P, tf, b, variant if variant in v else sorted(v)[0], mapfield)
        ctx.ob(rule + ".F9.purge-keyed", "%s|%s" % (tf.name, "+".join(sorted(v))), g, tf.loc(b),
               "rerun removal is guarded by equality of the rerun's name with the stopped search's name" if g else
               "rerun removal is not keyed by the search name")
    # a search whose table is keyed by the lower-cased name is stopped whatever the letter case its reruns carry: the
    # comparison that selects the reruns to purge lower-cases the rerun's name
    if variant in CASE_INSENSITIVE_SEARCHES:
        cmps = []
        for g in [tf] + [P.fns[c] for c in P.closures_of.get(tf.name, [])]:
            gtr = tracer(P, g)
            for b, t in g.calls():
                if method(cname(t)) in ("eq", "ne") and len(t["args"]) == 2:
                    sides = [gtr.operand(a, endpos(g, b)) for a in t["args"]]
                    pay = [sd for sd in sides if any(x[0] == "downcast" and x[2] == variant for x in walk(sd))]
                    if pay:
                        cmps.append((g, b, pay[0]))
        okn = bool(cmps) and all(is_lowercased(pay) for (_g, _b, pay) in cmps)
        ctx.ob(rule + ".F9.stop-purge-normalised", "%s|%s" % (tf.name, variant), okn, tf.loc(cmps[0][1]) if cmps and cmps[0][0] is tf else tf.loc(),
               "the rerun's name is lower-cased before it is compared with the stopped search's key (%d comparison(s))" % len(cmps) if okn else
               "the purge compares the rerun's name as given (%s) with the lower-cased key: for a name with a capital letter the rerun survives "
               "the stop and keeps querying" % (show(cmps[0][2])[:60] if cmps else "no comparison found"))
    # the purge must be unavoidable on the path where the search existed
    if rem and info["regions"]:
        rb = rem[0]
        some_edges = guard_edges(P, tf, lambda atom, outcome, bb: atom[0] == "variant" and atom[1][0] == "call"
                                 and atom[1][3] == (tf.name, rb) and outcome == frozenset(["Some"]))
        ok = True
        # later switches on the same value (drop elaboration) are correlated with the first one: keep the
        # dominating test only
        srcs = {b for (b, _t) in some_edges}
        some_edges = {(b, t) for (b, t) in some_edges if not any(o != b and tf.dominates(o, b) for o in srcs)}
        for (b, tgt) in some_edges:
            if not all_paths_to_return_pass(tf, b, info["regions"]) and not _all_paths_from(tf, tgt, info["regions"]):
                ok = False
        ctx.ob(rule + ".F9.purge-unavoidable", tf.name, ok and bool(some_edges), tf.loc(rb),
               "every path after a successful removal of the search passes the rerun purge")


def _all_paths_from(fn, start, blocks):
    blocks = set(blocks)
    if start in blocks:
        return True
    reach = fn.reachable(start, removed_blocks=blocks)
    return not any(fn.term(r)["k"] == "return" for r in reach)


CASE_INSENSITIVE_SEARCHES = ("ResolveHostname",)


def check_restart_replaces(ctx, P, start, variant, rule="F9"):
    """a fresh (non-repeating) start for an active key purges the earlier chain before scheduling"""
    fn = P.one(start)
    idx = rerun_flag_param(P, fn)
    ctx.require(idx is not None, rule + ".anchor", fn.name + "|repeating", fn.loc(), "the parameter that receives exec_command's rerun flag was identified")
    if idx is None:
        return
    adds = calls_to(fn, "Zeroconf::add_retransmission")
    sched = scheduled_variants(P, fn)
    ctx.require(bool(adds) and variant in sched, rule + ".anchor", fn.name + "|schedule", fn.loc(),
                "start handler schedules its own rerun")
    info = purge_info(P, fn)
    regions = set()
    for (b, v) in info["removes"]:
        if variant in v or "*" in v:
            regions |= {r for r in info["regions"]}
    edges = guard_edges(P, fn, lambda atom, outcome, bb: atom == ("param", idx) and outcome is False)
    ok = bool(regions)
    detail = ""
    if not regions:
        detail = ("the non-repeating path schedules a new Command::%s rerun chain without purging an earlier chain for "
                  "the same name: a second call adds a second schedule" % variant)
    else:
        for (ab, _t) in adds:
            for (b, tgt) in edges:
                # `repeating` is a stable atom: later tests of it on the same path take the same outcome
                if reachable_sensitive(P, fn, ab, removed_blocks=regions | {b}, start=tgt, env0=[(("param", idx), False)]):
                    ok = False
                    detail = "a path from the `!repeating` branch reaches add_retransmission without passing the purge"
        if not edges:
            # purge on every path
            for (ab, _t) in adds:
                if not must_pass_blocks(fn, ab, regions):
                    ok = False
                    detail = "purge is not on every path to add_retransmission"
    ctx.ob(rule + ".F9.restart-replaces", "%s|%s" % (fn.name, variant), ok, fn.loc(adds[0][0]) if adds else fn.loc(),
           detail or "a fresh start purges earlier Command::%s reruns of the same name before scheduling" % variant)
    # whenever the handler replaces the searcher in its map (insert), the replaced searcher's chain goes too: the purge
    # is on every path through the insert — also on paths that schedule nothing themselves (cache-only browse)
    mapfield = SEARCH_MAP.get(variant)
    if mapfield and regions:
        def inserts_into(g, depth=0):
            out = []
            for b, t in g.calls():
                if "HashMap" in cname(t) and method(cname(t)) == "insert" and recv_mentions(P, g, b, t, mapfield, "Zeroconf"):
                    out.append(b)
                elif depth < 1:
                    for tg in P.call_targets(t):
                        k = P.fns.get(tg)
                        if k is not None and k.name != g.name and not k.in_tests() and inserts_into(k, depth + 1):
                            out.append(b)
            return out
        sites = inserts_into(fn)
        bad = []
        for sb in sites:
            if sb in regions:
                continue
            before = not reachable_without(fn, sb, removed_blocks=regions)       # every path to the insert passed the purge
            after = all_paths_to_return_pass(fn, sb, regions)
            if not (before or after):
                bad.append(fn.loc(sb))
        ctx.ob(rule + ".F9.replace-purges", "%s|%s" % (fn.name, variant), bool(sites) and not bad, fn.loc(sites[0]) if sites else fn.loc(),
               "every path that replaces the searcher in %s also purges the earlier Command::%s reruns" % (mapfield, variant) if sites and not bad else
               "the searcher in %s is replaced at %s on a path that does not purge the earlier Command::%s reruns: the replaced search keeps "
               "sending its queries" % (mapfield, bad or "?", variant))
    # the purge finds the earlier chain whatever the letter case: searches whose map is keyed by the lower-cased name
    # (hostname_resolvers) are replaced when the lower-cased names agree, so the purge must compare lower-cased names
    if variant in CASE_INSENSITIVE_SEARCHES:
        from .f12 import ret_exprs
        tr = tracer(P, fn)
        okn = False
        det = "no retain over the rerun queue with a closure found"
        for b, t in fn.calls():
            if method(cname(t)) not in ("retain", "retain_mut") or not recv_mentions(P, fn, b, t, "retransmissions", "Zeroconf"):
                continue
            for a in t["args"][1:]:
                for cl in [x for x in walk(tr.operand(a, endpos(fn, b))) if x[0] == "closure" and x[1] in P.fns]:
                    caps = closure_captures(P, fn, cl[1]) or []
                    for e in ret_exprs(P, P.fns[cl[1]]):
                        alts = e[1] if e[0] == "phi" else (e,)
                        for x in alts:
                            if x[0] == "call" and method(strip_generics(x[1])) in ("ne", "eq") and len(x[2]) == 2:
                                sides = list(x[2])
                                pay = [s for s in sides if any(y[0] == "downcast" and y[2] == variant for y in walk(s))]
                                oth = [s for s in sides if s not in pay]
                                pay_ok = bool(pay) and is_lowercased(pay[0])
                                oth_ok = False
                                for s in oth:
                                    # a captured variable of the parent
                                    idxs = [y[2] for y in walk(s) if y[0] == "field" and any(z == ("param", 1) for z in walk(y)) and isinstance(y[2], int)]
                                    for ci in idxs:
                                        if ci < len(caps) and is_lowercased(caps[ci]):
                                            oth_ok = True
                                    if is_lowercased(s):
                                        oth_ok = True
                                okn = pay_ok and oth_ok
                                det = "retain predicate compares %s with %s" % (show(pay[0])[:60] if pay else "?", show(oth[0])[:60] if oth else "?")
        ctx.ob(rule + ".F9.restart-purge-normalised", "%s|%s" % (fn.name, variant), okn, fn.loc(),
               ("both sides of the purge comparison are lower-cased: " + det) if okn else
               ("the purge of the earlier chain does not compare lower-cased names (%s): a second start that spells the name in another "
                "letter case replaces the searcher but leaves the old rerun chain running" % det))
    # one successor per run: at most one add_retransmission of its own variant on any path
    n_own = len(sched.get(variant, []))
    ctx.ob(rule + ".F9.single-successor", "%s|%s" % (fn.name, variant), n_own == 1 and len(adds) == 1, fn.loc(),
           "handler constructs exactly one successor Command::%s and schedules once (found %d/%d)" % (variant, n_own, len(adds)))


def check_every_stop_path_purges(ctx, P, rule, event_adt, stopped_variant, rerun_variant, mapfield, exempt=("Zeroconf::cleanup",), floor=1):
    """every function that ends a search on its own — it emits <Event>::SearchStopped AND removes the searcher from its
    map — also purges the pending reruns of that search, so nothing runs after SearchStopped.  (The stop handler is
    one such path; the resolver-timeout branch of the run loop is another.)  `cleanup` is exempt: the daemon exits
    right after it and executes nothing else (C14a)."""
    n = 0
    for em in emissions(P):
        f = em.fn
        if f.in_tests() or stopped_variant not in em.names() or not any(a.endswith(event_adt) for (a, v) in em.variants if v == stopped_variant):
            continue
        if any(f.name.endswith(x) for x in exempt):
            continue
        # does this function remove the searcher?
        removes = [b for b, t in f.calls() if method(cname(t)) in ("remove", "remove_entry") and recv_is_field(P, f, b, t, mapfield, "Zeroconf")]
        if not removes:
            continue
        n += 1
        info = purge_info(P, f)
        # only purges that belong to this stop: inside the innermost loop around the emission (the per-search
        # iteration), or anywhere when the emission is not in a loop
        loops = f.loops()
        heads = [h for h, body in loops.items() if em.bb in body]
        scope = loops[min(heads, key=lambda h: len(loops[h]))] if heads else None
        vs = set()
        for (pb, v) in info["removes"]:
            if scope is None or pb in scope:
                vs |= v
        ok = rerun_variant in vs or "*" in vs
        ctx.ob(rule + ".F9.every-stop-path-purges", "%s|%s" % (f.name, rerun_variant), ok, f.loc(em.bb),
               ("%s ends a search (SearchStopped + %s.remove) and purges pending Command::%s reruns" % (f.short, mapfield, rerun_variant)) if ok else
               ("%s sends SearchStopped and removes the searcher from %s but leaves its pending Command::%s rerun in the queue: when that rerun "
                "comes due it sends SearchStarted after SearchStopped, queries again and re-schedules itself" % (f.short, mapfield, rerun_variant)))
    ctx.floor(rule + ".F9.every-stop-path-purges", n, floor, "functions that end a %s search on their own" % rerun_variant)
