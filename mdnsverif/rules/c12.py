"""C12 — The daemon wakes itself for all time-driven work and never spins."""
from .lib import *
from .f6 import Pairing, push_sites, _unavoidable, _check_call_site, is_timer_push, closure_drains
from .f10 import outer_loop_head

EXPLANATION = (
    "The poll timeout is `earliest timer − now`, so 'work due at t happens at t on a silent network' ⇔ 'a timer ≤ t is on "
    "the heap' — a pairing property of the code's shape.  (a) F6 over the pending-time table: every construction of a "
    "ReRun, every write of Probe.next_send, every change of a cached record's expiry/refresh, the resolver deadline and "
    "next_ip_check is followed on all paths by a push on Zeroconf.timers or a hand-off to a carrier (a Vec<u64>/HashSet<u64> "
    "that is drained into add_timer, DnsRegistry.new_timers, a returned record whose times the caller pushes), "
    "recursively at the receiving ends; DnsRegistry.new_timers is drained after every announce attempt; (b) the poll "
    "timeout derives from the heap's minimum, passed timers are popped every iteration, the heap is a min-heap; "
    "(c) F7: every time that is re-armed by its own firing is provably > now (constant delays ≥ 1, payload invariant "
    "next_delay ≥ 1, interface-check interval > 0).  Decides pairing and positivity, not iterations per unit of time."
    " The refresh ladder (C11b) is also checked here: a mark that does not move forward makes the loop spin."
    " Passed timers are popped with a clock sample taken after the poll of the same iteration; every caller of updated_refresh_time hands the new refresh mark back to be armed.")
UNDECIDED = ["completeness of the pending-time table (a new kind of deadline stored in a new ad-hoc field is invisible)",
             "iterations per unit of time as a number"]
ASSUMPTIONS = ["the pending-time table lists every field that holds a due time (confirmed by reading; stated in DESIGN.md)"]


def clause_a(ctx, P):
    pr = Pairing(ctx, P, "C12a")
    # --- ReRun.next_time
    n = 0
    for (f, b, i, kind, val) in pr.field_write_sites("service_daemon::ReRun", "next_time"):
        n += 1
        k = sum(1 for (g, _b, _i, _k, _v) in pr.field_write_sites("service_daemon::ReRun", "next_time") if g is f and (_b, _i) <= (b, i))
        pr.check_site(f, b, i, "next_time", val, "ReRun.next_time#%d" % k, origin_desc="ReRun scheduled at %s" % show(val)[:50])
    ctx.floor("C12a.F6.rerun-sites", n, 4, "ReRun constructions")
    # carrier receivers: callers of add_retransmission need nothing more (it pairs internally) - counted for evidence
    m = len(P.call_sites_of("service_daemon::Zeroconf::add_retransmission"))
    ctx.floor("C12a.F6.add-retransmission-callers", m, 6, "call sites of add_retransmission")
    # local Vec<u64> carriers must be drained into add_timer on every path
    _check_local_carriers(ctx, P)
    # --- Probe.next_send
    n = 0
    sites = pr.field_write_sites("service_info::Probe", "next_send")
    for (f, b, i, kind, val) in sites:
        n += 1
        pr.check_site(f, b, i, "next_send", val, "Probe.next_send(%s)" % kind, origin_desc="write of Probe.next_send in %s" % f.short)
    ctx.floor("C12a.F6.probe-sites", n, 3, "writes of Probe.next_send")
    # update_hostname idiom (returns 'new timer needed')
    for (g, cb, t) in P.call_sites_of("service_info::DnsRegistry::update_hostname"):
        _check_call_site(pr, g, cb, t, P.one("DnsRegistry::update_hostname"), "next_send", "Probe.next_send via update_hostname")
    # --- DnsRegistry.new_timers is a carrier: drained after every announce attempt
    _check_new_timers_drained(ctx, P)
    # --- cached records
    _check_cache_times(ctx, P)
    # --- resolver deadline
    fn = resolver_registration_fn(P)
    tr = tracer(P, fn)
    ins = [(b, t) for b, t in fn.calls() if name_matches(cname(t), "HashMap::insert") and recv_mentions(P, fn, b, t, "hostname_resolvers", "Zeroconf")]
    adds = calls_to(fn, "Zeroconf::add_timer")
    ok = False
    if ins and adds:
        ie = tr.operand(ins[0][1]["args"][2], endpos(fn, ins[0][0]))
        stored = [x for x in walk(ie) if x[0] == "call" and name_matches(strip_generics(x[1]), "Option::map")]
        # the add_timer call that is fed from the stored deadline (the function may arm other timers too)
        adds = [(b, t) for (b, t) in adds if any(x in stored for x in walk(tr.operand(t["args"][1], endpos(fn, b))))] or adds
        ae = tr.operand(adds[0][1]["args"][1], endpos(fn, adds[0][0]))
        ok = bool(stored) and any(x in stored for x in walk(ae))
        if ok:
            e_some = guard_edges(P, fn, lambda atom, outcome, bb: atom[0] == "variant" and outcome == frozenset(["Some"]) and any(x in stored for x in walk(atom[1])))
            ok = bool(e_some) and not any(fn.term(r)["k"] == "return" for (bb, tgt) in e_some for r in fn.reachable(tgt, removed_blocks=[adds[0][0]]))
    ctx.ob("C12a.F6.resolver-deadline-armed", fn.name, ok, fn.loc(), "the stored resolver deadline is pushed as a timer whenever it is Some")
    # --- next_ip_check
    run = P.one("Zeroconf::run")
    rtr = tracer(P, run)
    nic = _ip_check_local(P, run)
    ctx.require(nic is not None, "C12a.anchor", run.name + "|next_ip_check", run.loc(), "local next_ip_check found")
    if nic is not None:
        k = 0
        for b, i, s in run.assigns():
            if not s["p"]["proj"] and s["p"]["l"] == nic:
                k += 1
                val = rtr.rvalue(s["r"], (b, i))
                if fold(val) == 0:
                    ctx.ob("C12a.F6.ip-check-armed", "%s|next_ip_check#%d" % (run.name, k), True, run.loc(b, i),
                           "assignment of the constant 0 = 'disabled' sentinel: nothing is pending, no timer needed")
                    continue
                # add_timer(next_ip_check) follows on every path, except under `next_ip_check > 0` == false
                pushes = [pb for (pb, kind, e) in push_sites(P, run) if kind == "timers" and _is_copy_of_local(run, pb, nic)]
                bypass = guard_edges(P, run, lambda atom, outcome, bb: atom[0] == "binop" and atom[1] == "Gt" and fold(atom[3]) == 0 and outcome is False
                                     and _switch_reads_local(run, bb, nic))
                ok = bool(pushes) and _unavoidable_from_pos(run, b, pushes, bypass)
                ctx.ob("C12a.F6.ip-check-armed", "%s|next_ip_check#%d" % (run.name, k), ok, run.loc(b, i),
                       "every assignment of next_ip_check is followed by add_timer(next_ip_check) (skipped only for the 0 = disabled sentinel)")
        ctx.floor("C12a.F6.ip-check-sites", k, 2, "assignments of next_ip_check")


def _is_copy_of_local(fn, pb, l):
    t = fn.term(pb)
    a = t["args"][1]
    if a["k"] not in ("copy", "move"):
        return False
    cur = a["p"]["l"]
    pos = endpos(fn, pb)
    for _ in range(5):
        if cur == l:
            return True
        ds = fn.reaching_defs(cur, pos)
        if len(ds) != 1 or ds[0][2] != "assign":
            return False
        r = ds[0][3]
        if r["k"] == "use" and r["a"]["k"] in ("copy", "move") and not r["a"]["p"]["proj"]:
            pos = (ds[0][0], ds[0][1])
            cur = r["a"]["p"]["l"]
        else:
            return False
    return cur == l


def _switch_reads_local(fn, bb, l):
    t = fn.term(bb)
    d = t["d"]
    if "p" not in d:
        return False
    # the compared operand is a copy of local l
    for (b, i, kind, payload) in fn.defs().get(d["p"]["l"], []):
        if kind == "assign" and payload["k"] == "binop":
            a = payload["a"]
            if a["k"] in ("copy", "move"):
                cur = a["p"]["l"]
                pos = (b, i)
                for _ in range(4):
                    if cur == l:
                        return True
                    ds = fn.reaching_defs(cur, pos)
                    if len(ds) == 1 and ds[0][2] == "assign" and ds[0][3]["k"] == "use" and ds[0][3]["a"]["k"] in ("copy", "move"):
                        pos = (ds[0][0], ds[0][1])
                        cur = ds[0][3]["a"]["p"]["l"]
                    else:
                        break
    return False


def _unavoidable_from_pos(fn, b, pushes, bypass):
    return _unavoidable(fn, b, pushes, bypass=bypass, include_loop_head=True)


def _ip_check_local(P, run, _c={}):
    """the user variable of `run` that holds the next interface-check time: the one assigned from an expression
    over Zeroconf.ip_check_interval (falls back to the name next_ip_check)"""
    k = (id(P), run.name)
    if k not in _c:
        tr = tracer(P, run)
        cands = {}
        for b, i, s in run.assigns():
            l = s["p"]["l"]
            if s["p"]["proj"] or not run.locals[l].get("name"):
                continue
            e = tr.rvalue(s["r"], (b, i))
            if expr_mentions_field(e, "ip_check_interval", "Zeroconf") and not (e[0] == "field" and e[2] == "ip_check_interval"):
                cands[l] = cands.get(l, 0) + 1
        res = max(cands, key=cands.get) if cands else None
        if res is None:
            for l, d in enumerate(run.locals):
                if d.get("name") == "next_ip_check":
                    res = l
        _c[k] = res
    return _c[k]


def _check_local_carriers(ctx, P):
    """a Vec<u64> created locally and filled with due times must be drained into add_timer"""
    for f in P.lib_fns():
        tr = tracer(P, f)
        carriers = {}
        for (pb, kind, e) in push_sites(P, f):
            if kind not in ("carrier:vec", "carrier:set"):
                continue
            recv = tr.operand(f.term(pb)["args"][0], endpos(f, pb))
            news = [x for x in strip(recv) if x[0] == "call" and (strip_generics(x[1]).endswith("Vec::new") or strip_generics(x[1]).endswith("HashSet::new"))]
            for nw in news:
                carriers.setdefault(nw, []).append(pb)
        # a local set that collects the due times returned by the cache's refresh functions is a carrier too
        for b, t in f.calls():
            if method(cname(t)) != "extend" or len(t["args"]) < 2:
                continue
            src = tr.operand(t["args"][1], endpos(f, b))
            if not any(x[0] == "call" and "refresh_due" in x[1] for x in walk(src)):
                continue
            recv = tr.operand(t["args"][0], endpos(f, b))
            for nw in [x for x in strip(recv) if x[0] == "call" and (strip_generics(x[1]).endswith("Vec::new") or strip_generics(x[1]).endswith("HashSet::new"))]:
                carriers.setdefault(nw, []).append(b)
        for nw, pbs in carriers.items():
            # drain: an add_timer / heap push whose argument iterates this collection
            drains = []
            for (db, kind, e) in push_sites(P, f):
                if kind == "timers" and any(x == nw for x in walk(e)):
                    drains.append(db)
            drains += closure_drains(P, f, lambda e, nw=nw: any(x == nw for x in walk(e)))
            returned = False
            for rb in f.exits():
                re_ = tr.local(0, endpos(f, rb))
                if any(x == nw for x in walk(re_)):
                    returned = True
            loops = f.loops()
            ok = False
            why = "neither drained into add_timer nor returned"
            if drains:
                heads = set()
                for db in drains:
                    hs = [h for h, body in loops.items() if db in body]
                    if hs:
                        heads.add(min(hs, key=lambda h: len(loops[h])))
                    else:
                        heads.add(db)
                ok = all(_unavoidable(f, pb, heads, include_loop_head=False) for pb in pbs)
                why = "drained into the timer heap after the pushes on every path" if ok else "a path from a push reaches the exit without the drain loop"
            elif returned:
                ok = True
                why = "returned to the caller (carrier)"
            ctx.ob("C12a.F6.local-carrier-drained", "%s|%s" % (f.name, "Vec<u64>#%d" % (sorted(carriers, key=repr).index(nw) + 1)), ok, f.loc(pbs[0]),
                   "local time list: " + why)
    # returned carriers: HashSet<u64>/Vec<u64> results of the cache must be consumed by the caller
    for name in ("dns_cache::DnsCache::refresh_due_ptr", "dns_cache::DnsCache::refresh_due_srv_txt", "dns_cache::DnsCache::refresh_due_hosts"):
        for (g, cb, t) in P.call_sites_of(name):
            gtr = tracer(P, g)
            ok = False
            for b, tt in g.calls():
                if name_matches(cname(tt), "HashSet::extend", "Extend::extend", "Vec::extend") or method(cname(tt)) == "extend":
                    e = gtr.operand(tt["args"][1], endpos(g, b))
                    if any(x[0] == "call" and x[3] == (g.name, cb) for x in walk(e)):
                        # unavoidable after the call
                        ok = _unavoidable(g, cb, [b], include_loop_head=True) or _only_empty_bypass(P, g, cb, b)
            ctx.ob("C12a.F6.refresh-times-consumed", "%s|%s" % (g.name, name.split("::")[-1]), ok, g.loc(cb),
                   "the refresh times returned by %s are merged into the caller's timer set on every path" % name.split("::")[-1])


def _only_empty_bypass(P, g, cb, b):
    byp = guard_edges(P, g, lambda atom, outcome, bb: atom[0] == "call" and name_matches(strip_generics(atom[1]), "::is_empty") and outcome is True
                      and any(x[0] == "call" and x[3] == (g.name, cb) for x in walk(atom)))
    return _unavoidable(g, cb, [b], bypass=byp, include_loop_head=True)


def _unavoidable_outer(fn, cb, blocks):
    """every path from cb to a return, or to the next iteration of the OUTERMOST loop around cb, passes `blocks`
    (the registry's list persists across inner iterations; it must be drained before the registry goes out of scope)"""
    blocks = set(blocks)
    targets = set(fn.exits())
    h = outer_loop_head(fn, cb)
    if h is not None:
        targets.add(h)
    for s in fn.succs(cb):
        if s in blocks:
            continue
        if fn.reachable(s, removed_blocks=blocks) & targets:
            return False
    return True


def _check_new_timers_drained(ctx, P):
    n = 0
    for (g, cb, t) in P.call_sites_of("service_daemon::announce_service_on_intf"):
        n += 1
        gtr = tracer(P, g)
        drains = [b for b, tt in g.calls() if method(cname(tt)) in ("drain", "append") and "Vec" in cname(tt)
                  and recv_mentions(P, g, b, tt, "new_timers", "DnsRegistry")]
        drains += [b for b, tt in g.calls() if name_matches(cname(tt), "mem::take") and recv_mentions(P, g, b, tt, "new_timers", "DnsRegistry")]
        ok = bool(drains) and _unavoidable_outer(g, cb, drains)
        k = sum(1 for (g2, cb2, _t) in P.call_sites_of("service_daemon::announce_service_on_intf") if g2 is g and cb2 <= cb)
        ctx.ob("C12a.F6.new-timers-drained", "%s|announce_service_on_intf#%d" % (g.name, k), ok, g.loc(cb),
               "after the announce attempt DnsRegistry.new_timers is drained into the timer heap on every path" if ok else
               ("announce_service_on_intf can create a probe and leave its first due time in DnsRegistry.new_timers; %s: the probe is "
                "not armed and the list grows" % ("no drain follows in this function" if not drains else "a path to the end of the iteration skips the drain")))
    ctx.floor("C12a.F6.new-timers-drained", n, 6, "call sites of announce_service_on_intf")
    # the carrier is fed next to every probe creation in is_probing_done
    f = P.one("DnsRegistry::is_probing_done")
    ps = [(pb, e) for (pb, kind, e) in push_sites(P, f) if kind == "carrier:new_timers"]
    ok = bool(ps) and any(x[0] == "field" and x[2] == "next_send" for (pb, e) in ps for x in walk(e))
    ctx.ob("C12a.F6.new-timers-fed", f.name, ok, f.loc(), "is_probing_done records probe.next_send in new_timers")


def _check_cache_times(ctx, P):
    # add_or_update: flush branch
    f = P.one("DnsCache::add_or_update")
    n = 0
    for c in [f.name] + P.closures_of.get(f.name, []):
        cf = P.fns[c]
        ctr = tracer(P, cf)
        for b, t in cf.calls():
            if name_matches(cname(t), "DnsRecordExt::set_expire"):
                n += 1
                v = ctr.operand(t["args"][1], endpos(cf, b))
                ps = [pb for (pb, kind, e) in push_sites(P, cf) if set(strip(e)) & set(strip(v))]
                ok = bool(ps) and _unavoidable(cf, b, ps, include_loop_head=False)
                ctx.ob("C12a.F6.flush-expiry-armed", "%s|set_expire#%d" % (cf.name, n), ok, cf.loc(b),
                       "the shortened expiry of a flushed record is pushed on the caller's timer list" if ok else
                       "cache-flush shortens a record's expiry without recording a timer")
    ctx.floor("C12a.F6.flush-expiry-armed", n, 1, "set_expire calls in add_or_update")
    # the timers parameter of add_or_update is drained by every caller
    for (g, cb, t) in P.call_sites_of("dns_cache::DnsCache::add_or_update"):
        if g.in_tests():
            continue
        gtr = tracer(P, g)
        te = gtr.operand(t["args"][3], endpos(g, cb))
        news = [x for x in strip(te) if x[0] == "call" and strip_generics(x[1]).endswith("Vec::new")]
        drains = []
        for (db, kind, e) in push_sites(P, g):
            if kind == "timers" and news and any(x == news[0] for x in walk(e)):
                drains.append(db)
        if news:
            drains += closure_drains(P, g, lambda e, nw=news[0]: any(x == nw for x in walk(e)))
        loops = g.loops()
        heads = set()
        for db in drains:
            hs = [h for h, body in loops.items() if db in body]
            heads.add(min(hs, key=lambda h: len(loops[h])) if hs else db)
        outer = outer_loop_head(g, cb)
        ok = bool(heads)
        if ok:
            body = loops[outer] if outer is not None else set()
            exits_ = {s for x in body for s in g.succs(x) if s not in body} if outer is not None else set(g.succs(cb))
            for s in exits_:
                if any(g.term(r)["k"] == "return" for r in g.reachable(s, removed_blocks=heads)):
                    ok = False
        ctx.ob("C12a.F6.cache-timer-list-drained", g.name, ok, g.loc(cb), "the Vec<u64> handed to add_or_update is drained into add_timer after the record loop")
        # returned record: expire and refresh pushed on both Some arms
        for getter in ("DnsRecord::get_expire_time", "DnsRecord::get_refresh_time"):
            ps = []
            for (pb, kind, e) in push_sites(P, g):
                if has_call(e, getter) and any(x[0] == "call" and x[3] == (g.name, cb) for x in walk(e)):
                    ps.append(pb)
            some_edges = guard_edges(P, g, lambda atom, outcome, bb: atom[0] == "variant" and atom[1][0] == "call" and atom[1][3] == (g.name, cb) and outcome == frozenset(["Some"]))
            hs = [h for h, body in loops.items() if cb in body]
            h = min(hs, key=lambda h: len(loops[h])) if hs else None
            ok = bool(ps) and bool(some_edges)
            for (b, tgt) in some_edges:
                reach = g.reachable(tgt, removed_blocks=ps)
                if (h is not None and h in reach) or any(g.term(r)["k"] == "return" for r in reach):
                    ok = False
            ctx.ob("C12a.F6.cached-record-armed", "%s|%s" % (g.name, getter.split("::")[-1]), ok, g.loc(cb),
                   "for every stored or refreshed record %s() is pushed before the next record" % getter.split("::")[-1])
    # verify: set_expire_sooner -> caller arms the new expiry unless nothing was touched
    v = P.one("DnsCache::service_verify_queries")
    vtr = tracer(P, v)
    ses = [b for b, t in v.calls() if name_matches(cname(t), "DnsRecordExt::set_expire_sooner")]
    early = []
    for rb in v.exits():
        pass
    # early empty return: blocks that call Vec::new() whose result is returned
    empties = [b for b, t in v.calls() if strip_generics(cname(t)).endswith("Vec::new") and t["dest"]["l"] == 0]
    ok = bool(ses) and not any(e in v.reachable(sb) for sb in ses for e in empties)
    ctx.ob("C12a.F6.verify-empty-before-writes", v.name, ok, v.loc(), "the empty result of service_verify_queries is returned only before any expiry was shortened")
    ev = P.one("Zeroconf::exec_command_verify")
    etr = tracer(P, ev)
    svq = calls_to(ev, "DnsCache::service_verify_queries")
    adds = calls_to(ev, "Zeroconf::add_timer")
    ok = False
    if svq and adds:
        arg = etr.operand(svq[0][1]["args"][2], endpos(ev, svq[0][0]))
        somes = [x for x in walk(arg) if x[0] == "agg" and x[3] == "Some"]
        for (ab, at) in adds:
            ae = etr.operand(at["args"][1], endpos(ev, ab))
            if somes and any(y in strip(somes[0][4][0]) for y in strip(ae)) or (somes and has_call(ae, "Duration::as_millis")):
                byp = guard_edges(P, ev, lambda atom, outcome, bb: atom[0] == "call" and name_matches(strip_generics(atom[1]), "Vec::is_empty") and outcome is True
                                  and any(x[0] == "call" and x[3] == (ev.name, svq[0][0]) for x in walk(atom)))
                byp |= guard_edges(P, ev, lambda atom, outcome, bb: atom[0] == "variant" and outcome == frozenset(["None"]) and any(x in (arg,) or x == arg for x in walk(atom[1])))
                ok = _unavoidable(ev, svq[0][0], [ab], bypass=byp, include_loop_head=False)
    ctx.ob("C12a.F6.verify-deadline-armed", ev.name, ok, ev.loc(),
           "whenever service_verify_queries touched a record (non-empty result, Some(deadline)) the deadline is pushed as a timer")
    # refresh ladder: updated_refresh_time returns the new refresh time; callers collect it (checked above)
    u = P.one("DnsRecordExt::updated_refresh_time")
    utr = tracer(P, u)
    rs = [utr.local(0, endpos(u, rb)) for rb in u.exits()]
    ok = any(has_call(r, "DnsRecord::get_refresh_time") for r in rs) and bool(calls_to(u, "DnsRecord::refresh_maybe"))
    ctx.ob("C12a.F6.refresh-time-returned", u.name, ok, u.loc(), "updated_refresh_time returns Some(new refresh time) whenever refresh_maybe moved it")
    for name in ("DnsCache::refresh_due_ptr", "DnsCache::refresh_due_srv_txt", "DnsCache::refresh_due_hosts"):
        g = P.one(name)
        cl = [P.fns[c] for c in P.closures_of.get(g.name, [])]
        n_u = sum(1 for cf in cl for b, t in cf.calls() if name_matches(cname(t), "DnsRecordExt::updated_refresh_time"))
        okc = n_u >= 1
        for cf in cl:
            ctr = tracer(P, cf)
            for b, t in cf.calls():
                if name_matches(cname(t), "DnsRecordExt::updated_refresh_time"):
                    r = [ctr.local(0, endpos(cf, rb)) for rb in cf.exits()]
                    if not all(any(x[0] == "call" and x[3] == (cf.name, b) for x in walk(e)) for e in r):
                        okc = False
        ctx.ob("C12a.F6.refresh-times-returned", g.name, okc, g.loc(), "every updated_refresh_time() result is handed back through the filter_map (%d site(s))" % n_u)
    # ... and nobody else moves a record up the ladder without handing the new refresh time back to be armed
    ladder_fns = set()
    for name in ("DnsCache::refresh_due_ptr", "DnsCache::refresh_due_srv_txt", "DnsCache::refresh_due_hosts"):
        g = P.one(name)
        ladder_fns |= {g.name} | set(P.closures_of.get(g.name, []))
    for cf in P.lib_fns():
        if cf.in_tests() or cf.name in ladder_fns or cf.name == u.name:
            continue
        for b, t in cf.calls():
            if name_matches(cname(t), "DnsRecordExt::updated_refresh_time"):
                ctr = tracer(P, cf)
                r = [ctr.local(0, endpos(cf, rb)) for rb in cf.exits()]
                somes = [alt for e in r for alt in strip(e) if alt[0] == "agg" and alt[3] == "Some"] or r
                okc = all(any(x[0] == "call" and x[3] == (cf.name, b) for x in walk(alt)) for alt in somes)
                ctx.ob("C12a.F6.refresh-times-returned", cf.name, okc, cf.loc(b),
                       "the new refresh time is part of every value returned" if okc else
                       "updated_refresh_time moves the record to its next refresh mark here but the new time is not handed back: no timer is armed "
                       "for the 85/90/95% marks and they wait for unrelated traffic")
    # exception: refresh_no_more sets refresh := expires, armed when the record was stored
    rn = P.one("DnsRecord::refresh_no_more")
    rtr = tracer(P, rn)
    ok = False
    for b, i, s in rn.assigns():
        if place_mentions_field(s["p"], "DnsRecord", "refresh"):
            e = rtr.rvalue(s["r"], (b, i))
            ok = has_call(e, "get_expiration_time") and any(fold(a) == 100 for x in walk(e) if x[0] == "call" for a in x[2])
    ctx.ob("C12a.F6.exception-refresh-no-more", rn.name, ok, rn.loc(),
           "exception (table): refresh_no_more sets refresh := get_expiration_time(created, ttl, 100) = the expiry, which was armed when the record was stored")


def clause_b(ctx, P):
    run = P.one("Zeroconf::run")
    tr = tracer(P, run)
    polls = [(b, t) for b, t in run.calls() if name_matches(cname(t), "mio::Poll::poll", "Poll::poll")]
    ctx.require(len(polls) == 1, "C12b.anchor", run.name, run.loc(), "one poll call in run (found %d)" % len(polls))
    if polls:
        b, t = polls[0]
        e = tr.operand(t["args"][2], endpos(run, b))
        ok = has_call(e, "Zeroconf::peek_earliest_timer") and has_call(e, "Option::map")
        ctx.ob("C12b.timeout-from-heap", run.name, ok, run.loc(b), "the poll timeout is peek_earliest_timer().map(..): " + show(e)[:100])
        # the closure computes timer - now (or 1ms if passed)
        okc = False
        for c in P.closures_of.get(run.name, []):
            cf = P.fns[c]
            ctr = tracer(P, cf)
            subs = [ctr.rvalue(s["r"], (bb, i)) for bb, i, s in cf.assigns() if s["r"]["k"] in ("binop", "checked") and s["r"]["op"].startswith("Sub")]
            fm = [bb for bb, tt in cf.calls() if name_matches(cname(tt), "Duration::from_millis")]
            if subs and fm:
                # minuend is the closure argument (timer), subtrahend the captured now
                okc = any(any(x == ("param", 2) for x in strip(s_[2])) for s_ in subs)
                if okc:
                    consts = [fold(ctr.rvalue(s["r"], (bb, i))) for bb, i, s in cf.assigns() if s["r"]["k"] == "use" and s["r"]["a"]["k"] == "const" and s["r"]["a"].get("ty") == "u64"]
                    okc = all(cv is None or cv >= 1 for cv in consts)
        ctx.ob("C12b.timeout-formula", run.name, okc, run.loc(b), "timeout = timer - now when timer > now, else a positive constant")
    loops = run.loops()
    main = max(loops, key=lambda h: len(loops[h]))
    pops = calls_to(run, "Zeroconf::pop_timers_till")
    ok = bool(pops) and loop_every_iteration_passes(run, main, loops[main], [pops[0][0]])
    ctx.ob("C12b.pop-every-iteration", run.name, ok, run.loc(), "passed timers are popped on every iteration of the run loop")
    # ... with the clock of the work that follows: between the clock sample handed to pop_timers_till and the work of the
    # iteration the daemon does not sleep (a timer that comes due while the work runs must survive until the next turn)
    if pops and polls:
        pb, pt_ = pops[0]
        pe = tr.operand(pt_["args"][1], endpos(run, pb))
        sample = [x[3][1] for x in walk(pe) if x[0] == "call" and name_matches(x[1], "current_time_millis") and x[3][0] == run.name]
        starts = [pb] + sample
        bad = [s for s in starts if polls[0][0] in run.reachable(s, removed_blocks=[main])]
        ctx.ob("C12b.pop-with-the-works-clock", run.name, bool(sample) and not bad, run.loc(pb),
               "pop_timers_till gets a clock sample taken after the poll of the same iteration" if (sample and not bad) else
               "passed timers are popped before the poll of the iteration (or with a clock taken before it): a timer that came due while the "
               "previous iteration's work ran is discarded with its work undone")
    pt = P.one("Zeroconf::pop_timers_till")
    ptr = tracer(P, pt)
    e_gt = guard_edges(P, pt, lambda atom, outcome, bb: atom[0] == "binop" and atom[1] == "Gt" and outcome is False)
    popb = [b for b, t in pt.calls() if name_matches(cname(t), "BinaryHeap::pop")]
    ok = bool(popb) and all(guarded(P, pt, b, e_gt) for b in popb)     # also through a `matches!(.., Some(v) if v <= now)` flag
    ctx.ob("C12b.pop-only-passed", pt.name, ok, pt.loc(), "pop_timers_till pops exactly the timers with v <= now")
    z = P.adt("service_daemon::Zeroconf")
    ty = [f["ty"] for f in z["variants"][0]["fields"] if f["name"] == "timers"]
    ctx.ob("C12b.min-heap", "Zeroconf.timers", ty == ["std::collections::BinaryHeap<std::cmp::Reverse<u64>>"], "", "timers is a BinaryHeap<Reverse<u64>> (min-heap): %s" % ty)
    pk = P.one("Zeroconf::peek_earliest_timer")
    ok = bool([b for b, t in pk.calls() if name_matches(cname(t), "BinaryHeap::peek")])
    ctx.ob("C12b.peek-min", pk.name, ok, pk.loc(), "peek_earliest_timer returns the heap's top element")


def _positive(P, fn, e, depth=0):
    """delay expression provably >= 1 ?  returns (ok, why)"""
    v = fold(e)
    if v is not None:
        return v >= 1, "constant %s" % v
    for a in strip(e):
        while a[0] == "cast":
            a = a[1]
        v = fold(a)
        if v is not None:
            if v < 1:
                return False, "constant %s" % v
            continue
        if a[0] == "binop" and a[1].startswith("Mul"):
            o1, w1 = _positive(P, fn, a[2], depth + 1)
            o2, w2 = _positive(P, fn, a[3], depth + 1)
            if o1 and o2:
                continue
            return False, "product %s: %s / %s" % (show(a)[:60], w1, w2)
        if a[0] == "call" and name_matches(strip_generics(a[1]), "u64::from", "From::from", "Into::into") and a[2]:
            o, w = _positive(P, fn, a[2][0], depth + 1)
            if o:
                continue
            return False, w
        if a[0] == "param" and depth < 4:
            o, w = _param_positive(P, fn, a[1], depth)
            if o:
                continue
            return False, w
        if a[0] == "field" and a[1][0] == "downcast":
            o, w = _payload_positive(P, a[3], a[2])
            if o:
                continue
            return False, w
        if a[0] == "field":
            return False, "field %s can hold any stored value" % show(a)
        return False, "cannot bound %s" % show(a)[:80]
    return True, "every alternative >= 1"


_PP = {}


def _param_positive(P, fn, idx, depth):
    key = (fn.name, idx)
    if key in _PP:
        return _PP[key]
    _PP[key] = (True, "inductive")
    sites = P.call_sites_of(fn.name)
    res = (True, "all call sites pass a value >= 1")
    if not sites:
        res = (False, "no call site for parameter %d of %s" % (idx, fn.name))
    for (g, cb, t) in sites:
        e = tracer(P, g).operand(t["args"][idx - 1], endpos(g, cb))
        o, w = _positive(P, g, e, depth + 1)
        if not o:
            res = (False, "call site %s: %s" % (g.loc(cb), w))
    _PP[key] = res
    return res


_PAY = {}


def _payload_positive(P, owner, fidx):
    """every construction site of the enum variant stores a value >= 1 in field fidx (payload invariant, inductive)"""
    key = (owner, fidx)
    if key in _PAY:
        return _PAY[key]
    _PAY[key] = (True, "inductive")
    adt, variant = owner.rsplit("::", 1)
    res = (True, "payload invariant: every %s construction stores >= 1" % owner.split("::")[-1])
    n = 0
    for (f, b, i, s) in all_aggregates(P, adt, variant):
        n += 1
        e = tracer(P, f).operand(s["r"]["ops"][int(fidx)], (b, i))
        o, w = _positive_with_min(P, f, e)
        if not o:
            res = (False, "%s constructed at %s stores %s (%s)" % (owner.split("::")[-1], f.loc(b, i), show(e)[:60], w))
    if n == 0:
        res = (False, "no construction site")
    _PAY[key] = res
    return res


def _positive_with_min(P, f, e):
    for a in strip(e):
        if a[0] == "call" and name_matches(strip_generics(a[1]), "cmp::min", "Ord::min"):
            o1, w1 = _positive(P, f, a[2][0], 1)
            o2, w2 = _positive(P, f, a[2][1], 1)
            if not (o1 and o2):
                return False, "min(%s, %s)" % (w1, w2)
            continue
        o, w = _positive(P, f, a, 1)
        if not o:
            return False, w
    return True, "ok"


def clause_c(ctx, P):
    pr = Pairing(ctx, P, "C12c")
    # every rerun time is now + d, d >= 1
    n = 0
    per = {}
    for (f, b, i, kind, val) in pr.field_write_sites("service_daemon::ReRun", "next_time"):
        alts = []
        # expand the parameter of add_retransmission to its call sites
        for a in strip(val):
            if a[0] == "param" and f.name.endswith("Zeroconf::add_retransmission"):
                for (g, cb, t) in P.call_sites_of(f.name):
                    alts.append((g, cb, tracer(P, g).operand(t["args"][a[1] - 1], endpos(g, cb))))
            else:
                alts.append((f, b, a))
        for (g, cb, e) in alts:
            n += 1
            per[g.name] = per.get(g.name, 0) + 1
            ok, why = _now_plus_positive(P, g, e)
            ctx.ob("C12c.F7.rerun-in-future", "%s|rerun#%d" % (g.name, per[g.name]), ok, g.loc(cb),
                   ("rerun time %s is now + d with d >= 1 (%s)" % (show(e)[:60], why)) if ok else
                   ("rerun time %s is not provably later than now: %s" % (show(e)[:80], why)))
    ctx.floor("C12c.F7.rerun-sites", n, 8, "rerun schedule sites")
    # probe steps
    for (f, b, i, kind, val) in pr.field_write_sites("service_info::Probe", "next_send"):
        if kind != "assign":
            continue
        ok, why = _now_plus_positive(P, f, val)
        ctx.ob("C12c.F7.probe-step-in-future", f.name, ok, f.loc(b, i), "next_send := %s (%s)" % (show(val)[:60], why))
    # the interface check re-arms itself: next_ip_check = now + ip_check_interval must be > now
    run = P.one("Zeroconf::run")
    rtr = tracer(P, run)
    loops = run.loops()
    main = max(loops, key=lambda h: len(loops[h]))
    k = 0
    for b, i, s in run.assigns():
        if not s["p"]["proj"] and s["p"]["l"] == _ip_check_local(P, run) and b in loops[main]:
            k += 1
            val = rtr.rvalue(s["r"], (b, i))
            ok, why = _ip_check_positive(P, run, b, val)
            ctx.ob("C12c.F7.ip-check-in-future", "%s|next_ip_check#%d" % (run.name, k), ok, run.loc(b, i),
                   ("the interface check is re-armed at %s, provably later than now (%s)" % (show(val)[:60], why)) if ok else
                   ("the interface check is re-armed at %s, which is not provably later than now: %s — with an interval of 0 every "
                    "iteration re-arms a timer for 'now', polls with 1 ms and rescans the interfaces (spin)" % (show(val)[:60], why)))
    ctx.floor("C12c.F7.ip-check-sites", k, 1, "re-arming assignments of next_ip_check in the loop")


def _now_plus_positive(P, f, e):
    for a in strip(e):
        if a[0] == "binop" and a[1].startswith("Add"):
            base, d = a[2], a[3]
            if not (has_call(base, "current_time_millis") or any(x[0] == "param" for x in strip(base))):
                base, d = d, base
            if not (has_call(base, "current_time_millis") or any(x[0] == "param" for x in strip(base))):
                return False, "base %s is not a clock reading" % show(base)[:40]
            ok, why = _positive(P, f, d)
            if not ok:
                return False, why
            continue
        return False, "not of the form now + d: %s" % show(a)[:60]
    return True, "constant or payload-bounded delay"


def _guard_fresh(P, fn, edge, use_bb, owner, field):
    """a test of a struct field guards a later use only if nothing that may write the field runs in between"""
    writers = {f.name for (f, _b, _i, _s) in field_writes(P, owner, field)}
    rcg = P.rev_callgraph()
    may = set()
    st = list(writers)
    while st:
        x = st.pop()
        if x in may:
            continue
        may.add(x)
        st.extend(rcg.get(x, ()))
    (gb, tgt) = edge
    fwd = fn.reachable(tgt)
    # blocks that can reach the use
    back = {use_bb}
    st = [use_bb]
    while st:
        x = st.pop()
        for p_ in fn.preds(x):
            if p_ not in back and p_ != gb:       # paths that do not re-evaluate the guard
                back.add(p_)
                st.append(p_)
    between = (fwd & back) - {use_bb}
    # only blocks on paths that do not pass the guard again
    between = {x for x in between if x in fn.reachable(tgt, removed_blocks=[gb])}
    for x in between:
        t = fn.term(x)
        if t["k"] == "call" and set(P.call_targets(t)) & may:
            return False
    return True


def _ip_check_positive(P, run, b, val):
    for a in strip(val):
        if a[0] == "const" and a[1] == 0:
            continue      # 0 = disabled sentinel: never re-armed (guarded by next_ip_check > 0)
        if a[0] == "binop" and a[1].startswith("Add"):
            d = a[3] if has_call(a[2], "current_time_millis") else a[2]
            v = fold(d)
            if v is not None and v >= 1:
                continue
            # a field: accept when the assignment is control-dependent on `<that field> > 0`
            if any(x[0] == "field" and x[2] == "ip_check_interval" for x in walk(d)):
                def is_field(e):
                    al = strip(e)
                    return bool(al) and all(x[0] == "field" and x[2] == "ip_check_interval" for x in al)
                edges = guard_edges(P, run, lambda atom, outcome, bb: atom[0] == "binop" and (
                    atom[1] == "Gt" and fold(atom[3]) == 0 and outcome is True or atom[1] == "Ne" and fold(atom[3]) == 0 and outcome is True
                    or atom[1] == "Eq" and fold(atom[3]) == 0 and outcome is False)
                    and is_field(atom[2]))
                edges = {e for e in edges if _guard_fresh(P, run, e, b, "service_daemon::Zeroconf", "ip_check_interval")}
                if edges and must_pass_edges(run, b, edges):
                    continue
                # or every value ever stored in the field is >= 1
                from .f13 import field_values
                allconst, vals, sites = field_values(P, "service_daemon::Zeroconf", "ip_check_interval")
                if allconst and vals and min(vals) >= 1:
                    continue
                return False, "Zeroconf.ip_check_interval can be 0 (set_ip_check_interval(0) at run time) and the assignment is not guarded by `ip_check_interval > 0`"
            return False, "delay %s" % show(d)[:50]
        return False, "value %s" % show(a)[:50]
    return True, "guarded by ip_check_interval > 0"


def run(ctx, P):
    clause_a(ctx, P)
    clause_b(ctx, P)
    clause_c(ctx, P)
    from . import c11
    c11.clause_b(ctx, P)      # the refresh ladder moves strictly forward: a mark that is set to itself again lies in the past and makes the loop spin (shared with C11)
