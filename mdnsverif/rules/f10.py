"""F10 must-consume: results of the eviction family reach the notification functions on all paths."""
from .lib import *


def _mentions_call(e, fname, bb):
    for x in walk(e):
        if x[0] == "call" and x[3] == (fname, bb):
            return True
    return False


def _mentions_field_of_call(e, fname, bb, field):
    for x in walk(e):
        if x[0] == "field" and x[2] == field:
            if _mentions_call(x[1], fname, bb):
                return True
    return False


def outer_loop_head(fn, bb):
    """head of the outermost loop containing bb, or None"""
    loops = fn.loops()
    heads = [h for h, body in loops.items() if bb in body]
    if not heads:
        return None
    return max(heads, key=lambda h: len(loops[h]))


def check_consumed(ctx, P, fn, cb, producer, consumers, rule, field=None, accept_empty_skip=True):
    """The value produced by the call in block `cb` (optionally its field `field`) must reach one of
    `consumers` (local function suffixes) on every path to a return / to the next iteration of the
    enclosing loop.  Accepted bypasses: an `is_empty()` test of the same value, the `None` exit of an
    iteration over it."""
    tr = tracer(P, fn)
    cons_blocks = []
    iter_heads = set()
    bypass = set()
    loops = fn.loops()
    for b, t in fn.calls():
        n = cname(t)
        hit = False
        for a in t["args"]:
            e = tr.operand(a, endpos(fn, b))
            if field is None:
                if _mentions_call(e, fn.name, cb):
                    hit = True
            elif _mentions_field_of_call(e, fn.name, cb, field):
                hit = True
        if not hit:
            continue
        tg = P.call_targets(t)
        if any(any(x == s or x.endswith("::" + s) for s in consumers) for x in tg):
            cons_blocks.append(b)
        if n.endswith("::next"):
            # iteration over the value: the loop whose head contains this next()
            for h, body in loops.items():
                if b in body and fn.dominates(h, b):
                    pass
            iter_heads.add(b)
    # bypass edges: is_empty(value) == true ; next(iter over value) == None
    def pred(atom, outcome, bb):
        if atom[0] == "call" and strip_generics(atom[1]).endswith("::is_empty") and outcome is True:
            return field is None and _mentions_call(atom, fn.name, cb) or field is not None and _mentions_field_of_call(atom, fn.name, cb, field)
        if atom[0] == "variant" and atom[1][0] == "call" and strip_generics(atom[1][1]).endswith("::next") and outcome == frozenset(["None"]):
            return field is None and _mentions_call(atom[1], fn.name, cb) or field is not None and _mentions_field_of_call(atom[1], fn.name, cb, field)
        return False
    if accept_empty_skip:
        bypass = guard_edges(P, fn, pred)
    key = "%s|%s%s" % (fn.name, producer, ("." + field) if field else "")
    # the value must reach the consumer whole: no truncating iterator adapter between the eviction and the report
    TRUNCATING = ("take", "skip", "step_by", "filter", "take_while", "skip_while", "nth", "filter_map", "truncate", "split_off", "drain")
    for b, t in fn.calls():
        if method(cname(t)) in TRUNCATING:
            for a in t["args"][:1]:
                e = tr.operand(a, endpos(fn, b))
                hit = _mentions_call(e, fn.name, cb) if field is None else _mentions_field_of_call(e, fn.name, cb, field)
                if hit:
                    ctx.ob(rule, key + "|whole", False, fn.loc(b), "the result of %s goes through `%s` before it is reported: part of the eviction can be lost" % (producer, method(cname(t))))
                    return False
    if not cons_blocks:
        ctx.ob(rule, key, False, fn.loc(cb),
               "result of %s%s is never passed to %s: the eviction is not reported" % (producer, ("." + field) if field else "", "/".join(consumers)))
        return False
    # (A) whole value: exits reachable without consumer?
    outer = outer_loop_head(fn, cb)
    targets = set(fn.exits())
    if outer is not None:
        targets.add(outer)
    removed_blocks = set(cons_blocks)
    ok = True
    bad = None
    for s in fn.succs(cb):
        reach = fn.reachable(s, removed_edges=bypass, removed_blocks=removed_blocks)
        hit = reach & targets
        if hit:
            ok = False
            bad = sorted(hit)[0]
    # (B) per element for iterations: from the Some edge of next(), the loop must not restart without a consumer
    some_edges = guard_edges(P, fn, lambda atom, outcome, bb: atom[0] == "variant" and atom[1][0] == "call"
                             and strip_generics(atom[1][1]).endswith("::next") and outcome == frozenset(["Some"])
                             and (field is None and _mentions_call(atom[1], fn.name, cb)
                                  or field is not None and _mentions_field_of_call(atom[1], fn.name, cb, field)))
    for (b, tgt) in some_edges:
        # the loop head = block of the next() call feeding this switch
        heads = [h for h, body in loops.items() if b in body]
        if not heads:
            continue
        h = min(heads, key=lambda h: len(loops[h]))
        reach = fn.reachable(tgt, removed_blocks=removed_blocks)
        if h in reach:
            ok = False
            bad = h
    ctx.ob(rule, key, ok, fn.loc(cb),
           ("every path from %s to the end of the iteration passes %s (or skips on emptiness of the same value)" % (
               producer, "/".join(consumers))) if ok else
           ("a path from %s reaches %s without passing %s: an eviction result is dropped" % (
               producer, fn.loc(bad) if bad is not None else "exit", "/".join(consumers))))
    return ok
