"""C02 — Every emitted packet parses back to exactly the records that were added (structural clauses)."""
from .lib import *
from ..effects import Effects

EXPLANATION = (
    "The heart of C02 is a value round trip (escaping, compression pointers) — not decidable statically here.  Decided "
    "are structural clauses that are necessary for it: (a) F3 codec agreement — header field offsets of write_header vs "
    "read_header, the fixed RR part of write_record vs read_rr_records (2+2+4+2 = RR_HEADER_REMAIN), and per record type "
    "the ordered (wire primitive, struct field) list of write() vs the decoder arm that builds the type (PTR, SRV, TXT, "
    "A/AAAA); HINFO/NSEC are exempt only while they are constructed nowhere but in the decoder; (b) rollback "
    "completeness — on the over-size path of write_record every DnsOutPacket field in the mod-set of the code between "
    "the snapshot and the size test is restored; (c) each section counter of to_packets is incremented exactly on the "
    "true outcome of write_record for that section, the question count is len(questions), the counters reach "
    "write_header in the order (qd, an, ns, ar) and are reset after a continuation split; (d) TC is set on the header "
    "written inside the loop and not on the last; (e) send_to for DNS data is called only by multicast_on_intf / "
    "unicast_on_intf behind the `len > MAX_MSG_ABSOLUTE ⇒ return` guard; (f) fullname derives from "
    "escape_instance_name(my_name)."
    " The rollback is exact: data is truncated at the snapshot and a compression entry survives iff its offset is strictly below it."
    " (g) The compression table is keyed by the exact label suffix that is written: no case folding between labels[i..].join(\".\") and names.get / names.insert."
    " The owner name write_record emits is DnsRecord::get_name() (the current, possibly renamed name)."
    " (h) Every successful return of DnsIncoming::new has passed the header and all four section readers (only `?` error exits skip one)."
    " (i) write_name applies no string rewriting to the labels it keys.")
UNDECIDED = ["value round trip: decoded names/RDATA equal what was added (escaping, compression pointers pointing at the right bytes)",
             "non-injective compression key for labels containing '.' (a\\.b vs a.b)",
             "answers/authorities that do not fit are dropped while later smaller records still enter the packet",
             "question overflow is never checked by the encoder (only by the send guard)"]

WRITE_PRIMS = {"write_short": "u16", "write_name": "name", "write_bytes": "bytes", "write_u32": "u32", "write_byte": "u8", "write_utf8": "utf8"}
READ_PRIMS = {"read_u16": "u16", "read_name": "name", "read_vec": "bytes", "read_ipv4": "ip", "read_ipv6": "ip", "read_char_string": "charstr",
              "read_type_bitmap": "bitmap", "read_string": "str"}


def clause_a(ctx, P):
    # header
    wh = P.one("DnsOutPacket::write_header")
    wtr = tracer(P, wh)
    wt = []
    for b, t in wh.calls():
        if name_matches(cname(t), "DnsOutPacket::insert_short"):
            off = fold(wtr.operand(t["args"][1], endpos(wh, b)))
            v = strip(wtr.operand(t["args"][2], endpos(wh, b)))
            pn = [wh.locals[x[1]].get("name") for x in v if x[0] == "param"]
            wt.append((off, pn[0] if pn else None))
    wt.sort()
    rh = P.one("DnsIncoming::read_header")
    rtr = tracer(P, rh)
    rt = []
    for b, i, s in rh.assigns():
        pr = s["p"]["proj"]
        if pr and pr[-1][0] == "field" and pr[-1][4].endswith("DnsIncoming") and pr[-1][2] not in ("offset",):
            e = rtr.rvalue(s["r"], (b, i))
            rng = [x for x in walk(e) if x[0] == "agg" and (x[2] or "").startswith("std::ops::Range")]
            lo = None
            if rng:
                r0 = rng[0]
                if r0[2].endswith("RangeTo"):
                    lo, hi = 0, fold(r0[4][0])
                else:
                    lo, hi = fold(r0[4][0]), fold(r0[4][1])
                if hi is not None and lo is not None and hi - lo == 2 and has_call(e, "u16_from_be_slice"):
                    rt.append((lo, pr[-1][2]))
    rt.sort()
    sem = {"id": "id", "flags": "flags", "q_count": "num_questions", "a_count": "num_answers", "auth_count": "num_authorities", "addi_count": "num_additionals"}
    ok = [o for o, _ in wt] == [0, 2, 4, 6, 8, 10] and [(o, sem.get(n)) for o, n in wt] == rt
    ctx.ob("C02a.F3.header-layout", "write_header~read_header", ok, wh.loc(), "writer %s ; reader %s" % (wt, rt))
    ins = P.one("DnsOutPacket::insert_short")
    itr = tracer(P, ins)
    okb = any(name_matches(cname(t), "u16::to_be_bytes") or "to_be_bytes" in cname(t) for b, t in ins.calls())
    ctx.ob("C02a.F3.big-endian", ins.name, okb, ins.loc(), "header fields are stored big-endian (to_be_bytes) and read with u16_from_be_slice")
    # RR fixed part
    wr = P.one("DnsOutPacket::write_record")
    wrt = tracer(P, wr)
    seq = []
    rpo = {b: k for k, b in enumerate(wr._rpo())}
    order = sorted((b for b, t in wr.calls()), key=lambda b: rpo.get(b, 0))
    for b in order:
        t = wr.term(b)
        n = method(cname(t))
        if cname(t).startswith("dns_parser::DnsOutPacket::") and n in WRITE_PRIMS:
            e = wrt.operand(t["args"][1], endpos(wr, b))
            what = "ttl" if any(x[0] == "field" and x[2] == "ttl" for x in walk(e)) or has_call(e, "get_remaining_ttl") else \
                "class" if any(x[0] == "field" and x[2] == "class" for x in walk(e)) else \
                "ty" if any(x[0] == "field" and x[2] == "ty" for x in walk(e)) else \
                "name" if n == "write_name" else ("rdlen" if fold(e) == 0 else "?")
            if not seq or seq[-1] != (WRITE_PRIMS[n], what):
                seq.append((WRITE_PRIMS[n], what))
        if name_matches(cname(t), "DnsRecordExt::write"):
            seq.append(("rdata", "rdata"))
    want = [("name", "name"), ("u16", "ty"), ("u16", "class"), ("u32", "ttl"), ("u16", "rdlen"), ("rdata", "rdata")]
    ctx.ob("C02a.F3.rr-fixed-part-writer", wr.name, seq == want, wr.loc(), "write_record emits %s" % seq)
    # the owner name of a record is the one it currently goes by: DnsRecord::get_name() (new_name after a conflict
    # rename, else entry.name) — never the entry's name field read directly
    names = [(b, wr.term(b)) for b in order if method(cname(wr.term(b))) == "write_name" and cname(wr.term(b)).startswith("dns_parser::DnsOutPacket::")]
    okn = bool(names)
    detn = ""
    for (b, t) in names:
        e = wrt.operand(t["args"][1], endpos(wr, b))
        via = has_call(e, "DnsRecord::get_name")
        raw = any(x[0] == "field" and x[2] == "name" and (x[3] or "").endswith("DnsEntry") for x in walk(e))
        if not via or raw:
            okn = False
        detn = show(e)[:80]
    ctx.ob("C02a.F3.owner-name-is-current-name", wr.name, okn, wr.loc(), "write_record writes the owner name obtained from DnsRecord::get_name(): %s" % detn)
    rr = P.one("DnsIncoming::read_rr_records")
    rrt = tracer(P, rr)
    reads = {}
    for l, d in enumerate(rr.locals):
        nm = d.get("name")
        if nm in ("ty", "class", "ttl", "rdata_len"):
            for (b, i, kind, payload) in rr.defs().get(l, []):
                if kind in ("assign", "call"):
                    e = rrt._def_expr(l, (b, i, kind, payload), 0)
                    rng = [x for x in walk(e) if x[0] == "agg" and (x[2] or "").startswith("std::ops::Range")]
                    for r0 in rng:
                        if r0[2].endswith("RangeTo"):
                            reads.setdefault(nm, (0, fold(r0[4][0])))
                        elif r0[2].endswith("RangeFrom"):
                            continue
                        else:
                            reads.setdefault(nm, (fold(r0[4][0]), fold(r0[4][1])))
    okr = reads == {"ty": (0, 2), "class": (2, 4), "ttl": (4, 8), "rdata_len": (8, 10)}
    ctx.ob("C02a.F3.rr-fixed-part-reader", rr.name, okr, rr.loc(), "read_rr_records reads %s after the name" % reads)
    hdr = None
    for b, i, s in rr.assigns():
        r = s["r"]
        if r["k"] in ("binop", "checked") and r["op"].startswith("Add") and place_mentions_field(r["a"].get("p", {"proj": []}), "DnsIncoming", "offset"):
            v = r["b"].get("val")
            if r["b"].get("uneval", "").endswith("RR_HEADER_REMAIN"):
                hdr = v
    ctx.ob("C02a.F3.rr-header-size", rr.name, hdr == 10, rr.loc(), "the reader advances by RR_HEADER_REMAIN = %s = 2+2+4+2" % hdr)
    # per record type
    agree = {"DnsPointer": True, "DnsSrv": True, "DnsTxt": True, "DnsAddress": True, "DnsHostInfo": False, "DnsNSec": False}
    for ty, must in agree.items():
        w = P.one("<dns_parser::%s as dns_parser::DnsRecordExt>::write" % ty)
        wt_ = _writer_table(P, w)
        rd = _reader_table(P, rr, ty)
        same = _tables_agree(wt_, rd)
        if must:
            ctx.ob("C02a.F3.rdata-layout", ty, same, w.loc(), "write() emits %s ; decoder reads %s" % (wt_, rd))
        else:
            # exempt only while decode-only
            ctors = [g for (g, cb, t) in P.call_sites_of("dns_parser::%s::new" % ty) if not g.in_tests()]
            only_dec = all(g.name == "dns_parser::DnsIncoming::read_rr_records" for g in ctors)
            ctx.ob("C02a.F3.rdata-layout", ty, same or only_dec, w.loc(),
                   ("write() and the decoder agree" if same else
                    "writer %s and reader %s differ, exempt: %s is constructed only by the decoder (%d site(s)) and therefore never written" % (wt_, rd, ty, len(ctors)))
                   if (same or only_dec) else "writer %s and reader %s differ and %s is constructed outside the decoder: %s" % (wt_, rd, ty, [g.name for g in ctors]))


def _writer_table(P, w):
    tr = tracer(P, w)
    out = []
    rpo = {b: k for k, b in enumerate(w._rpo())}
    order = sorted((b for b, t in w.calls()), key=lambda b: rpo.get(b, 0))
    for b in order:
        t = w.term(b)
        n = method(cname(t))
        if cname(t).startswith("dns_parser::DnsOutPacket::") and n in WRITE_PRIMS:
            e = tr.operand(t["args"][1], endpos(w, b))
            flds = [x[2] for x in walk(e) if x[0] == "field" and isinstance(x[2], str) and x[2] not in ("0", "record")]
            prim = WRITE_PRIMS[n]
            if prim == "bytes" and has_call(e, "octets"):
                prim = "ip"
            item = (prim, flds[-1] if flds else None)
            if not out or out[-1] != item:
                out.append(item)
    return out


def _reader_table(P, rr, ty):
    tr = tracer(P, rr)
    ctor = P.fns.get("dns_parser::%s::new" % ty)
    if ctor is None:
        return None
    # param -> field map from the constructor's aggregate
    ctr = tracer(P, ctor)
    p2f = {}
    for b, i, s in aggregates(ctor, "dns_parser::" + ty):
        for nm, op in zip(s["r"]["fields"], s["r"]["ops"]):
            for a in strip(ctr.operand(op, (b, i))):
                if a[0] == "param":
                    p2f[a[1]] = nm
    tables = []
    for b, t in rr.calls():
        if cname(t) == "dns_parser::%s::new" % ty:
            row = []
            for k, a in enumerate(t["args"]):
                e = tr.operand(a, endpos(rr, b))
                prim = None
                for x in walk(e):
                    if x[0] == "call" and strip_generics(x[1]).startswith("dns_parser::DnsIncoming::") and method(strip_generics(x[1])) in READ_PRIMS:
                        prim = READ_PRIMS[method(strip_generics(x[1]))]
                        if p2f.get(k + 1) is not None:      # the owner name goes to DnsRecord::new, not to an RDATA field
                            row.append((x[3][1], prim, p2f.get(k + 1)))
                        break
            # wire order = evaluation order of the read calls = block order along the dominator chain
            rrpo = {b_: k_ for k_, b_ in enumerate(rr._rpo())}
            row.sort(key=lambda r: rrpo.get(r[0], 0))
            tables.append([(p, f) for (_b, p, f) in row])
    # A and AAAA arms must agree
    if not tables:
        return None
    if any(tb != tables[0] for tb in tables):
        return tables
    return tables[0]


def _tables_agree(w, r):
    if r is None or not w:
        return False
    if r and isinstance(r[0], list):
        return False
    return w == r


def clause_b(ctx, P):
    eff = Effects(P)
    wr = P.one("DnsOutPacket::write_record")
    tr = tracer(P, wr)
    # snapshot
    # the snapshot: the size() call that precedes every other call of the function (whatever its local is called)
    snap = None
    for b, t in wr.calls():
        if name_matches(cname(t), "DnsOutPacket::size") and t["dest"]["l"] is not None:
            if all(wr.dominates(b, b2) for b2, _t2 in wr.calls()):
                snap = b
    ctx.require(snap is not None, "C02b.anchor", wr.name, wr.loc(), "snapshot `self.size()` taken before anything else is called")
    if snap is None:
        return
    # size test and rollback arm
    e_over = guard_edges(P, wr, lambda atom, outcome, bb: atom[0] == "binop" and atom[1] == "Gt" and fold(atom[3]) == 8972 and has_call(atom[2], "DnsOutPacket::size") and outcome is True)
    ctx.require(bool(e_over), "C02b.anchor-test", wr.name, wr.loc(), "size test `self.size() > MAX_MSG_ABSOLUTE` found")
    if not e_over:
        return
    (tb, rtgt) = sorted(e_over)[0]
    # the snapshot precedes every write
    first_writes = [b for b, t in wr.calls() if eff.call_writes(t, "DnsOutPacket") and b != snap]
    ok = all(wr.dominates(snap, b) for b in first_writes)
    ctx.ob("C02b.snapshot-before-writes", wr.name, ok, wr.loc(snap), "start_size is taken before the first byte of the record is written")
    # mod-set between snapshot and test
    between = [b for b, t in wr.calls() if wr.dominates(snap, b) and b != snap and wr.dominates(b, tb)]
    mod = set()
    for b in between:
        mod |= eff.call_writes(wr.term(b), "DnsOutPacket")
    for b, i, s in wr.assigns():
        if wr.dominates(snap, b) and wr.dominates(b, tb):
            for pe in s["p"]["proj"]:
                if pe[0] == "field" and pe[4].endswith("DnsOutPacket"):
                    mod.add(pe[2])
    ctx.ob("C02b.mod-set", wr.name, {"data"} <= mod, wr.loc(), "fields of DnsOutPacket written while a record is encoded: %s" % sorted(mod))
    # restored on the rollback path
    roll = wr.reachable(rtgt, removed_blocks=[tb])
    restored = {}
    for b in roll:
        t = wr.term(b)
        if t["k"] != "call" or not t["args"]:
            continue
        recv = tr.operand(t["args"][0], endpos(wr, b))
        m = method(cname(t))
        for fld in mod:
            if any(is_field_expr(x, fld, "DnsOutPacket") for x in strip(recv)):
                if m in ("truncate", "retain", "clear", "remove", "drain", "split_off", "resize"):
                    # the restore must refer to the snapshot
                    uses_snap = any(any(y[0] == "call" and y[3] == (wr.name, snap) for y in walk(tr.operand(a, endpos(wr, b)))) for a in t["args"][1:])
                    if not uses_snap and m in ("retain", "retain_mut"):
                        # closure capturing start_size
                        for a in t["args"][1:]:
                            for cl in strip(tr.operand(a, endpos(wr, b))):
                                if cl[0] == "closure":
                                    caps = closure_captures(P, wr, cl[1]) or []
                                    if any(any(y[0] == "call" and y[3] == (wr.name, snap) for y in walk(c)) for c in caps):
                                        uses_snap = True
                    if uses_snap:
                        restored[fld] = m
                        # exactness: data is cut AT the snapshot; a names entry survives iff its offset is strictly
                        # below it (the entry at the snapshot itself is the first name the discarded record wrote)
                        if m == "truncate":
                            e1 = tr.operand(t["args"][1], endpos(wr, b))
                            exact = any(y[0] == "call" and y[3] == (wr.name, snap) for y in strip(e1))
                            ctx.ob("C02b.rollback-exact", "%s|%s.truncate" % (wr.name, fld), exact, wr.loc(b),
                                   "truncate(start_size)" if exact else "truncation length %s is not the snapshot itself" % show(e1)[:60])
                        if m in ("retain", "retain_mut"):
                            from .f12 import ret_exprs
                            exact = False
                            det = "closure not found"
                            for a in t["args"][1:]:
                                for cl in strip(tr.operand(a, endpos(wr, b))):
                                    if cl[0] == "closure" and cl[1] in P.fns:
                                        for e in ret_exprs(P, P.fns[cl[1]]):
                                            det = show(e)[:80]
                                            if e[0] == "binop" and e[1] in ("Lt", "Gt"):
                                                lo, hi = (e[2], e[3]) if e[1] == "Lt" else (e[3], e[2])
                                                from_param = any(x[0] == "param" and x[1] >= 2 for x in walk(lo))
                                                from_capture = any(x[0] == "field" and any(y[0] == "param" and y[1] == 1 for y in walk(x)) for x in walk(hi))
                                                exact = from_param and from_capture
                            ctx.ob("C02b.rollback-exact", "%s|%s.retain" % (wr.name, fld), exact, wr.loc(b),
                                   "keeps an entry iff offset < start_size: %s" % det if exact else "the retain predicate is not `offset < start_size`: %s" % det)
    for fld in sorted(mod):
        if fld == "state":
            continue
        ok = fld in restored
        ctx.ob("C02b.rollback-restores", "%s|%s" % (wr.name, fld), ok, wr.loc(rtgt),
               ("DnsOutPacket.%s is rolled back to the snapshot (%s)" % (fld, restored.get(fld))) if ok else
               ("the over-size path restores %s but not DnsOutPacket.%s, which the rolled-back record has written: entries recorded for the "
                "discarded bytes stay behind (for `names`: later names are compressed against offsets that no longer exist)" % (sorted(restored), fld)))
    # returns false on that path, true otherwise
    falses = [b for b, i, s in wr.assigns() if not s["p"]["proj"] and s["p"]["l"] == 0 and s["r"]["k"] == "use" and s["r"]["a"].get("val") in (0, False)]
    ok = bool(falses) and all(must_pass_edges(wr, b, e_over) for b in falses)
    ctx.ob("C02b.rollback-returns-false", wr.name, ok, wr.loc(), "write_record returns false exactly on the rollback path")
    # the length placeholder is patched with the RDATA size
    ins = calls_to(wr, "DnsOutPacket::insert_short")
    ok = len(ins) == 1
    if ok:
        idx = tr.operand(ins[0][1]["args"][1], endpos(wr, ins[0][0]))
        val = tr.operand(ins[0][1]["args"][2], endpos(wr, ins[0][0]))
        ok = any(a[0] == "binop" and a[1].startswith("Sub") and fold(a[3]) == 2 for a in strip(idx)) and any(has_call(a, "DnsOutPacket::size") for a in strip(val))
    ctx.ob("C02b.rdlength-patched", wr.name, ok, wr.loc(), "RDLENGTH placeholder at record_offset - 2 is overwritten with size() - record_offset")


def _named_dest(fn, b, t):
    """follow `_x = call; named = move _x`"""
    l = t["dest"]["l"]
    for bb, i, s in fn.assigns():
        r = s["r"]
        if r["k"] == "use" and r["a"].get("k") in ("copy", "move") and not r["a"]["p"]["proj"] and r["a"]["p"]["l"] == l and not s["p"]["proj"]:
            if fn.locals[s["p"]["l"]].get("name"):
                return s["p"]["l"]
    return l


def clause_cd(ctx, P):
    f = P.one("DnsOutgoing::to_packets")
    tr = tracer(P, f)
    names = {d.get("name"): l for l, d in enumerate(f.locals) if d.get("name")}
    need = ["question_count", "answer_count", "auth_count", "addi_count"]
    ctx.require(all(n in names for n in need), "C02c.anchor", f.name, f.loc(), "section counters found: %s" % [n for n in need if n in names])
    if not all(n in names for n in need):
        return
    wrs = [(b, t) for b, t in f.calls() if name_matches(cname(t), "DnsOutPacket::write_record")]
    sect = {}
    for (b, t) in wrs:
        e = tr.operand(t["args"][1], endpos(f, b))
        for fld, cnt in (("answers", "answer_count"), ("authorities", "auth_count"), ("additionals", "addi_count")):
            if expr_mentions_field(e, fld, "DnsOutgoing"):
                sect.setdefault(cnt, []).append(b)
    for cnt in ("answer_count", "auth_count", "addi_count"):
        l = names[cnt]
        incs = []
        for b, i, s in f.assigns():
            if not s["p"]["proj"] and s["p"]["l"] == l:
                e = tr.rvalue(s["r"], (b, i))
                if e[0] == "binop" and e[1].startswith("Add"):
                    incs.append((b, i, e))
        wbs = sect.get(cnt, [])
        ok = bool(incs) and bool(wbs)
        why = ""
        for (b, i, e) in incs:
            inc = e[3]
            if fold(inc) == 1:
                # guarded by write_record(..) == true of this section
                edges = guard_edges(P, f, lambda atom, outcome, bb: outcome is True and any(x[0] == "call" and x[3][0] == f.name and x[3][1] in wbs for x in strip(atom)))
                if not must_pass_edges(f, b, edges):
                    ok = False
                    why = "increment by 1 not guarded by write_record() == true"
            else:
                # += u16::from(write_record(..))
                if not any(x[0] == "call" and x[3][0] == f.name and x[3][1] in wbs for x in walk(inc)):
                    ok = False
                    why = "increment %s does not derive from this section's write_record result" % show(inc)[:50]
        # every write_record of the section in a loop is followed by an increment on its true outcome (the continuation
        # write after a split is accounted for by the reset to 1)
        ctx.ob("C02c.counter-iff-written", "%s|%s" % (f.name, cnt), ok, f.loc(), ("%s counts exactly the records of its section that write_record accepted" % cnt) if ok else "%s: %s" % (cnt, why))
    # question count = len(questions)
    ql = names["question_count"]
    ok = False
    for b, i, s in f.assigns():
        if not s["p"]["proj"] and s["p"]["l"] == ql:
            e = tr.rvalue(s["r"], (b, i))
            if has_call(e, "Vec::len") and expr_mentions_field(e, "questions", "DnsOutgoing"):
                ok = True
    ctx.ob("C02c.question-count", f.name, ok, f.loc(), "question_count = self.questions.len()")
    # every question is written
    wq = calls_to(f, "DnsOutPacket::write_question")
    ctx.ob("C02c.questions-written", f.name, len(wq) == 1 and expr_mentions_field(tr.operand(wq[0][1]["args"][1], endpos(f, wq[0][0])), "questions", "DnsOutgoing"), f.loc(), "every question is written into the first packet")
    # header argument order
    whs = calls_to(f, "DnsOutPacket::write_header")
    ctx.require(len(whs) == 2, "C02c.anchor-header", f.name, f.loc(), "two write_header calls (split and final), found %d" % len(whs))
    loops = f.loops()
    for j, (b, t) in enumerate(whs):
        order = []
        for a in t["args"][3:7]:
            l = _root_named_local(f, a, endpos(f, b))
            order.append(f.locals[l].get("name") if l is not None else None)
        ctx.ob("C02c.header-arg-order", "%s|write_header#%d" % (f.name, j + 1), order == need, f.loc(b), "write_header receives (qd, an, ns, ar) = %s" % order)
        fl = tr.operand(t["args"][2], endpos(f, b))
        inloop = any(b in body for body in loops.values())
        has_tc = any(a[0] == "binop" and a[1] == "BitOr" and fold(a[3]) == 0x0200 for a in strip(fl))
        plain = all(a[0] == "field" and a[2] == "flags" for a in strip(fl))
        if inloop:
            ctx.ob("C02d.tc-on-continued", "%s|write_header#%d" % (f.name, j + 1), has_tc, f.loc(b), "the header written before a continuation packet carries flags | FLAGS_TC (0x0200)")
            # followed by a fresh packet and the carried record
            nw = [bb for bb, tt in f.calls() if name_matches(cname(tt), "DnsOutPacket::new") and bb in f.reachable(b)]
            ctx.ob("C02d.fresh-packet-after-tc", f.name, bool(nw), f.loc(b), "a fresh packet follows the truncated one")
            # counters reset
            resets = {}
            for bb, i, s in f.assigns():
                if not s["p"]["proj"] and f.locals[s["p"]["l"]].get("name") in need and bb in f.reachable(b) and any(bb in body for body in loops.values()) and s["r"]["k"] == "use" and s["r"]["a"]["k"] == "const":
                    if f.dominates(b, bb):
                        resets[f.locals[s["p"]["l"]]["name"]] = s["r"]["a"].get("val")
            ctx.ob("C02c.counters-reset-after-split", f.name, resets == {"question_count": 0, "answer_count": 0, "auth_count": 0, "addi_count": 1}, f.loc(b),
                   "after a split the counters restart at %s (the carried additional is counted once)" % resets)
        else:
            ctx.ob("C02d.no-tc-on-last", "%s|write_header#%d" % (f.name, j + 1), plain and not has_tc, f.loc(b), "the last packet's header carries the plain flags")
    # only queries are continued
    e_resp = guard_edges(P, f, lambda atom, outcome, bb: atom[0] == "call" and name_matches(strip_generics(atom[1]), "DnsOutgoing::is_response") and outcome is False)
    inl = [b for (b, t) in whs if any(b in body for body in loops.values())]
    ctx.ob("C02d.continuation-only-for-queries", f.name, bool(inl) and all(must_pass_edges(f, b, e_resp) for b in inl), f.loc(), "a continuation packet is produced only when !is_response()")


def _root_named_local(fn, a, pos):
    if a.get("k") not in ("copy", "move") or a["p"]["proj"]:
        return None
    l = a["p"]["l"]
    for _ in range(6):
        if fn.locals[l].get("name"):
            return l
        ds = fn.reaching_defs(l, pos)
        if len(ds) != 1 or ds[0][2] != "assign":
            return None
        r = ds[0][3]
        if r["k"] == "use" and r["a"].get("k") in ("copy", "move") and not r["a"]["p"]["proj"]:
            pos = (ds[0][0], ds[0][1])
            l = r["a"]["p"]["l"]
        else:
            return None
    return l if fn.locals[l].get("name") else None


def clause_e(ctx, P):
    senders = []
    for f in P.lib_fns():
        for b, t in f.calls():
            n = cname(t)
            if n.endswith("::send_to") and ("socket_pktinfo" in n or "PktInfoUdpSocket" in n or "socket2" in n):
                senders.append((f, b, t))
    allowed = {"service_daemon::multicast_on_intf", "service_daemon::unicast_on_intf", "service_daemon::_new_socket_bind"}
    names = sorted({f.name for (f, b, t) in senders})
    ctx.ob("C02e.F14.who-sends-datagrams", "PktInfoUdpSocket::send_to", set(names) <= allowed and {"service_daemon::multicast_on_intf", "service_daemon::unicast_on_intf"} <= set(names), "",
           "DNS datagrams are put on the wire only by %s" % names)
    for (f, b, t) in senders:
        if f.name == "service_daemon::_new_socket_bind":
            continue
        tr = tracer(P, f)
        e_ok = guard_edges(P, f, lambda atom, outcome, bb: atom[0] == "binop" and atom[1] == "Gt" and fold(atom[3]) == 8972 and outcome is False
                           and (has_call(atom[2], "len") or atom[2][0] == "len") and any(x == ("param", 1) for x in walk(atom[2])))
        pk = tr.operand(t["args"][1], endpos(f, b))
        ok = must_pass_edges(f, b, e_ok) and any(x == ("param", 1) for x in walk(pk))
        ctx.ob("C02e.F14.size-guard", f.name, ok, f.loc(b), "send_to(packet) is reachable only when packet.len() > 8972 is false" if ok else "send_to reachable for an over-sized packet")
    # all packet sends go through send_dns_outgoing_impl / exec_command_unregister_resend
    for callee in ("service_daemon::multicast_on_intf", "service_daemon::unicast_on_intf"):
        sites = sorted({g.name for (g, cb, t) in P.call_sites_of(callee)})
        ctx.ob("C02e.who-calls-" + callee.split("::")[-1], callee, set(sites) <= {"service_daemon::send_dns_outgoing_impl", "service_daemon::Zeroconf::exec_command_unregister_resend"}, "", "called from %s" % sites)


def clause_f(ctx, P):
    f = P.one("ServiceInfo::new")
    tr = tracer(P, f)
    ok = False
    for b, i, s in aggregates(f, "service_info::ServiceInfo"):
        vals = dict(zip(s["r"]["fields"], [tr.operand(o, (b, i)) for o in s["r"]["ops"]]))
        fn_ = vals.get("fullname")
        ok = fn_ is not None and has_call(fn_, "service_info::escape_instance_name") and any(x == ("param", 2) for x in walk(fn_))
    ctx.ob("C02f.instance-name-escaped", f.name, ok, f.loc(), "fullname = format!(\"{escape_instance_name(my_name)}.{ty_domain}\")")
    # escape and parse tables are siblings: '.' and '\\' are the escaped characters on both sides
    esc = P.one("service_info::escape_instance_name")
    par = P.one("DnsOutPacket::parse_escaped_name")
    def char_consts(fn, depth=0):
        """characters the function tells apart: arms of a `match ch`, or `ch == 'x'` comparisons (also in its closures)"""
        out = set()
        for b in fn.live_blocks():
            t = fn.term(b)
            if t["k"] == "switch" and (t["d"].get("p") or {}).get("ty") == "char":
                out |= {v for v, _ in t["branches"]}
        for b, i, s_ in fn.assigns():
            r = s_["r"]
            if r["k"] == "binop" and r["op"] in ("Eq", "Ne"):
                for o in (r["a"], r["b"]):
                    if o.get("k") == "const" and o.get("ty") == "char" and isinstance(o.get("val"), int):
                        out.add(o["val"])
        if depth < 2:
            for c in P.closures_of.get(fn.name, []):
                out |= char_consts(P.fns[c], depth + 1)
        return out
    ce, cp = char_consts(esc), char_consts(par)
    ctx.ob("C02f.escape-siblings", "escape_instance_name~parse_escaped_name", ce == {46, 92} and {46, 92} <= cp, esc.loc(),
           "escaper escapes %s ; splitter recognises %s ('.'=46, '\\'=92)" % (sorted(ce), sorted(cp)))


def run(ctx, P):
    from . import r2
    r2.compression_key_is_exact(ctx, P, "C02g")
    from . import r4
    r4.every_section_decoded(ctx, P, "C02h")
    r4.compression_key_labels_untransformed(ctx, P, "C02i")
    clause_a(ctx, P)
    clause_b(ctx, P)
    clause_cd(ctx, P)
    clause_e(ctx, P)
    clause_f(ctx, P)
