"""C06 — Queries get exactly the registered records, right values, right link."""
from .lib import *
from . import f4
from .f13 import status_guard_edges, contains_expr, announce_true_edges, field_values

EXPLANATION = (
    "Static rules over handle_query and the record builders: (a) F13 — every answer-producing call is control-dependent "
    "on get_status(service, if_index) == Announced for the same service and the handler's interface index, and "
    "set_status(.., Announced) happens only after announce_service_on_intf returned Ok(true); (b) F4 class/TTL rules over "
    "all builder sites and the 120/4500 defaults; (c) F4 address provenance (subnet filter) and the mask formula of "
    "valid_ip_on_intf; (d) additionals only after the PTR answer was added; (e) lower-cased comparison of host and "
    "instance names; (f) legacy unicast: destination iff source port != 5353, questions echoed and cache-flush bits "
    "cleared before the send, unicast routing, and F15 — the query ID reaches write_header on a feasible path.  "
    "Decides these necessary conditions, not set equality of answers over all query mixes."
    " (g,h) The answer builders use rename-resolved names and the answering service is found by scanning my_services for resolve_name(key) == question name, never by the registered key."
    " (j) In add_interface every announce attempt is followed on all paths by a status write for that interface. (k) The known-answer formula (shared with C10a)."
    " (l) Before its question loop handle_query returns only for an unknown socket / registry / interface. (m) No byte-wise string test on the question name stands in front of all answer sites. (n) add_additional_answer leaves a record out only behind a full-record comparison."
    " (o) as C04l. (p) After the question loop only answers_count() == 0 goes around send_dns_outgoing. (q) A name_changes entry keyed by a host name is removed only behind a scan of the other services.")
UNDECIDED = ["'exactly the records that match each question' as a set equality over all query mixes",
             "subtype-question / answer-name relation", "interplay with known answers (C10)"]


def _answer_calls(fn):
    names = ("DnsOutgoing::add_answer_with_additionals", "DnsOutgoing::add_answer", "DnsOutgoing::add_answer_at_time",
             "DnsOutgoing::add_additional_answer", "DnsOutgoing::add_answer_box", "service_daemon::add_answer_of_service",
             "service_daemon::add_answer_of_service_with_host")
    return [(b, t) for b, t in fn.calls() if any(cname(t) == n or cname(t).endswith("::" + n) or cname(t).endswith(n) for n in names)]


def clause_a(ctx, P):
    fn = P.one("Zeroconf::handle_query")
    idx = param_index(fn, "if_index", "u32")
    ctx.require(idx is not None, "C06a.anchor", fn.name, fn.loc(), "parameter if_index found")
    tr = tracer(P, fn)
    guards = status_guard_edges(P, fn, idx)
    calls = _answer_calls(fn)
    ctx.floor("C06a.answer-sites", len(calls), 4, "answer-producing calls in handle_query")
    k = {}
    for (b, t) in calls:
        nm = cname(t).split("::")[-1]
        k[nm] = k.get(nm, 0) + 1
        args = [tr.operand(a, endpos(fn, b)) for a in t["args"]]
        # guards whose service expression occurs in the call's arguments and whose index is the handler's if_index
        good = set()
        for (edge, S, I) in guards:
            if not all(x == ("param", idx) for x in strip(I)):
                continue
            if any(contains_expr(a, S) for a in args):
                good.add(edge)
        ok = bool(good) and must_pass_edges(fn, b, good)
        ctx.ob("C06a.F13.answer-only-announced", "%s|%s#%d" % (fn.name, nm, k[nm]), ok, fn.loc(b),
               "%s is reachable only under get_status(service, if_index) == Announced of the answering service" % nm if ok else
               "%s can be reached for a service whose status on this interface is not Announced (probing/unknown)" % nm)
    # set_status(.., Announced) only after a successful announce
    n = 0
    for f in P.lib_fns():
        ftr = tracer(P, f)
        sites = []
        for b, t in f.calls():
            if cname(t).endswith("ServiceInfo::set_status") and len(t["args"]) == 3:
                st = ftr.operand(t["args"][2], endpos(f, b))
                if ("service_info::ServiceStatus", "Announced") in value_variants(st):
                    sites.append(b)
        if not sites:
            continue
        edges = announce_true_edges(P, f)
        for j, b in enumerate(sites):
            n += 1
            ok = bool(edges) and must_pass_edges(f, b, edges)
            ctx.ob("C06a.F13.announced-after-announce", "%s|set_status#%d" % (f.name, j + 1), ok, f.loc(b),
                   "status becomes Announced only on a path where announce_service_on_intf returned Ok(true)" if ok else
                   "set_status(Announced) reachable without a successful announce")
    ctx.floor("C06a.F13.announced-after-announce", n, 4, "set_status(.., Announced) sites")


def clause_bc(ctx, P):
    n = f4.check_class_ttl(ctx, P, "C06b")
    ctx.floor("C06b.F4.builder-sites", n, 20, "record constructor calls outside the decoder")
    f4.check_ttl_defaults(ctx, P, "C06b")
    m = f4.check_address_provenance(ctx, P, "C06c")
    ctx.floor("C06c.F4.address-sites", m, 5, "DnsAddress::new outside the decoder")
    # valid_ip_on_intf: (addr & mask) == (if_ip & mask)
    fn = P.one("service_info::valid_ip_on_intf")
    tr = tracer(P, fn)
    ands = []
    eqs = []
    for b, i, s in fn.assigns():
        r = s["r"]
        if r["k"] == "binop" and r["op"] == "BitAnd":
            e = tr.rvalue(r, (b, i))
            ands.append(e)
        if r["k"] == "binop" and r["op"] == "Eq":
            eqs.append(tr.rvalue(r, (b, i)))
    okm = len(ands) == 4 and all(expr_mentions_field(e, "netmask") for e in ands)
    oke = len(eqs) == 2 and all(e[2][0] == "binop" and e[2][1] == "BitAnd" and e[3][0] == "binop" and e[3][1] == "BitAnd" for e in eqs)
    sides_ok = True
    for e in eqs:
        # one side from the interface ip, the other from the candidate address (parameter 1)
        s1 = expr_mentions_field(e[2], "ip") or expr_mentions_field(e[3], "ip")
        s2 = any(x == ("param", 1) for x in walk(e[2])) or any(x == ("param", 1) for x in walk(e[3]))
        sides_ok = sides_ok and s1 and s2
    ctx.ob("C06c.F12.subnet-formula", fn.name, okm and oke and sides_ok, fn.loc(),
           "valid_ip_on_intf compares (addr & netmask) == (if_ip & netmask) for both families (%d masks, %d compares)" % (len(ands), len(eqs)))


def clause_d(ctx, P):
    fn = P.one("DnsOutgoing::add_answer_with_additionals")
    adds = calls_to(fn, "DnsOutgoing::add_additional_answer")
    ptr = calls_to(fn, "DnsOutgoing::add_answer")
    ctx.require(len(ptr) == 1 and len(adds) >= 3, "C06d.anchor", fn.name, fn.loc(), "one add_answer and >=3 add_additional_answer calls (%d/%d)" % (len(ptr), len(adds)))
    if len(ptr) != 1:
        return
    pb = ptr[0][0]
    edges = guard_edges(P, fn, lambda atom, outcome, bb: any(x[0] == "call" and x[3] == (fn.name, pb) for x in strip(atom)) and outcome is True)
    for j, (b, t) in enumerate(adds):
        ok = must_pass_edges(fn, b, edges)
        ctx.ob("C06d.additionals-only-with-ptr", "%s|add_additional_answer#%d" % (fn.name, j + 1), ok, fn.loc(b),
               "additional record is added only when the PTR answer was added (not suppressed)" if ok else
               "additional record reachable although the PTR answer was suppressed")
    # no address on the link => nothing at all
    tr = tracer(P, fn)
    e_empty = guard_edges(P, fn, lambda atom, outcome, bb: atom[0] == "call" and strip_generics(atom[1]).endswith("::is_empty") and outcome is False
                          and has_call(atom, *f4.ADDR_SOURCES))
    ok = must_pass_edges(fn, pb, e_empty)
    ctx.ob("C06d.no-address-no-answer", fn.name, ok, fn.loc(pb), "the PTR answer requires a non-empty subnet-filtered address list")
    f4.check_sibling_sets(ctx, P, "C06d", ["DnsOutgoing::add_answer_with_additionals"])


def _closure_captures(P, parent, cname_):
    tr = tracer(P, parent)
    for b, i, s in parent.assigns():
        r = s["r"]
        if r["k"] == "aggregate" and r["ak"] == "closure" and r.get("closure") == cname_:
            return [tr.operand(o, (b, i)) for o in r["ops"]]
    return None


def clause_e(ctx, P):
    fn = P.one("Zeroconf::handle_query")
    tr = tracer(P, fn)
    # host-name comparison guards the address answers built in the handler
    edges = guard_edges(P, fn, lambda atom, outcome, bb: atom[0] == "call" and strip_generics(atom[1]).endswith("::eq") and outcome is True
                        and len(atom[2]) == 2 and all(any(x[0] == "call" and strip_generics(x[1]).endswith("::to_lowercase") for x in strip(s)) for s in atom[2])
                        and has_call(atom, "ServiceInfo::get_hostname") and has_call(atom, "DnsQuestion::entry_name"))
    sites = [s for s in f4.builder_sites(P) if s.fn is fn and s.kind == "ADDR"]
    ctx.require(len(sites) >= 1, "C06e.anchor", fn.name, fn.loc(), "address answer built in handle_query")
    for s in sites:
        ok = must_pass_edges(fn, s.bb, edges)
        ctx.ob("C06e.host-compare-lowercase", s.key(s.ord), ok, fn.loc(s.bb),
               "address answers require to_lowercase(resolved host) == to_lowercase(question name)" if ok else
               "address answer not guarded by a case-insensitive host-name comparison")
    # instance lookup closure: resolve_name(key) == lower-cased question name
    found = False
    for c in P.closures_of.get(fn.name, []):
        cf = P.fns[c]
        ctr = tracer(P, cf)
        for b, t in cf.calls():
            n = cname(t)
            if n.endswith("::eq") and len(t["args"]) == 2:
                a0 = ctr.operand(t["args"][0], endpos(cf, b))
                a1 = ctr.operand(t["args"][1], endpos(cf, b))
                if has_call(a0, "DnsRegistry::resolve_name") or has_call(a1, "DnsRegistry::resolve_name"):
                    found = True
                    caps = _closure_captures(P, fn, c) or []
                    lower = any(any(x[0] == "call" and strip_generics(x[1]).endswith("::to_lowercase") for x in strip(ce)) for ce in caps)
                    other = a1 if has_call(a0, "DnsRegistry::resolve_name") else a0
                    from_capture = any(x[0] == "field" and any(y == ("param", 1) for y in walk(x)) for x in walk(other))
                    ctx.ob("C06e.instance-compare-lowercase", cf.name, lower and from_capture, cf.loc(b),
                           "instance lookup compares resolve_name(lower-cased key) with the lower-cased question name" if lower and from_capture else
                           "instance lookup does not compare against a lower-cased question name")
    ctx.require(found, "C06e.anchor2", fn.name, fn.loc(), "instance lookup closure with resolve_name found")


def clause_f(ctx, P):
    fn = P.one("Zeroconf::handle_query")
    tr = tracer(P, fn)
    sends = calls_to(fn, "service_daemon::send_dns_outgoing")
    ctx.require(len(sends) == 1, "C06f.anchor", fn.name, fn.loc(), "one send_dns_outgoing call in handle_query (found %d)" % len(sends))
    if len(sends) != 1:
        return
    sb, st = sends[0]
    ud = tr.operand(st["args"][5], endpos(fn, sb))
    alts = ud[1] if ud[0] == "phi" else (ud,)
    has_none = any(a[0] == "agg" and a[3] == "None" for a in alts)
    some = [a for a in alts if a[0] == "agg" and a[3] == "Some"]
    ok = has_none and len(some) == 1
    ctx.ob("C06f.unicast-dest-shape", fn.name, ok, fn.loc(sb), "unicast destination is Some(querier_addr) or None: " + show(ud)[:100])
    # Some iff port != MDNS_PORT (5353)
    e_port = guard_edges(P, fn, lambda atom, outcome, bb: atom[0] == "binop" and atom[1] == "Ne" and has_call(atom, "SocketAddr::port")
                         and fold(atom[3]) == 5353 and outcome is True)
    e_port_f = guard_edges(P, fn, lambda atom, outcome, bb: atom[0] == "binop" and atom[1] == "Ne" and has_call(atom, "SocketAddr::port")
                           and fold(atom[3]) == 5353 and outcome is False)
    some_blocks = [b for b, i, s in aggregates(fn, "option::Option", "Some") if any(x == some[0] for x in [tr.rvalue(s["r"], (b, i))])] if some else []
    none_blocks = [b for b, i, s in aggregates(fn, "option::Option", "None") if s["p"]["ty"].endswith("Option<std::net::SocketAddr>")]
    ok = bool(some_blocks) and all(must_pass_edges(fn, b, e_port) for b in some_blocks) and bool(none_blocks) and all(must_pass_edges(fn, b, e_port_f) for b in none_blocks)
    ctx.ob("C06f.unicast-iff-port-not-5353", fn.name, ok, fn.loc(sb), "unicast_dest = Some(src) exactly when src.port() != 5353")
    # on the unicast branch: add_question for every question and clear_cache_flush_bits precede the send
    e_some = guard_edges(P, fn, lambda atom, outcome, bb: atom[0] == "call" and strip_generics(atom[1]).endswith("Option::is_some") and outcome is True
                         and any(x in alts for x in walk(atom)))
    if not e_some:
        e_some = guard_edges(P, fn, lambda atom, outcome, bb: atom[0] == "variant" and outcome == frozenset(["Some"]) and any(x in alts for x in walk(atom[1])))
    clr = [b for b, t in fn.calls() if cname(t).endswith("DnsOutgoing::clear_cache_flush_bits")]
    addq = [b for b, t in fn.calls() if cname(t).endswith("DnsOutgoing::add_question")]
    ok = bool(e_some) and bool(clr)
    if ok:
        for (b, tgt) in e_some:
            if sb in fn.reachable(tgt, removed_blocks=clr):
                ok = False
    ctx.ob("C06f.clear-cache-flush-before-send", fn.name, ok, fn.loc(sb),
           "every path from `unicast_dest.is_some()` to the send passes clear_cache_flush_bits" if ok else
           "a legacy unicast response can be sent with cache-flush bits set")
    okq = bool(addq)
    if okq:
        loops = fn.loops()
        heads = [h for h, body in loops.items() if addq[0] in body]
        h = min(heads, key=lambda h: len(loops[h])) if heads else None
        okq = h is not None
        if okq:
            for (b, tgt) in e_some:
                if sb in fn.reachable(tgt, removed_blocks=[h]):
                    okq = False
            # loop over msg.questions(), unconditional add inside
            qe = tr.operand(fn.term(addq[0])["args"][1], endpos(fn, addq[0]))
            okq = okq and has_call(qe, "DnsIncoming::questions")
            some_e = guard_edges(P, fn, lambda atom, outcome, bb: bb in loops[h] and atom[0] == "variant" and outcome == frozenset(["Some"]) and has_call(atom[1], "::next"))
            for (b, tgt) in some_e:
                if h in fn.reachable(tgt, removed_blocks=addq):
                    okq = False
    ctx.ob("C06f.questions-echoed", fn.name, okq, fn.loc(sb), "the unicast branch echoes every incoming question before the send")
    # clear_cache_flush_bits covers all three record vectors
    c = P.one("DnsOutgoing::clear_cache_flush_bits")
    ctr = tracer(P, c)
    touched = set()
    for b, i, s in c.assigns():
        pr = s["p"]["proj"]
        if pr and pr[-1][0] == "field" and pr[-1][2] == "cache_flush":
            e = ctr.place(s["p"], (b, i))
            for fld in ("answers", "additionals", "authorities"):
                if expr_mentions_field(e, fld, "DnsOutgoing"):
                    touched.add(fld)
            v = s["r"]["a"].get("val") if s["r"]["k"] == "use" else None
            if v not in (0, False):
                touched.add("!nonfalse")
    ctx.ob("C06f.clear-covers-all-sections", c.name, touched == {"answers", "additionals", "authorities"}, c.loc(),
           "cache_flush := false for every record of answers, additionals and authorities (%s)" % sorted(touched))
    # routing: Some(dest) -> unicast_on_intf only
    r = P.one("service_daemon::send_dns_outgoing_impl")
    uni = calls_to(r, "service_daemon::unicast_on_intf")
    mul = calls_to(r, "service_daemon::multicast_on_intf")
    e_s = guard_edges(P, r, lambda atom, outcome, bb: atom[0] == "variant" and any(x[0] == "param" for x in strip(atom[1])) and outcome == frozenset(["Some"]))
    e_n = guard_edges(P, r, lambda atom, outcome, bb: atom[0] == "variant" and any(x[0] == "param" for x in strip(atom[1])) and outcome == frozenset(["None"]))
    ok = len(uni) == 1 and len(mul) == 1 and must_pass_edges(r, uni[0][0], e_s) and must_pass_edges(r, mul[0][0], e_n)
    ctx.ob("C06f.unicast-routing", r.name, ok, r.loc(), "Some(dest) is sent by unicast_on_intf only, None by multicast_on_intf only")
    # the value passed down is the handler's unicast_dest
    imp = calls_to(P.one("service_daemon::send_dns_outgoing"), "service_daemon::send_dns_outgoing_impl")
    # ID echo (F15)
    tp = P.one("DnsOutgoing::to_packets")
    ttr = tracer(P, tp)
    whs = calls_to(tp, "DnsOutPacket::write_header")
    ctx.require(len(whs) >= 1, "C06f.anchor-id", tp.name, tp.loc(), "write_header calls in to_packets")
    sid = calls_to(fn, "DnsOutgoing::set_id")
    oks = False
    for (b, t) in sid:
        e = tr.operand(t["args"][1], endpos(fn, b))
        if has_call(e, "DnsIncoming::id") and fn.dominates(b, sb):
            oks = True
    ctx.ob("C06f.id-copied", fn.name, oks, fn.loc(sb), "handle_query copies the query ID into the response before sending")
    allconst, vals, sites = field_values(P, "dns_parser::DnsOutgoing", "multicast")
    for j, (b, t) in enumerate(whs):
        ide = ttr.operand(t["args"][1], endpos(tp, b))
        reads_id = expr_mentions_field(ide, "id", "DnsOutgoing")
        feasible = reads_id
        detail = "id argument of write_header: %s" % show(ide)[:100]
        if reads_id:
            # is the alternative that reads self.id selected by a field that is constant?
            sel = guard_edges(P, tp, lambda atom, outcome, bb: atom[0] == "field" and atom[2] == "multicast" and outcome is False)
            sel_t = guard_edges(P, tp, lambda atom, outcome, bb: atom[0] == "field" and atom[2] == "multicast" and outcome is True)
            if sel or sel_t:
                # blocks that read self.id
                idblocks = [bb for bb, ii, s in tp.assigns() if s["r"]["k"] == "use" and s["r"]["a"].get("p") and
                            place_mentions_field(s["r"]["a"]["p"], "DnsOutgoing", "id")]
                need_false = any(must_pass_edges(tp, bb, sel) for bb in idblocks) if sel else False
                need_true = any(must_pass_edges(tp, bb, sel_t) for bb in idblocks) if sel_t else False
                if allconst and ((need_false and vals <= {1, True}) or (need_true and vals <= {0, False})):
                    feasible = False
                    detail = ("the branch that passes DnsOutgoing.id to write_header needs `multicast == %s`, but the field is only ever "
                              "assigned %s (%d site(s)): every packet, including legacy unicast answers, carries ID 0 and set_id() is dead" % (
                                  "false" if need_false else "true", sorted(vals), len(sites)))
        ctx.ob("C06f.F15.id-reaches-header", "%s|write_header#%d" % (tp.name, j + 1), feasible, tp.loc(b),
               detail if not feasible else "DnsOutgoing.id reaches write_header on a feasible path (multicast ∈ %s)" % sorted(vals))
    # and the unicast branch of the handler must select that path: some write making `multicast` false is
    # control-dependent on unicast_dest being Some
    if not allconst or len(vals) > 1:
        wr = [(f, b) for (f, b, i) in sites if f is fn or f.name in P.reachable_from([fn.name])]
        ok = False
        for b, t in fn.calls():
            tg = set(P.call_targets(t))
            writers = {f.name for (f, _b, _i) in sites}
            if tg & writers and b in fn.reachable(0):
                if e_some and must_pass_edges(fn, b, e_some) and fn.dominates(b, sb) or (e_some and any(b in fn.reachable(tgt, removed_blocks=[sb]) for (_bb, tgt) in e_some)):
                    ok = True
        ctx.ob("C06f.unicast-marks-message", fn.name, ok, fn.loc(sb),
               "the legacy-unicast branch marks the outgoing message as unicast before the send" if ok else
               "no write of DnsOutgoing.multicast on the legacy-unicast branch of handle_query")


def clause_g(ctx, P):
    """right values over rename histories: the records built to answer a question carry the names the service was
    renamed to (same F4 rule as C08d, restricted to the two answer builders)"""
    n = f4.check_rename_taint(ctx, P, "C06g", only=lambda s: s.fn.short in ("add_answer_with_additionals", "add_answer_of_service", "add_answer_of_service_with_host"))
    ctx.floor("C06g.F4.rename-args", n, 8, "renamable name arguments in the answer builders")


def run(ctx, P):
    from . import f5, r2, c10
    r2.interface_rules(ctx, P, "C06j", want=("status",))
    c10.clause_a(ctx, P, "C06k")     # what a known answer may suppress
    from . import r4
    r4.every_question_considered(ctx, P, "C06l")
    r4.question_name_not_gated_by_case(ctx, P, "C06m")
    r4.additional_dedupe_compares_data(ctx, P, "C06n")
    r4.every_packet_dispatched(ctx, P, "C06o")
    r4.collected_answers_are_sent(ctx, P, "C06p")
    r4.shared_host_rename_outlives_one_service(ctx, P, "C06q")
    f5.check_map_key_consistency(ctx, P, "C06i.F5.name-changes-keys", "name_changes", "DnsRegistry")
    f4.check_service_selected_by_resolved_name(ctx, P, "C06h")
    clause_g(ctx, P)
    clause_a(ctx, P)
    clause_bc(ctx, P)
    clause_d(ctx, P)
    clause_e(ctx, P)
    clause_f(ctx, P)
