"""C13 — Stopping a search really stops it, and each channel follows its protocol."""
from .lib import *
from . import f5
from .f9 import purge_info, check_start_stop, check_restart_replaces, check_every_stop_path_purges

EXPLANATION = (
    "Static rules over MIR of the daemon's start/stop handlers, run loop and cleanup: (a) SearchStarted is sent "
    "first and a failed send prevents registration; (b) ServiceFound precedes ServiceResolved inside one handler; "
    "(c) F9: the stop handler purges the same Command variant, keyed by the same name, that the start handler "
    "schedules, drops the browse cache, and nothing is sent after SearchStopped; who-may-hold a listener Sender; "
    "(d) timeout ordering in the run loop and deadline guard on rescheduling (F5 on the deadline lookup); "
    "(e) cleanup covers both search maps and the rerun queue; (f) cache-only browse never queries.  Decides these structural clauses, not event order over "
    "histories."
    " (h) EVERY path that ends a search on its own (stop handler, resolver timeout) purges the pending reruns inside the same per-search iteration; (i) stop forgets cached addresses under the lower-cased key."
    " (j) Every send on a ServiceEvent channel is the lossless Sender::send (a dropped ServiceFound would let ServiceResolved arrive first). (k) A follow-up Resolve asks only after a test on service_queriers, or stop purges it. (l) Cache-only browsers are recorded in a Zeroconf set at the browse handler, and every query sent inside a loop over service_queriers, and the follow-up Resolve, is guarded by that set. The keys of hostname_resolvers are folded by one function only (to_lowercase xor to_ascii_lowercase)."
    " (m) remove_service_type removes SRV, TXT, NSEC and subtype entries under one and the same key. The stop handler's purge lower-cases the rerun's name; the cache-only marker is asked about the service type; rerun comparisons use the table's folding function."
    " (n) A fresh browse — cache-only or not — purges the earlier Browse reruns of the type on every path that replaces the searcher (shared with C19c).")
UNDECIDED = ["order of events across packets/histories", "absence of queries 'long after the stop' as a trace property",
             "other callers of send_query* taking a cache-only listener (value-level)"]

SEARCHES = [
    # (start handler, stop handler, map field, event enum, Command variant)
    ("Zeroconf::exec_command_browse", "Zeroconf::exec_command_stop_browse", "service_queriers",
     "service_daemon::ServiceEvent", "Browse"),
    ("Zeroconf::exec_command_resolve_hostname", "Zeroconf::exec_command_stop_resolve_hostname", "hostname_resolvers",
     "service_daemon::HostnameResolutionEvent", "ResolveHostname"),
]


def _sends_of(P, fn, enum, variant=None):
    out = []
    for em in direct_sends(P, fn):
        for (a, v) in em.variants:
            if a == enum and (variant is None or v == variant):
                out.append(em)
                break
    return out


def _registration_blocks(P, fn, mapfield):
    """blocks that insert the listener into the search map (directly or via a callee that does)"""
    out = []
    inserters = set()
    for g in P.lib_fns():
        for b, t in g.calls():
            n = cname(t)
            if "HashMap" in n and method(n) in ("insert", "entry") and recv_mentions(P, g, b, t, mapfield, "Zeroconf"):
                inserters.add(g.name)
    for b, t in fn.calls():
        n = cname(t)
        if "HashMap" in n and method(n) in ("insert", "entry") and recv_mentions(P, fn, b, t, mapfield, "Zeroconf"):
            out.append(b)
        elif set(P.call_targets(t)) & (inserters - {fn.name}):
            out.append(b)
    return out


def clause_a(ctx, P):
    ms = may_send(P)
    for (start, _stop, mapfield, enum, _v) in SEARCHES:
        fn = P.one(start)
        started = _sends_of(P, fn, enum, "SearchStarted")
        ctx.require(len(started) == 1, "C13a.started-send", fn.name, fn.loc(),
                    "exactly one SearchStarted send in the start handler (found %d)" % len(started))
        if len(started) != 1:
            continue
        s = started[0]
        # the listener that SearchStarted is sent on must be the handler's listener parameter
        regs = _registration_blocks(P, fn, mapfield)
        ctx.require(len(regs) >= 1, "C13a.registration-site", fn.name, fn.loc(),
                    "start handler registers the listener in %s (%d site(s))" % (mapfield, len(regs)))
        # every other send / sending callee in the handler is dominated by SearchStarted
        for b, t in fn.calls():
            if b == s.bb:
                continue
            n = cname(t)
            sends = n in ("flume::Sender::send", "flume::Sender::try_send")
            callee_sends = bool(set(P.call_targets(t)) & ms)
            if sends or callee_sends or b in regs:
                # only event traffic on this listener type matters; conservative: all
                if callee_sends and not sends and b not in regs:
                    # callee that may send on *some* channel: require domination as well (conservative)
                    pass
                ok = fn.dominates(s.bb, b)
                what = "registration" if b in regs else ("send" if sends else "call of %s" % n.split("::")[-1])
                ctx.ob("C13a.started-first", "%s|%s@%s" % (fn.name, what, _ord(fn, b)), ok, fn.loc(b),
                       "SearchStarted send (%s) %s this %s" % (fn.loc(s.bb), "dominates" if ok else "does NOT dominate", what))
        # failed send => return before registration: registration guarded by the Ok outcome of that send
        dest = s.t["dest"]["l"]

        def pred(atom, outcome, bb, dest=dest, sbb=s.bb):
            if atom[0] != "variant":
                return False
            inner = atom[1]
            return inner[0] == "call" and inner[3] == (fn.name, sbb) and outcome == frozenset(["Ok"])
        edges = guard_edges(P, fn, pred)
        # `if let Err(e) = send {return}`: the Err edge returns; accept "Ok edge required" or "Err edge leads only to return"
        for rb in regs:
            ok = must_pass_edges(fn, rb, edges) if edges else False
            if not ok:
                # alternative idiom: switch [Err -> return-only block]
                err_edges = guard_edges(P, fn, lambda atom, outcome, bb, sbb=s.bb: atom[0] == "variant" and
                                        atom[1][0] == "call" and atom[1][3] == (fn.name, sbb) and "Err" in outcome and "Ok" not in outcome)
                ok = bool(err_edges) and all(not reachable_without(fn, rb, start=tgt) for (_b, tgt) in err_edges)
            ctx.ob("C13a.failed-start-no-registration", "%s|reg@%s" % (fn.name, _ord(fn, rb)), ok, fn.loc(rb),
                   "registration is reachable only when the SearchStarted send returned Ok" if ok else
                   "registration reachable although the SearchStarted send failed")


def _ord(fn, bb):
    """stable ordinal of a call block among calls to the same callee in the function (no line numbers)"""
    t = fn.term(bb)
    n = cname(t) if t["k"] == "call" else t["k"]
    k = 0
    for b, tt in fn.calls():
        if cname(tt) == n:
            k += 1
            if b == bb:
                return "%s#%d" % (n.split("::")[-1], k)
    return "%s#?" % n.split("::")[-1]


def clause_b(ctx, P):
    # query_cache_for_service: Found send dominates Resolved send; failed Found skips Resolved
    fn = P.one("Zeroconf::query_cache_for_service")
    found = _sends_of(P, fn, "service_daemon::ServiceEvent", "ServiceFound")
    resolved = _sends_of(P, fn, "service_daemon::ServiceEvent", "ServiceResolved")
    ctx.require(len(found) == 1 and len(resolved) == 1, "C13b.cache-replay-sites", fn.name, fn.loc(),
                "one ServiceFound and one ServiceResolved send in query_cache_for_service (found %d/%d)" % (len(found), len(resolved)))
    if len(found) == 1 and len(resolved) == 1:
        f0, r0 = found[0], resolved[0]
        ok = fn.dominates(f0.bb, r0.bb)
        ctx.ob("C13b.found-before-resolved", fn.name, ok, fn.loc(r0.bb),
               "ServiceFound send dominates ServiceResolved send" if ok else "ServiceResolved can be sent without a preceding ServiceFound")
        edges = guard_edges(P, fn, lambda atom, outcome, bb: atom[0] == "variant" and atom[1][0] == "call"
                            and atom[1][3] == (fn.name, f0.bb) and outcome == frozenset(["Ok"]))
        ok = must_pass_edges(fn, r0.bb, edges)
        ctx.ob("C13b.failed-found-skips-resolved", fn.name, ok, fn.loc(r0.bb),
               "ServiceResolved is sent only after the ServiceFound send returned Ok" if ok else
               "ServiceResolved is reachable after a failed ServiceFound send")
    # handle_response: Found emissions are never reachable after the resolve_updated_instances call
    fn = P.one("Zeroconf::handle_response")
    founds = [em for em in emissions(P) if em.fn is fn and "ServiceFound" in em.names()]
    rcalls = calls_to(fn, "Zeroconf::resolve_updated_instances")
    ctx.require(len(founds) >= 1 and len(rcalls) >= 1, "C13b.response-sites", fn.name, fn.loc(),
                "handle_response emits ServiceFound (%d) and calls resolve_updated_instances (%d)" % (len(founds), len(rcalls)))
    for em in founds:
        for (rb, _t) in rcalls:
            after = fn.reachable(rb)
            ok = em.bb not in (after - {rb})
            ctx.ob("C13b.found-not-after-resolve", "%s|%s" % (fn.name, _ord(fn, em.bb)), ok, fn.loc(em.bb),
                   "no path from the resolve call back to the ServiceFound emission" if ok else
                   "ServiceFound can be emitted after instances were resolved in the same handler")


def clause_c(ctx, P):
    ms = may_send(P)
    for (start, stop, mapfield, enum, variant) in SEARCHES:
        check_start_stop(ctx, P, start, stop, mapfield, variant, rule="C13c")
        fn = P.one(stop)
        stopped = _sends_of(P, fn, enum, "SearchStopped")
        ctx.require(len(stopped) == 1, "C13c.stopped-send", fn.name, fn.loc(),
                    "exactly one SearchStopped send in the stop handler (found %d)" % len(stopped))
        if len(stopped) == 1:
            s = stopped[0]
            after = fn.reachable(s.bb) - {s.bb}
            bad = []
            for b in after:
                t = fn.term(b)
                if t["k"] == "call":
                    n = cname(t)
                    if n in ("flume::Sender::send", "flume::Sender::try_send") or (set(P.call_targets(t)) & ms):
                        bad.append(b)
            ctx.ob("C13c.stopped-is-last", fn.name, not bad, fn.loc(s.bb),
                   "no send and no sending callee is reachable after the SearchStopped send" if not bad else
                   "sends reachable after SearchStopped at " + ", ".join(fn.loc(b) for b in bad[:4]))
            # the purge precedes the notification: every purge block reaches the send, never the reverse
            info = purge_info(P, fn)
            for (pb, _vs) in info["removes"]:
                ok = pb not in after
                ctx.ob("C13c.purge-before-stopped", "%s|%s" % (fn.name, _ord(fn, pb)), ok, fn.loc(pb),
                       "rerun purge happens before SearchStopped" if ok else "rerun purge reachable after SearchStopped")
    # stop_browse forgets the cached records of the browse
    fn = P.one("Zeroconf::exec_command_stop_browse")
    rs = calls_to(fn, "DnsCache::remove_service_type")
    ok = len(rs) >= 1
    detail = "exec_command_stop_browse calls DnsCache::remove_service_type"
    if ok:
        # on the Some(..) (search existed) path it must be unavoidable before SearchStopped
        stopped = _sends_of(P, fn, "service_daemon::ServiceEvent", "SearchStopped")
        if stopped:
            ok = must_pass_blocks(fn, stopped[0].bb, [b for b, _ in rs])
            detail = "every path to the SearchStopped send passes remove_service_type" if ok else \
                "SearchStopped reachable without dropping the cached records"
    ctx.ob("C13c.cache-dropped", fn.name, ok, fn.loc(), detail)
    # who may hold a listener Sender
    allowed = {
        "service_daemon::ServiceEvent": {("service_daemon::Zeroconf", "service_queriers"), ("service_daemon::Command::Browse", "3")},
        "service_daemon::HostnameResolutionEvent": {("service_daemon::Zeroconf", "hostname_resolvers"),
                                                    ("service_daemon::Command::ResolveHostname", "2")},
    }
    for enum, allow in allowed.items():
        # fields that hold a listener Sender directly, or through a type the reference tree does not have (a tuple that a
        # refactoring replaced by a small struct): such a carrier type is looked through
        from ..flatten import load_known_full
        kf = load_known_full() or {}
        known_adts = set((kf.get("adts") or {}).keys())
        carriers = set()
        if known_adts:
            for a in P.adts.values():
                if a["name"] in known_adts or not a["name"].split("::")[0] in ("service_daemon", "service_info", "dns_cache", "dns_parser"):
                    continue
                if any("Sender<%s>" % enum in f["ty"] for v in a["variants"] for f in v["fields"]):
                    carriers.add(a["name"])
        holders = set()
        for a in P.adts.values():
            if a["name"] in carriers:
                continue
            for v in a["variants"]:
                for f in v["fields"]:
                    if "Sender<%s>" % enum in f["ty"] or any(c in f["ty"] for c in carriers):
                        owner = a["name"] if a["kind"].lower().startswith("struct") else a["name"] + "::" + v["name"]
                        holders.add((owner, f["name"]))
        extra = holders - allow
        ctx.ob("C13c.who-holds-sender", enum, not extra, "",
               "listener senders of %s are stored only in %s" % (enum.split("::")[-1], sorted(holders)) if not extra else
               "additional holder(s) of a listener Sender: %s" % sorted(extra))
        ctx.require(allow <= holders, "C13c.holders-anchor", enum, "", "expected holders present: %s" % sorted(allow))


def clause_d(ctx, P):
    fn = P.one("Zeroconf::run")
    ems = [em for em in emissions(P) if em.fn is fn]
    tmo = [em for em in ems if "SearchTimeout" in em.names()]
    stp = [em for em in ems if "SearchStopped" in em.names()]
    rem = [b for b, t in fn.calls() if "HashMap" in cname(t) and method(cname(t)) == "remove"
           and recv_mentions(P, fn, b, t, "hostname_resolvers", "Zeroconf")]
    ok = len(tmo) == 1 and len(stp) == 1 and len(rem) == 1
    ctx.require(ok, "C13d.timeout-sites", fn.name, fn.loc(),
                "run loop has one SearchTimeout emission, one SearchStopped emission and one resolver removal (%d/%d/%d)" % (len(tmo), len(stp), len(rem)))
    if ok:
        o1 = fn.dominates(tmo[0].bb, stp[0].bb) and tmo[0].bb != stp[0].bb
        o2 = fn.dominates(stp[0].bb, rem[0])
        ctx.ob("C13d.timeout-then-stopped", fn.name, o1, fn.loc(stp[0].bb),
               "SearchTimeout emission dominates SearchStopped emission" if o1 else "SearchStopped not preceded by SearchTimeout")
        ctx.ob("C13d.stopped-then-removed", fn.name, o2, fn.loc(rem[0]),
               "resolver is removed only after SearchStopped was emitted" if o2 else "resolver removed without SearchStopped")
        # the timeout predicate: now >= deadline
        okp = False
        for c in P.closures_of.get(fn.name, []):
            cf = P.fns[c]
            for b, i, s in cf.assigns():
                r = s["r"]
                if r["k"] == "binop" and r["op"] in ("Ge", "Le", "Gt", "Lt"):
                    okp = True
        ctx.ob("C13d.deadline-predicate", fn.name, okp, fn.loc(), "timeout filter compares the clock with the deadline")
    # rescheduling bounded by the deadline
    fn = P.one("Zeroconf::exec_command_resolve_hostname")
    tr = tracer(P, fn)
    adds = calls_to(fn, "Zeroconf::add_retransmission")
    ctx.require(len(adds) == 1, "C13d.reschedule-site", fn.name, fn.loc(), "one add_retransmission in exec_command_resolve_hostname (found %d)" % len(adds))
    for (ab, at) in adds:
        def pred(atom, outcome, bb):
            if outcome is not True:
                return False
            return expr_mentions_field(atom, "hostname_resolvers", "Zeroconf") and has_call(atom, "HashMap::get")
        edges = guard_edges(P, fn, pred)

        def pred2(atom, outcome, bb):
            # written out in the handler itself: `if let Some(deadline) = <lookup in hostname_resolvers> { if deadline <= next_time { return } }`
            return outcome is True and atom[0] == "binop" and atom[1] == "Lt" and expr_mentions_field(atom[3], "hostname_resolvers", "Zeroconf")
        edges2 = guard_edges(P, fn, pred2)
        none_edges = guard_edges(P, fn, lambda atom, outcome, bb: atom[0] == "variant" and outcome == frozenset(["None"]) and
                                 expr_mentions_field(atom[1], "hostname_resolvers", "Zeroconf"))
        ok = must_pass_edges(fn, ab, edges) or (bool(edges2) and must_pass_edges(fn, ab, edges2 | none_edges))
        ctx.ob("C13d.reschedule-under-deadline", fn.name, ok, fn.loc(ab),
               "rescheduling is control-dependent on a test derived from the resolver's stored deadline" if ok else
               "rescheduling is not guarded by the resolver's deadline")
        # the closure deciding it compares next_time < deadline
        lt = False
        for c in P.closures_of.get(fn.name, []):
            cf = P.fns[c]
            for b, i, s in cf.assigns():
                r = s["r"]
                if r["k"] == "binop" and r["op"] == "Lt":
                    lt = True
        lt = lt or bool(edges2)
        ctx.ob("C13d.deadline-compare", fn.name, lt, fn.loc(ab), "the handler (or a closure of it) compares `next_time < deadline` (strict)")
    # F5 on the deadline lookup and all other accesses of hostname_resolvers
    f5.run_f5(ctx, P, {"hostname_resolvers"}, rule="C13d.F5.key-normalised", floor=7)
    f5.check_single_folding(ctx, P, {"hostname_resolvers", "service_queriers"} & set(f5.MAPS), "C13d.F5.single-folding")


def clause_e(ctx, P):
    fn = P.one("Zeroconf::cleanup")
    for mapfield, enum in (("service_queriers", "service_daemon::ServiceEvent"),
                           ("hostname_resolvers", "service_daemon::HostnameResolutionEvent")):
        rem = [b for b, t in fn.calls() if "HashMap" in cname(t) and method(cname(t)) in ("remove", "drain", "clear", "remove_entry")
               and recv_mentions(P, fn, b, t, mapfield, "Zeroconf")]
        st = _sends_of(P, fn, enum, "SearchStopped")
        ctx.ob("C13e.cleanup-removes", "%s|%s" % (fn.name, mapfield), bool(rem), fn.loc(), "cleanup empties %s" % mapfield)
        ctx.ob("C13e.cleanup-notifies", "%s|%s" % (fn.name, mapfield), bool(st), fn.loc(), "cleanup sends SearchStopped to %s listeners" % mapfield)
        if st and rem:
            # the sender used is the one removed from the map
            ok = any(expr_mentions_field(em.recv, mapfield, "Zeroconf") for em in st)
            ctx.ob("C13e.cleanup-sender-from-map", "%s|%s" % (fn.name, mapfield), ok, fn.loc(st[0].bb),
                   "SearchStopped is sent on the sender taken out of %s" % mapfield)
            # iterates all keys of the map
            tr = tracer(P, fn)
            keyok = False
            for b in rem:
                t = fn.term(b)
                if len(t["args"]) > 1:
                    ke = tr.operand(t["args"][1], endpos(fn, b))
                    if expr_mentions_field(ke, mapfield, "Zeroconf") and has_call(ke, "::keys", "::iter"):
                        keyok = True
                else:
                    keyok = True
            ctx.ob("C13e.cleanup-all-keys", "%s|%s" % (fn.name, mapfield), keyok, fn.loc(rem[0]),
                   "removal key ranges over all keys of %s" % mapfield)
    clr = [b for b, t in fn.calls() if method(cname(t)) == "clear" and "Vec" in cname(t) and recv_mentions(P, fn, b, t, "retransmissions", "Zeroconf")]
    ctx.ob("C13e.cleanup-clears-reruns", fn.name, bool(clr), fn.loc(), "cleanup clears the retransmission queue")


def clause_f(ctx, P):
    fn = P.one("Zeroconf::exec_command_browse")
    # which parameter is cache_only?  by debug name
    # the boolean parameter that is not the rerun flag
    rf = rerun_flag_param(P, fn)
    idx = param_index(fn, "cache_only", "bool", exclude=(rf,) if rf else ())
    ctx.require(idx is not None, "C13f.anchor", fn.name, fn.loc(), "parameter cache_only found")
    if idx is None:
        return

    def pred(atom, outcome, bb):
        return atom == ("param", idx) and outcome is False
    edges = guard_edges(P, fn, pred)
    sites = calls_to(fn, "Zeroconf::send_query", "Zeroconf::send_query_vec", "Zeroconf::send_query_on_intf") + \
        calls_to(fn, "Zeroconf::add_retransmission")
    ctx.require(len(sites) >= 2, "C13f.sites", fn.name, fn.loc(), "query and reschedule sites found (%d)" % len(sites))
    for (b, t) in sites:
        ok = must_pass_edges(fn, b, edges)
        ctx.ob("C13f.cache-only-no-query", "%s|%s" % (fn.name, _ord(fn, b)), ok, fn.loc(b),
               "%s is reachable only when cache_only is false" % cname(t).split("::")[-1] if ok else
               "%s reachable in a cache-only browse" % cname(t).split("::")[-1])
    # nothing else in the handler sends a DNS packet
    senders = P.reachable_from(["service_daemon::send_dns_outgoing"]) | {"service_daemon::send_dns_outgoing"}
    rcg = P.rev_callgraph()
    can_send_dns = set()
    st = ["service_daemon::send_dns_outgoing", "service_daemon::send_dns_outgoing_impl"]
    while st:
        x = st.pop()
        if x in can_send_dns:
            continue
        can_send_dns.add(x)
        st.extend(rcg.get(x, ()))
    for b, t in fn.calls():
        tg = set(P.call_targets(t)) & can_send_dns
        if tg and (b, t) not in sites:
            ok = must_pass_edges(fn, b, edges)
            ctx.ob("C13f.cache-only-no-query", "%s|%s" % (fn.name, _ord(fn, b)), ok, fn.loc(b),
                   "packet-sending callee %s only when cache_only is false" % sorted(tg)[0].split("::")[-1])


def clause_g(ctx, P):
    for (start, stop, mapfield, enum, variant) in SEARCHES[:1]:
        check_restart_replaces(ctx, P, start, variant, rule="C13g")


def clause_stop_paths(ctx, P, pre="C13h"):
    check_every_stop_path_purges(ctx, P, pre, "HostnameResolutionEvent", "SearchStopped", "ResolveHostname", "hostname_resolvers", floor=2)
    check_every_stop_path_purges(ctx, P, pre + ".browse", "ServiceEvent", "SearchStopped", "Browse", "service_queriers")


def clause_stop_forgets_addresses(ctx, P):
    """stop_browse forgets what it cached: the address map is keyed by lower-cased host name, so the removal in
    remove_service_type must use a lower-cased key for every spelling a responder may use"""
    f5.run_f5(ctx, P, {"addr"}, rule="C13i.F5.key-normalised", only_fns=["DnsCache::remove_service_type"], floor=1)


def run(ctx, P):
    from . import r2
    r2.events_are_lossless(ctx, P, "C13j")
    r2.followup_needs_open_browse(ctx, P, "C13k")
    clause_cache_only_everywhere(ctx, P)
    r2.stop_forgets_every_record_kind(ctx, P, "C13m")
    clause_stop_forgets_addresses(ctx, P)
    clause_stop_paths(ctx, P)
    clause_a(ctx, P)
    clause_b(ctx, P)
    clause_c(ctx, P)
    clause_d(ctx, P)
    clause_e(ctx, P)
    clause_f(ctx, P)
    # 're-browse replaces': also for a cache-only browse, which sends nothing itself but must still cancel the chain of an
    # earlier ordinary browse of the same type (the same clause is C19c / C20)
    check_restart_replaces(ctx, P, "Zeroconf::exec_command_browse", "Browse", rule="C13n")


def cache_only_marker(P):
    """the Zeroconf collection that exec_command_browse fills exactly when its cache_only parameter is true (None if there
    is no such thing)"""
    fn = P.one("Zeroconf::exec_command_browse")
    rf = rerun_flag_param(P, fn)
    idx = param_index(fn, "cache_only", "bool", exclude=(rf,) if rf else ())
    tr = tracer(P, fn)
    marker = None
    if idx is not None:
        e_true = guard_edges(P, fn, lambda atom, outcome, bb: atom == ("param", idx) and outcome is True)
        for b, t in fn.calls():
            if name_matches(cname(t), "HashSet::insert", "HashMap::insert", "BTreeSet::insert") and must_pass_edges(fn, b, e_true):
                for a in strip(tr.operand(t["args"][0], endpos(fn, b))):
                    if a[0] == "field" and (a[3] or "").endswith("Zeroconf"):
                        marker = a[2]
    return marker


def clause_cache_only_everywhere(ctx, P, pre="C13l"):
    """`a cache-only browse never sends a query` outside the browse handler: a cache-only browser is an ordinary entry of
    service_queriers, so every place that sends queries *for the entries of service_queriers* (refresh, new interface,
    follow-up Resolve) has to leave the cache-only ones out.  The marker is the Zeroconf set that exec_command_browse
    fills under `cache_only == true`."""
    fn = P.one("Zeroconf::exec_command_browse")
    marker = cache_only_marker(P)
    ctx.ob(pre + ".cache-only-marked", fn.name, marker is not None, fn.loc(),
           "a cache-only browse is recorded in Zeroconf.%s" % marker if marker else
           "nothing records that a browse is cache-only: refresh, new-interface and follow-up queries treat it like any other entry of "
           "service_queriers and send queries for it")
    if marker is None:
        return
    QUERY = ("Zeroconf::send_query", "Zeroconf::send_query_vec", "Zeroconf::send_query_on_intf")
    n = 0
    for f in P.lib_fns():
        if f.in_tests() or f.name == fn.name or f.is_closure:
            continue
        loops = f.loops()
        ftr = None
        k = 0
        for b, t in f.calls():
            if not name_matches(cname(t), *QUERY):
                continue
            # inside a loop that ranges over service_queriers?
            hit = None
            for h, body in loops.items():
                if b not in body:
                    continue
                ftr = ftr or tracer(P, f)
                for hb in body:
                    tt = f.term(hb)
                    if tt["k"] == "call" and method(cname(tt)) == "next" and expr_mentions_field(ftr.operand(tt["args"][0], endpos(f, hb)), "service_queriers", "Zeroconf"):
                        hit = h
            if hit is None:
                continue
            n += 1
            k += 1
            skip = guard_edges(P, f, lambda atom, outcome, bb: atom[0] == "call" and method(strip_generics(atom[1])) == "contains" and
                               expr_mentions_field(atom, marker, "Zeroconf") and outcome is False)
            ok = bool(skip) and must_pass_edges(f, b, skip)
            ctx.ob(pre + ".cache-only-no-query", "%s|query#%d" % (f.name, k), ok, f.loc(b),
                   "the query for an entry of service_queriers is sent only when %s does not contain it" % marker if ok else
                   "a query is sent for every entry of service_queriers, cache-only browsers included")
    ctx.floor(pre + ".cache-only-no-query", n, 4, "queries sent inside loops over service_queriers")
    # the follow-up Resolve
    g = P.one("Zeroconf::exec_command_resolve")
    q = calls_to(g, "Zeroconf::query_unresolved")
    if q:
        edges = guard_edges(P, g, lambda atom, outcome, bb: expr_or_closure_mentions_field(P, atom, marker, "Zeroconf"))
        ok = bool(edges) and guarded(P, g, q[0][0], edges)
        # the marker holds service types: it is asked about the same type the open-browse test looks up
        qkeys, mkeys = set(), []
        for hf in [g] + [P.fns[c] for c in P.closures_of.get(g.name, [])]:
            htr = tracer(P, hf)
            for hb, ht in hf.calls():
                if len(ht["args"]) < 2:
                    continue
                recv = htr.operand(ht["args"][0], endpos(hf, hb))
                key = show(htr.operand(ht["args"][1], endpos(hf, hb)))
                if method(cname(ht)) in ("contains_key", "get") and (expr_mentions_field(recv, "service_queriers", "Zeroconf") or fn_mentions_field(P, hf, "Zeroconf", "service_queriers") and "HashMap" in cname(ht) and "Sender" in cname(ht)):
                    qkeys.add(key)
                if method(cname(ht)) == "contains" and "HashSet" in cname(ht) and (expr_mentions_field(recv, marker, "Zeroconf") or hf.is_closure):
                    mkeys.append((key, hf.loc(hb)))
        same = bool(mkeys) and all(k in qkeys for (k, _w) in mkeys) if qkeys else True
        ctx.ob(pre + ".cache-only-asked-by-type", g.name + "|follow-up", same, g.loc(q[0][0]),
               "%s is asked about the service type the open-browse test looks up" % marker if same else
               "%s (a set of service types) is asked about %s, not about the type looked up in service_queriers (%s): the test is always "
               "false and the follow-up questions go out for a cache-only browse" % (marker, [k for k, _w in mkeys][:2], sorted(qkeys)[:2]))
        ctx.ob(pre + ".cache-only-no-query", g.name + "|follow-up", ok, g.loc(q[0][0]),
               "the follow-up question is asked only after a test that involves %s" % marker if ok else
               "the follow-up questions of an unresolved instance are sent for a cache-only browse too")
