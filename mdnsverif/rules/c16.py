"""C16 — TXT properties survive the trip unchanged."""
from .lib import *
from . import e3
from .f12 import ret_exprs
from ..model import strip_generics


def cn(x):
    """callee name of a call expression, generics stripped"""
    return strip_generics(x[1])

EXPLANATION = (
    "(a) Abstract interpretation of both decode_txt copies, decode_txt_unique and their closures: every index/slice site is "
    "proved in bounds for ALL byte strings (the `position` result is linked into the map_or_else closure), arithmetic cannot "
    "overflow, and the decode loop has a ranking (offset strictly increases below len(txt)).  (b) In encode_txt the "
    "interpreter proves the `len as u8` cast lossless (after truncate(255)), and a dataflow rule shows the pushed length byte "
    "is the length of exactly the bytes appended next.  (c) In ServiceInfo::new every iteration of the loop over ALL "
    "properties passes the three rejecting guards (non-ASCII key, '=' in key, key+value+1 > 255, formula checked) whose bad "
    "edge cannot reach the Ok construction, and the stored properties are the validated ones.  (d) Sibling format table "
    "encode/decode: '=' is written iff the value is Some; the decoder splits at the FIRST '=' (Iterator::position) and "
    "yields None iff there is none.  (e) first-occurrence-wins with case-insensitive keys in decode_txt_unique and the slice "
    "input, case-insensitive lookup in TxtProperties::get.  Decides these structural clauses, not the byte-for-byte round trip."
    " (i) Every turn of decode_txt's loop moves the cursor past the whole string it has read. (j) The duplicate filter is not one of Vec's neighbours-only dedup* methods."
    " (k) add_or_update puts a new record at the front of its vector (readers take the first live record).")
UNDECIDED = ["byte-for-byte equality of keys, values and order end to end (value round trip over all inputs)",
             "behaviour of the end-to-end path through the cache and ResolvedService"]
ASSUMPTIONS = ["allocation failure is out of scope", "std functions behave as documented (library model table in mdnsverif/libmodel.py)"]
LEVEL = "other"

JUSTIFIED = {}


def clause_a(ctx, P):
    roots = [P.one(n) for n in ("service_info::decode_txt", "service_info::decode_txt_unique", "dns_parser::decode_txt",
                                "service_info::encode_txt")]
    sc = {n for n in P.reachable_from([r.name for r in roots]) if n in P.fns and not P.fns[n].in_tests()}
    ctx.floor("C16.scope", len(sc), 10, "functions reachable from the TXT codec entry points")
    A, eff = e3.run_engine(P, [r.name for r in roots], scope=sc)
    ctx.ob("C16a.engine-converged", "fixpoint reached in every function", not A.nonconverged, "", "non-converged: %s" % sorted(A.nonconverged))
    dec_scope = {n for n in sc if "encode_txt" not in n}
    n = e3.emit_sites(ctx, P, A, "C16a.F1.panic-site", dec_scope, classes=("A", "B"), justify=JUSTIFIED)
    ctx.floor("C16a.F1", n.get("A", 0), 4, "class-A sites (index/slice/split) in the TXT decoders")
    counts = e3.emit_loops(ctx, P, A, "C16a.F2.loop-terminates", dec_scope)
    ctx.floor("C16a.F2", counts["ranked"] + counts["iterator"] + counts["open"], 2, "decode loops")
    # b. the length byte
    enc = P.one("service_info::encode_txt")
    casts = [(pos, rec) for pos, rec in A.casts.items() if pos[0] == enc.name and rec["to"] == "u8"]
    ctx.require(len(casts) >= 1, "C16b.anchor", "encode_txt narrows a length to u8", enc.loc(), "%d cast(s)" % len(casts))
    for i, (pos, rec) in enumerate(sorted(casts)):
        ctx.ob("C16b.length-byte-lossless", "encode_txt|%s as u8#%d" % (rec["from"], i + 1), rec["lossless"] and rec["seen"] > 0,
               enc.loc(pos[1], pos[2]), "narrowing cast proved lossless in %d context(s): the value is <= 255 on every path (Vec::truncate(255) model)"
               % rec["seen"] if rec["lossless"] else rec["detail"])
    ctx.extra.setdefault("e3", {})[ctx.config] = {"functions_in_scope": len(sc), "blocks_visited": len(A.visited), "sites": n, "loops": counts}
    return A


def clause_b(ctx, P):
    enc = P.one("service_info::encode_txt")
    tr = tracer(P, enc)
    loops = enc.loops()
    ctx.require(len(loops) == 1, "C16b.anchor", "encode_txt has one loop", enc.loc(), "%d" % len(loops))
    if not loops:
        return
    head, body = next(iter(loops.items()))
    pushes = [(b, t) for b, t in enc.calls() if b in body and name_matches(cname(t), "Vec::push")]
    exts = [(b, t) for b, t in enc.calls() if b in body and method(cname(t)) == "extend"]
    ctx.require(len(pushes) == 1, "C16b.anchor", "one push per encoded string", enc.loc(), "%d" % len(pushes))
    if len(pushes) != 1:
        return
    pb, pt = pushes[0]
    out_e = arg_expr(tr, enc, pb, pt, 0)
    sz = arg_expr(tr, enc, pb, pt, 1)
    lens = [x for x in walk(sz) if x[0] == "call" and method(cn(x)) == "len"]
    ok = False
    det = "pushed byte %s is not a length" % show(sz)[:80]
    if lens:
        s_expr = strip(lens[0][2][0])
        # the extend on the same output buffer that follows the push
        nxt = [(b, t) for b, t in exts if strip(arg_expr(tr, enc, b, t, 0)) == strip(out_e) and pb in enc.dominators()[b]]
        if len(nxt) == 1:
            b2, t2 = nxt[0]
            src = strip(arg_expr(tr, enc, b2, t2, 1))
            same = src == s_expr
            # nothing else writes the string between its length being taken and its bytes being appended
            between_writes = [(b, t) for b, t in exts if strip(arg_expr(tr, enc, b, t, 0)) == s_expr and pb in enc.dominators()[b]]
            trunc_after = [(b, t) for b, t in enc.calls() if method(cname(t)) == "truncate" and pb in enc.dominators()[b]]
            ok = same and not between_writes and not trunc_after
            det = ("bytes.push(len(s) as u8) at %s is followed by bytes.extend(s) of the same s (%s); s is not modified in between"
                   % (enc.loc(pb), show(lens[0][2][0])[:60])) if ok else \
                "length byte taken from %s but appended bytes are %s (writes in between: %d)" % (show(lens[0][2][0])[:60], show(arg_expr(tr, enc, b2, t2, 1))[:60], len(between_writes) + len(trunc_after))
        else:
            det = "%d extend calls on the output follow the push" % len(nxt)
    ctx.ob("C16b.length-byte-matches-string", "encode_txt", ok, enc.loc(pb), det)
    # the length is taken after the truncation
    tr_calls = [(b, t) for b, t in enc.calls() if b in body and method(cname(t)) == "truncate"]
    okt = False
    for (b, t) in tr_calls:
        cv = fold(arg_expr(tr, enc, b, t, 1))
        if cv == 255 and b in enc.dominators()[pb]:
            okt = True
    ctx.ob("C16b.truncate-255-before-length", "encode_txt", okt, enc.loc(pb), "s.truncate(255) dominates the push of the length byte" if okt else
           "no truncate(255) dominates the length byte")


def _guard(ctx, P, fn, head, body, okblocks, rule, name, pred, bad_outcome):
    """a rejecting guard: switch whose atom satisfies pred; the bad edge cannot reach the loop head nor the Ok
    construction; every iteration passes the guard block"""
    found = []
    for b in sorted(body):
        if fn.term(b)["k"] != "switch":
            continue
        for (tgt, atom, outcome) in switch_edges(P, fn, b):
            r = pred(atom, outcome)
            if r is None:
                continue
            if r == bad_outcome:
                found.append((b, tgt))
    ctx.require(len(found) >= 1, rule + ".anchor", "%s|%s" % (fn.short, name), fn.loc(), "guard found: %d" % len(found))
    for (b, tgt) in found[:1]:
        reach = fn.reachable(tgt)
        leaks = [x for x in [head] + list(okblocks) if x in reach]
        every = loop_every_iteration_passes(fn, head, body, [b])
        ctx.ob(rule, "%s|%s" % (fn.short, name), not leaks and every, fn.loc(b),
               "rejecting edge leads only to the error return; every iteration passes the guard" if not leaks and every else
               ("the rejecting edge can reach %s" % ["bb%d" % x for x in leaks] if leaks else "an iteration can bypass the guard"))


def clause_c(ctx, P):
    new = P.one("service_info::ServiceInfo::new")
    tr = tracer(P, new)
    loops = new.loops()
    # the validation loop: the one whose body calls str::is_ascii
    cand = [h for h, body in loops.items() if any(method(cname(t)) == "is_ascii" for b, t in new.calls() if b in body)]
    ctx.require(len(cand) == 1, "C16c.anchor", "ServiceInfo::new has one validation loop", new.loc(), "%d" % len(cand))
    if len(cand) != 1:
        return
    head = cand[0]
    body = loops[head]
    aggs = list(aggregates(new, "ServiceInfo"))
    ctx.require(len(aggs) == 1, "C16c.anchor", "ServiceInfo::new builds one ServiceInfo", new.loc(), "%d" % len(aggs))
    okblocks = [a[0] for a in aggs]

    def key_of(e):
        return any(x[0] == "call" and name_matches(cn(x), "TxtProperty::key") for x in walk(e))

    def p_ascii(atom, outcome):
        if atom[0] == "call" and method(cn(atom)) == "is_ascii" and key_of(atom):
            return outcome
        return None

    def p_eq(atom, outcome):
        if atom[0] == "call" and method(cn(atom)) == "contains" and key_of(atom) and any(x[0] == "const" and x[1] == 61 for x in walk(atom)):
            return outcome
        return None

    def p_len(atom, outcome):
        # prop_len > 255  (any orientation)
        if atom[0] != "binop" or atom[1] not in ("Gt", "Ge", "Lt", "Le"):
            return None
        l, r = atom[2], atom[3]
        lc, rc = fold(l), fold(r)
        if rc is not None and lc is None:
            expr, c, op = l, rc, atom[1]
        elif lc is not None and rc is None:
            expr, c, op = r, lc, {"Gt": "Lt", "Ge": "Le", "Lt": "Gt", "Le": "Ge"}[atom[1]]
        else:
            return None
        if not (any(x[0] == "call" and method(cn(x)) == "len" for x in walk(expr)) and key_of(expr)):
            return None
        # too_long <=> expr > 255
        if op == "Gt" and c == 255 or op == "Ge" and c == 256:
            return outcome
        if op == "Le" and c == 255 or op == "Lt" and c == 256:
            return not outcome
        return "wrong-bound"
    _guard(ctx, P, new, head, body, okblocks, "C16c.rejects-non-ascii-key", "!key.is_ascii()", p_ascii, False)
    _guard(ctx, P, new, head, body, okblocks, "C16c.rejects-equals-in-key", "key.contains('=')", p_eq, True)
    _guard(ctx, P, new, head, body, okblocks, "C16c.rejects-over-255", "key.len() + value + 1 > 255", p_len, True)
    # the length formula: key.len() + (val.len() + 1 if Some else 0)
    ok = False
    det = "length expression not found"
    for b in sorted(body):
        if new.term(b)["k"] != "switch":
            continue
        for (tgt, atom, outcome) in switch_edges(P, new, b):
            if p_len(atom, outcome) is None:
                continue
            expr = atom[2] if fold(atom[3]) is not None else atom[3]
            adds = [x for x in walk(expr) if x[0] == "binop" and x[1] == "Add"]
            mo = [x for x in walk(expr) if x[0] == "call" and name_matches(cn(x), "Option::map_or")]
            kl = [x for x in walk(expr) if x[0] == "call" and method(cn(x)) == "len" and key_of(x)]
            if adds and mo and kl:
                m = mo[0]
                dflt = fold(m[2][1]) if len(m[2]) > 1 and m[2][1] is not None else None
                val_src = any(x[0] == "call" and name_matches(cn(x), "TxtProperty::val") for x in walk(m[2][0]))
                cl = [x for x in walk(m[2][2]) if x[0] == "closure"] if len(m[2]) > 2 and m[2][2] is not None else []
                cl_ok = False
                cdet = "?"
                if cl:
                    cf = P.fns.get(cl[0][1])
                    if cf is not None:
                        for e in ret_exprs(P, cf):
                            cdet = show(e)[:80]
                            if e[0] == "binop" and e[1] == "Add":
                                parts = [e[2], e[3]]
                                cl_ok = any(fold(p) == 1 for p in parts) and any(any(x[0] == "call" and method(cn(x)) == "len" for x in walk(p)) for p in parts)
                ok = dflt == 0 and val_src and cl_ok
                det = "prop_len = key.len() + val.map_or(%s, |v| %s)" % (dflt, cdet)
    ctx.ob("C16c.F12.length-formula", "ServiceInfo::new|key.len() + val.map_or(0, |v| v.len() + 1)", ok, new.loc(head), det)
    # the validated list is the stored list
    for (b, i, s) in aggs:
        fields = s["r"].get("fields") or []
        if "txt_properties" not in fields:
            ctx.ob("C16c.stored-is-validated", "ServiceInfo::new", False, new.loc(b), "aggregate has no txt_properties field")
            continue
        op = s["r"]["ops"][fields.index("txt_properties")]
        stored = strip(tr.operand(op, (b, i)))
        nexts = [(bb, t) for bb, t in new.calls() if bb in body and method(cname(t)) == "next"]
        it = arg_expr(tr, new, nexts[0][0], nexts[0][1], 0) if nexts else None
        src_ok = it is not None and any(strip(x) == stored for x in walk(it))
        iter_all = it is not None and any(x[0] == "call" and name_matches(cn(x), "TxtProperties::iter") for x in walk(it))
        ctx.ob("C16c.stored-is-validated", "ServiceInfo::new", src_ok and iter_all, new.loc(b),
               "the loop iterates TxtProperties::iter() of the very value stored in txt_properties (%s)" % show(next(iter(stored)))[:70]
               if src_ok and iter_all else "stored txt_properties %s is not the iterated value %s" % (show(next(iter(stored)))[:60], show(it)[:80] if it else None))
    # TxtProperties::iter covers the whole vector
    it_fn = P.one("service_info::TxtProperties::iter")
    res = ret_exprs(P, it_fn)
    whole = all(any(x[0] == "call" and method(cn(x)) == "iter" for x in walk(e)) and expr_mentions_field(e, "properties") and
                not any(x[0] == "call" and method(cn(x)) in ("skip", "take", "filter", "step_by", "skip_while", "take_while") for x in walk(e)) for e in res)
    ctx.ob("C16c.iter-covers-all", "TxtProperties::iter", whole and bool(res), it_fn.loc(), "returns self.properties.iter() (no skip/take/filter): %s" % [show(e)[:60] for e in res])


def clause_d(ctx, P):
    enc = P.one("service_info::encode_txt")
    tr = tracer(P, enc)
    # '=' and the value are appended exactly under prop.val == Some
    exts = [(b, t) for b, t in enc.calls() if method(cname(t)) == "extend"]
    eq_ext = []
    val_ext = []
    for (b, t) in exts:
        a1 = arg_expr(tr, enc, b, t, 1)
        if any(x[0] == "const" and isinstance(x[1], (bytes, str, list, tuple)) for x in walk(a1)) or "const:&[u8; 1]" in show(a1):
            eq_ext.append((b, t))
        elif any(x[0] == "payload" and x[2] == "Some" and expr_mentions_field(x, "val") for x in walk(a1)):
            val_ext.append((b, t))
    ctx.require(len(eq_ext) == 1 and len(val_ext) == 1, "C16d.anchor", "encode_txt appends '=' once and the value once", enc.loc(),
                "'=' sites %d, value sites %d" % (len(eq_ext), len(val_ext)))
    some_edges = guard_edges(P, enc, lambda atom, outcome, b: atom[0] == "variant" and expr_mentions_field(atom[1], "val") and outcome == frozenset(["Some"]))
    for nm, sites in (("'='", eq_ext), ("value bytes", val_ext)):
        for (b, t) in sites:
            ok = bool(some_edges) and must_pass_edges(enc, b, some_edges)
            ctx.ob("C16d.equals-iff-some", "encode_txt|%s" % nm, ok, enc.loc(b),
                   "%s appended only on the Some edge of prop.val" % nm if ok else "%s can be appended without prop.val being Some" % nm)
    if eq_ext:
        # the constant really is '='
        b, t = eq_ext[0]
        o = t["args"][1]
        txt = str(o)
        ctx.ob("C16d.separator-constant", "encode_txt", "=" in (o.get("text") or "") or "61" in txt or 'b\\"=\\"' in txt or "b\"=\"" in txt, enc.loc(b),
               "separator operand: %s" % (o.get("text") or txt)[:60])
    # the None path appends nothing to s: no extend reachable on the None edge before the push
    # decoders: split at the FIRST '='; None iff absent
    for dn in ("service_info::decode_txt", "dns_parser::decode_txt"):
        dec = P.one(dn)
        trd = tracer(P, dec)
        pos = [(b, t) for b, t in dec.calls() if method(cname(t)) in ("position", "rposition")]
        ctx.require(len(pos) == 1, "C16d.anchor", "%s|one position call" % dn, dec.loc(), "%d" % len(pos))
        if len(pos) != 1:
            continue
        b, t = pos[0]
        first = method(cname(t)) == "position" and not any(x[0] == "call" and method(cn(x)) == "rev" for x in walk(arg_expr(trd, dec, b, t, 0)))
        # its closure compares with b'='
        cl = [g[8:] for g in (t.get("gargs") or []) if isinstance(g, str) and g.startswith("closure:")]
        cmp_ok = False
        for c in cl:
            cf = P.fns.get(strip_crate(c))
            if cf is None:
                continue
            for e in ret_exprs(P, cf):
                if e[0] == "binop" and e[1] == "Eq" and (fold(e[2]) == 61 or fold(e[3]) == 61):
                    cmp_ok = True
        ctx.ob("C16d.split-at-first-equals", dn, first and cmp_ok, dec.loc(b),
               "Iterator::position(|&x| x == b'=') on the forward iterator" if first and cmp_ok else "first=%s closure compares with 61=%s" % (first, cmp_ok))
        # map_or_else closures: default -> (.., None); found -> (kv[..idx], Some(kv[idx+1..]))
        mo = [(bb, tt) for bb, tt in dec.calls() if name_matches(cname(tt), "Option::map_or_else")]
        ctx.require(len(mo) == 1, "C16d.anchor", "%s|one map_or_else on the position" % dn, dec.loc(), "%d" % len(mo))
        if len(mo) != 1:
            continue
        bb, tt = mo[0]
        from_pos = any(x[0] == "call" and method(cn(x)) == "position" for x in walk(arg_expr(trd, dec, bb, tt, 0)))
        cls = [strip_crate(g[8:]) for g in (tt.get("gargs") or []) if isinstance(g, str) and g.startswith("closure:")]
        none_ok = some_ok = False
        det = []
        if len(cls) == 2:
            d_fn, f_fn = P.fns.get(cls[0]), P.fns.get(cls[1])
            if d_fn is not None and f_fn is not None:
                for fn_, want in ((d_fn, "None"), (f_fn, "Some")):
                    for e in ret_exprs(P, fn_):
                        vs = _tuple_field_variants(e, 1)
                        det.append("%s -> field1 %s" % (fn_.short[-12:], sorted(vs)))
                        if vs == {want}:
                            if want == "None":
                                none_ok = True
                            else:
                                # the value is kv[idx+1..], the key kv[..idx]
                                rng = [x for x in walk(e) if x[0] == "agg" and x[1] == "adt" and str(x[2]).split("::")[-1] in ("RangeFrom", "RangeTo")]
                                plus1 = any(x[0] == "binop" and x[1] == "Add" and (fold(x[2]) == 1 or fold(x[3]) == 1) for x in walk(e))
                                some_ok = len(rng) >= 2 and plus1
        ctx.ob("C16d.none-iff-no-equals", dn, from_pos and none_ok and some_ok, dec.loc(bb),
               "position -> map_or_else(|| (kv, None), |idx| (kv[..idx], Some(kv[idx+1..])))" if from_pos and none_ok and some_ok else "; ".join(det) or "closures not found")


def strip_crate(n):
    return n[len("mdns_sd::"):] if n.startswith("mdns_sd::") else n


def _tuple_field_variants(e, idx):
    """variant names the idx-th component of a returned tuple can take"""
    out = set()
    alts = e[1] if e[0] == "phi" else (e,)
    for a in alts:
        if a[0] == "agg" and a[1] == "tuple" and len(a) > 4 and idx < len(a[4]) and a[4][idx] is not None:
            c = a[4][idx]
            calts = c[1] if c[0] == "phi" else (c,)
            for x in calts:
                if x[0] == "agg" and x[1] == "adt":
                    out.add(x[3])
                else:
                    out.add("?")
        else:
            out.add("?")
    return out


def clause_e(ctx, P):
    # decode_txt_unique: retain(|p| keys.insert(p.key().to_lowercase()))
    du = P.one("service_info::decode_txt_unique")
    rt = [(b, t) for b, t in du.calls() if method(cname(t)) == "retain"]
    ctx.require(len(rt) == 1, "C16e.anchor", "decode_txt_unique|retain", du.loc(), "%d" % len(rt))
    for (b, t) in rt:
        cls = [strip_crate(g[8:]) for g in (t.get("gargs") or []) if isinstance(g, str) and g.startswith("closure:")]
        ok = False
        det = "closure not found"
        for c in cls:
            cf = P.fns.get(c)
            if cf is None:
                continue
            for e in ret_exprs(P, cf):
                det = show(e)[:120]
                ins = [x for x in walk(e) if x[0] == "call" and name_matches(cn(x), "HashSet::insert")]
                ok = bool(ins) and e[0] == "call" and name_matches(cn(e), "HashSet::insert") and is_lowercased(ins[0][2][1]) and \
                    any(x[0] == "call" and name_matches(cn(x), "TxtProperty::key") or x[0] == "field" and x[2] == "key" for x in walk(ins[0][2][1]))
        ctx.ob("C16e.first-wins-decode", "decode_txt_unique", ok, du.loc(b), "retain keeps an element iff keys.insert(lowercase(key)) is true, in order: %s" % det)
        tr = tracer(P, du)
        src = arg_expr(tr, du, b, t, 0)
        ctx.ob("C16e.unique-filters-decoded", "decode_txt_unique", any(x[0] == "call" and name_matches(cn(x), "decode_txt") for x in walk(src)), du.loc(b),
               "retain runs on the result of decode_txt: %s" % show(src)[:80])
    # slice input: push guarded by keys.insert(lowercase(key))
    def _lowers(f):
        return any(method(cname(t)) == "to_lowercase" for _b, t in f.calls()) or \
            any(method(cname(t)) == "to_lowercase" for c in P.closures_of.get(f.name, []) for _b, t in P.fns[c].calls())
    impls = [f for f in P.lib_fns() if f.short.endswith("into_txt_properties") and not f.is_closure and _lowers(f)]
    ctx.require(len(impls) >= 1, "C16e.anchor", "slice IntoTxtProperties impl", "", "%d" % len(impls))
    for f in impls:
        tr = tracer(P, f)
        rts = [(b, t) for b, t in f.calls() if method(cname(t)) == "retain"]
        if rts:
            # convert everything, then `retain(|p| keys.insert(lowercase(key)))`: the same filter as decode_txt_unique
            okr = False
            for c in P.closures_of.get(f.name, []):
                for e in ret_exprs(P, P.fns[c]):
                    if e[0] == "call" and name_matches(cn(e), "HashSet::insert") and is_lowercased(e[2][1]) and \
                            any(x[0] == "call" and name_matches(cn(x), "TxtProperty::key") or x[0] == "field" and x[2] == "key" for x in walk(e[2][1])):
                        okr = True
            ctx.ob("C16e.first-wins-input", "%s|retain" % f.short[-40:], okr, f.loc(rts[0][0]),
                   "retain keeps an element iff keys.insert(lowercase(key)) is true" if okr else "the retain predicate is not keys.insert(lowercase(key))")
            continue
        pushes = [(b, t) for b, t in f.calls() if name_matches(cname(t), "Vec::push")]
        edges = guard_edges(P, f, lambda atom, outcome, b: atom[0] == "call" and name_matches(cn(atom), "HashSet::insert") and outcome is True and
                            is_lowercased(atom[2][1]))
        for (b, t) in pushes:
            ok = bool(edges) and must_pass_edges(f, b, edges)
            ctx.ob("C16e.first-wins-input", "%s|push" % f.short[-40:], ok, f.loc(b),
                   "push only on the true edge of keys.insert(lowercase(key))" if ok else "push not guarded by keys.insert(lowercase(key))")
    # lookup: both sides lower-cased
    get = P.one("service_info::TxtProperties::get")
    cls = [c for c in P.closures_of.get(get.name, [])]
    ok = False
    det = "closure not found"
    for c in cls:
        cf = P.fns[c]
        for e in ret_exprs(P, cf):
            det = show(e)[:140]
            if e[0] == "call" and method(cn(e)) in ("eq", "ne") and len(e[2]) == 2:
                l_ok = is_lowercased(e[2][0])
                # the captured key: lower-cased in the parent
                ok = l_ok
    if not ok:
        # the same comparison written out in the function itself (an explicit loop instead of find(|p| ..))
        gtr = tracer(P, get)
        for b, t in get.calls():
            if method(cname(t)) in ("eq", "ne") and len(t["args"]) == 2:
                sides = [gtr.operand(a, endpos(get, b)) for a in t["args"]]
                if any(is_lowercased(sd) and any(x[0] == "field" and x[2] == "key" for x in walk(sd)) for sd in sides):
                    ok = True
                    det = "; ".join(show(sd)[:60] for sd in sides)
    trg = tracer(P, get)
    lowered_param = any(method(cname(t)) == "to_lowercase" and any(x[0] == "param" and x[1] == 2 for x in walk(arg_expr(trg, get, b, t, 0))) for b, t in get.calls())
    ctx.ob("C16e.lookup-case-insensitive", "TxtProperties::get", ok and lowered_param, get.loc(),
           "find(|p| p.key.to_lowercase() == key) with key = param.to_lowercase(): %s" % det)


def clause_f(ctx, P):
    """pipeline: received TXT always goes through first-wins decoding; own TXT records are generate_txt() of the
    validated properties; nothing else writes ServiceInfo.txt_properties"""
    dec = P.one("service_info::decode_txt")
    callers = sorted({f.short for (f, b, t) in P.call_sites_of(dec.name) if not f.in_tests()})
    ctx.ob("C16f.decode-only-through-unique", "service_info::decode_txt", callers == ["decode_txt_unique"], dec.loc(),
           "non-test callers of service_info::decode_txt: %s" % callers)
    du = P.one("service_info::decode_txt_unique")
    users = sorted({f.short for (f, b, t) in P.call_sites_of(du.name) if not f.in_tests()})
    ctx.ob("C16f.unique-feeds-properties", "decode_txt_unique", "_set_properties_from_txt" in users, du.loc(), "callers: %s" % users)
    gen = P.one("service_info::ServiceInfo::generate_txt")
    res = ret_exprs(P, gen)
    okg = bool(res) and all(e[0] == "call" and name_matches(cn(e), "encode_txt") and expr_mentions_field(e, "txt_properties") or
                            (e[0] == "call" and name_matches(cn(e), "encode_txt") and any(x[0] == "call" and name_matches(cn(x), "get_properties") for x in walk(e)))
                            for e in res)
    ctx.ob("C16f.generate-encodes-stored", "ServiceInfo::generate_txt", okg, gen.loc(), "returns %s" % [show(e)[:80] for e in res])
    n = 0
    for f in P.lib_fns():
        if "DnsIncoming" in f.name:
            continue
        tr = None
        for b, t in f.calls():
            if not name_matches(cname(t), "DnsTxt::new"):
                continue
            tr = tr or tracer(P, f)
            # the text argument is the last one
            e = arg_expr(tr, f, b, t, len(t["args"]) - 1)
            n += 1
            ok = any(x[0] == "call" and name_matches(cn(x), "generate_txt") for x in walk(e))
            ctx.ob("C16f.own-txt-is-generated", "%s|DnsTxt::new#%d" % (f.short[-40:], n), ok, f.loc(b), "TXT RDATA operand: %s" % show(e)[:100])
    ctx.floor("C16f.own-txt", n, 3, "DnsTxt::new call sites outside the decoder")
    writers = set()
    for f in P.lib_fns():
        for (b, i, s) in f.assigns():
            if place_mentions_field(s["p"], "ServiceInfo", "txt_properties"):
                writers.add(f.short)
            r = s["r"]
            if r["k"] in ("ref", "addrof") and r.get("bk") in ("mut", "Mut") and place_mentions_field(r["p"], "ServiceInfo", "txt_properties"):
                writers.add(f.short)
    allowed = {"_set_properties_from_txt"}
    ctx.ob("C16f.who-writes-txt-properties", "ServiceInfo.txt_properties", writers <= allowed, "src/service_info.rs",
           "writers besides the validating constructor: %s (allowed: decoded data only)" % sorted(writers))


def run(ctx, P):
    from . import c10, f4
    # the cache decides 'same TXT record' byte-exactly (a TXT that differs in letter case only is a new record), and the
    # TXT record of a renamed service goes out under the name the SRV/PTR point to
    c10.matches_coverage(ctx, P, "C16g", types=("DnsTxt",))
    n = f4.check_rename_taint(ctx, P, "C16h", only=lambda s: s.kind == "TXT")
    ctx.floor("C16h.F4.rename-args", n, 2, "TXT record constructors with a renamable name")
    clause_f(ctx, P)
    from . import r4
    r4.every_string_skipped_whole(ctx, P, "C16i")
    r4.first_occurrence_wins_everywhere(ctx, P, "C16j")
    r4.newest_record_first(ctx, P, "C16k")
    R = P      # (P.raw is the program as extracted; the numeric engine also runs on the normalised one)
    R.repo = P.repo
    clause_a(ctx, R)
    clause_b(ctx, P)
    clause_c(ctx, P)
    clause_d(ctx, P)
    clause_e(ctx, P)
