"""C14 — Shutdown is clean, final and safe under concurrent use."""
from .lib import *
from . import c13

EXPLANATION = (
    "Schedules cannot be enumerated statically; what makes the property hold for every schedule is ownership and "
    "ordering, which is checkable: (a) the Exit arm of the command loop calls cleanup (single call site), sets "
    "status = Shutdown and returns without executing anything else; cleanup covers services, browses, resolvers and "
    "reruns; (b) the command Receiver is moved into run by value, is only borrowed for try_recv, is never stored or "
    "cloned, and daemon_thread reports Shutdown only on the value returned by run; reply Senders live only inside "
    "their Command; (c) send_cmd maps Disconnected ⇒ DaemonShutdown and Full ⇒ Again, every public method reaches the "
    "daemon only through send_cmd, status() tests is_disconnected() first; (d) API-thread code performs no unbounded "
    "blocking channel operation; (e) F14 — daemon-thread code performs no blocking Sender::send on a bounded "
    "multi-event client channel.  Decides these conditions, not interleavings as such."
    " (g) Commands still queued when Exit is executed are consumed (answered or dropped) so that their reply channels close."
    " (h) The loop around receiver.try_recv() in run is left only on try_recv's empty-queue edge or on the way out of run: no batch cap can strand commands whose wake-up datagrams are already consumed. (i) ServiceInfo::set_status never writes a status other than Probing/Announced unless the interface was removed from my_intfs first (goodbyes at shutdown go where the status is Announced)."
    " The goodbye at shutdown is built over both sockets (C09b, shared)."
    " (j) The SearchStopped events of cleanup are sent with the lossless send. (k) cleanup tries IPv6 after IPv4 on every interface.")
UNDECIDED = ["interleavings as such (exhaustive small-N exploration is a different technique family)",
             "that a blocked client eventually drains (environment)"]

ONE_SHOT = ("service_daemon::UnregisterStatus", "service_daemon::DaemonStatus", "service_daemon::DaemonOptionVal",
            "std::collections::HashMap<std::string::String, i64>")
MULTI_EVENT = ("service_daemon::ServiceEvent", "service_daemon::HostnameResolutionEvent")


def thread_roots(P):
    """closures handed to std::thread::Builder::spawn / thread::spawn"""
    roots = set()
    for f in P.lib_fns():
        for b, t in f.calls():
            n = cname(t)
            if n.endswith("thread::Builder::spawn") or n.endswith("thread::spawn") or n.endswith("thread::Builder::spawn_scoped"):
                for g in t.get("gargs") or []:
                    if g.startswith("closure:"):
                        roots.add(g[len("closure:"):])
    return roots


def api_reach(P):
    roots = [f.name for f in P.lib_fns() if f.exported and not f.is_closure]
    troots = thread_roots(P)
    cg = P.callgraph()
    seen = set()
    st = list(roots)
    while st:
        x = st.pop()
        if x in seen or x in troots:
            continue
        seen.add(x)
        st.extend(cg.get(x, ()))
    return seen, troots


def clause_a(ctx, P):
    run = P.one("Zeroconf::run")
    tr = tracer(P, run)
    cl = calls_to(run, "Zeroconf::cleanup")
    sites = P.call_sites_of("service_daemon::Zeroconf::cleanup")
    ctx.ob("C14a.cleanup-single-site", "Zeroconf::cleanup", len(sites) == 1 and len(cl) == 1, run.loc(), "cleanup has exactly one call site, in run (%d)" % len(sites))
    if not cl:
        return
    cb = cl[0][0]
    e_exit = guard_edges(P, run, lambda atom, outcome, bb: atom[0] == "variant" and outcome == frozenset(["Exit"]) and has_call(atom[1], "Receiver::try_recv"))
    ctx.ob("C14a.cleanup-on-exit-only", run.name, bool(e_exit) and guarded(P, run, cb, e_exit), run.loc(cb), "cleanup runs exactly on the Exit arm of the command loop")
    # status := Shutdown after cleanup, then return; nothing else executed
    st = [(b, i) for b, i, s in run.assigns() if place_mentions_field(s["p"], "Zeroconf", "status") and
          ("service_daemon::DaemonStatus", "Shutdown") in value_variants(tr.rvalue(s["r"], (b, i)))]
    ok = len(st) == 1 and run.pos_dominates((cb, len(run.stmts(cb))), st[0])
    ctx.ob("C14a.status-after-cleanup", run.name, ok, run.loc(cb), "status := Shutdown is assigned after cleanup returned")
    after = run.reachable(cb) - {cb}
    bad = [b for b in after if run.term(b)["k"] == "call" and (set(P.call_targets(run.term(b))) & set(P.fns)) and not cname(run.term(b)).startswith("<")
           and not name_matches(cname(run.term(b)), "log::")]
    bad = [b for b in bad if any(x.startswith("service_daemon::") or x.startswith("dns_") for x in P.call_targets(run.term(b)))]
    ctx.ob("C14a.nothing-after-exit", run.name, not bad, run.loc(cb),
           "after cleanup no crate function is called before run returns" if not bad else "calls after cleanup: " + ", ".join(run.loc(b) for b in bad[:3]))
    rets_after = [b for b in after if run.term(b)["k"] == "return"]
    heads = run.loops()
    main = max(heads, key=lambda h: len(heads[h]))
    ctx.ob("C14a.exit-returns", run.name, bool(rets_after) and main not in after, run.loc(cb), "the Exit arm returns from run and never re-enters the loop")
    # the returned value is the Exit command
    for rb in rets_after:
        e = tr.local(0, endpos(run, rb))
        okr = any(x[0] == "agg" and x[3] == "Some" and has_call(x, "Receiver::try_recv") for x in walk(e))
        ctx.ob("C14a.returns-exit-command", run.name, okr, run.loc(rb), "run returns Some(the Exit command)")
        break
    # cleanup coverage: services + the C13e coverage of searches and reruns
    cf = P.one("Zeroconf::cleanup")
    clr = [b for b, t in cf.calls() if name_matches(cname(t), "HashMap::clear") and recv_mentions(P, cf, b, t, "my_services", "Zeroconf")]
    un = calls_to(cf, "Zeroconf::unregister_service")
    ctx.ob("C14a.cleanup-services", cf.name, bool(clr) and bool(un), cf.loc(), "cleanup says goodbye for and clears my_services")
    c13.clause_e(ctx, P)


def clause_b(ctx, P):
    run = P.one("Zeroconf::run")
    ctx.ob("C14b.receiver-by-value", run.name, len(run.params) == 2 and run.params[1] == "flume::Receiver<service_daemon::Command>", run.loc(),
           "run takes the Receiver<Command> by value: %s" % run.params)
    # every use of the receiver parameter is a shared borrow passed to try_recv
    uses = []
    for b in sorted(run.live_blocks()):
        for i, s in enumerate(run.stmts(b)):
            if s["k"] != "assign":
                continue
            r = s["r"]
            ps = []
            if r["k"] in ("ref", "addrof", "copyforderef", "discr", "len"):
                ps.append((r["p"], r["k"], r.get("bk")))
            for key in ("a", "b"):
                if key in r and isinstance(r[key], dict) and r[key].get("k") in ("copy", "move"):
                    ps.append((r[key]["p"], r[key]["k"], None))
            for o in r.get("ops", []) or []:
                if o.get("k") in ("copy", "move"):
                    ps.append((o["p"], o["k"], None))
            for (p, kind, bk) in ps:
                if p["l"] == 2:
                    uses.append((b, i, kind, bk))
        t = run.term(b)
        if t["k"] == "call":
            for a in t["args"]:
                if a.get("k") in ("copy", "move") and a["p"]["l"] == 2:
                    uses.append((b, len(run.stmts(b)), "arg-" + a["k"], None))
        if t["k"] == "drop" and t["p"]["l"] == 2:
            pass
    ok = bool(uses) and all(kind == "ref" and bk == "shared" for (b, i, kind, bk) in uses)
    ctx.ob("C14b.receiver-only-borrowed", run.name, ok, run.loc(), "the receiver is only borrowed (&receiver), never moved, stored or cloned: %d use(s)" % len(uses))
    tr = tracer(P, run)
    recv_calls = [(b, t) for b, t in run.calls() if any(a.get("k") in ("copy", "move") and _derives_from_param(run, a, (b, len(run.stmts(b))), 2) for a in t["args"])]
    okc = bool(recv_calls) and all(name_matches(cname(t), "Receiver::try_recv") for b, t in recv_calls)
    ctx.ob("C14b.receiver-only-try-recv", run.name, okc, run.loc(), "the borrowed receiver is passed to try_recv only (%s)" % sorted({cname(t).split("::")[-1] for b, t in recv_calls}))
    # no field of any struct holds a Receiver<Command>
    holders = [(a["name"], f["name"]) for a in P.adts.values() for v in a["variants"] for f in v["fields"] if "Receiver<service_daemon::Command>" in f["ty"]]
    ctx.ob("C14b.receiver-not-stored", "Receiver<Command>", not holders, "", "no struct field can hold the command receiver" if not holders else "stored in %s" % holders)
    dt = P.one("ServiceDaemon::daemon_thread")
    dtr = tracer(P, dt)
    sends = [em for em in direct_sends(P, dt) if "Shutdown" in em.names()]
    rc = calls_to(dt, "Zeroconf::run")
    ok = len(sends) == 1 and len(rc) == 1 and dt.dominates(rc[0][0], sends[0].bb) and has_call(sends[0].recv, "Zeroconf::run")
    ctx.ob("C14b.shutdown-after-run-returned", dt.name, ok, dt.loc(), "daemon_thread sends DaemonStatus::Shutdown on the Exit payload returned by run, i.e. after the receiver was dropped")
    # the receiver is moved into run
    if rc:
        a = rc[0][1]["args"][1]
        ctx.ob("C14b.receiver-moved", dt.name, a.get("k") == "move", dt.loc(rc[0][0]), "daemon_thread moves the receiver into run")
    # reply senders live only inside Command payloads
    extra = []
    for a in P.adts.values():
        for v in a["variants"]:
            for f in v["fields"]:
                for ty in ONE_SHOT:
                    if "Sender<%s>" % ty in f["ty"] and a["name"] != "service_daemon::Command":
                        extra.append((a["name"], v["name"], f["name"]))
    ctx.ob("C14b.reply-senders-in-commands", "reply Senders", not extra, "", "one-shot reply Senders are stored only in Command payloads" if not extra else str(extra))


def _derives_from_param(fn, a, pos, param):
    l = a["p"]["l"]
    for _ in range(6):
        if l == param:
            return True
        ds = fn.reaching_defs(l, pos)
        if len(ds) != 1 or ds[0][2] != "assign":
            return False
        r = ds[0][3]
        if r["k"] in ("ref", "copyforderef") and all(pe[0] == "deref" for pe in r["p"]["proj"]):      # &x, &*x (reborrow)
            l = r["p"]["l"]
            pos = (ds[0][0], ds[0][1])
        elif r["k"] == "use" and r["a"].get("k") in ("copy", "move") and not r["a"]["p"]["proj"]:
            l = r["a"]["p"]["l"]
            pos = (ds[0][0], ds[0][1])
        else:
            return False
    return l == param


def clause_c(ctx, P):
    sc = P.one("ServiceDaemon::send_cmd")
    # closure mapping the TrySendError
    ok = False
    for c in P.closures_of.get(sc.name, []):
        cf = P.fns[c]
        m = {}
        for b in cf.live_blocks():
            for (tgt, atom, outcome) in switch_edges(P, cf, b):
                if atom[0] == "variant" and isinstance(outcome, frozenset) and len(outcome) == 1:
                    v = next(iter(outcome))
                    for bb, i, s in aggregates(cf, "error::Error"):
                        if bb in cf.reachable(tgt, removed_blocks=[b]):
                            others = [t2 for (t2, a2, o2) in switch_edges(P, cf, b) if t2 != tgt]
                            if not any(bb in cf.reachable(o, removed_blocks=[b]) for o in others):
                                m[v] = s["r"]["vname"]
        if not m:
            continue
        if m.get("Disconnected") == "DaemonShutdown" and m.get("Full") == "Again":
            ok = True
        ctx.ob("C14c.error-arms", cf.name, m.get("Disconnected") == "DaemonShutdown" and m.get("Full") == "Again", cf.loc(),
               "TrySendError::Disconnected ⇒ Error::DaemonShutdown, Full ⇒ Error::Again (%s)" % m)
    ctx.require(ok, "C14c.anchor", sc.name, sc.loc(), "error-mapping closure of send_cmd found")
    # who may call try_send / send on Sender<Command>
    callers = sorted({em.fn.name for em in emissions(P) if em.via == "direct" and em.chan == "service_daemon::Command"})
    allowed = {"service_daemon::ServiceDaemon::send_cmd", "service_daemon::Zeroconf::send_cmd_to_self"}
    ctx.ob("C14c.who-sends-commands", "Sender<Command>", set(callers) <= allowed and "service_daemon::ServiceDaemon::send_cmd" in callers, "",
           "commands are put on the daemon channel only by %s" % callers)
    nonblocking = all(not em.blocking for em in emissions(P) if em.via == "direct" and em.chan == "service_daemon::Command")
    ctx.ob("C14c.commands-try-send", "Sender<Command>", nonblocking, "", "the command channel is only written with try_send (never blocks the caller)")
    # every exported ServiceDaemon method that builds a Command hands it to send_cmd
    n = 0
    for f in P.lib_fns():
        if not (f.exported and (f.impl_self or "").endswith("ServiceDaemon")) or f.is_closure:
            continue
        cmds = list(aggregates(f, "service_daemon::Command"))
        if not cmds:
            continue
        n += 1
        tr = tracer(P, f)
        sc_calls = calls_to(f, "ServiceDaemon::send_cmd")
        ok = bool(sc_calls) and all(any(any(x[0] == "agg" and x[2] == "service_daemon::Command" and x[3] == s["r"]["vname"] for x in walk(tr.operand(t["args"][1], endpos(f, b))))
                                        for b, t in sc_calls) for (bb, i, s) in cmds)
        ctx.ob("C14c.api-through-send-cmd", f.name, ok, f.loc(), "every Command built by this method is passed to send_cmd")
    ctx.floor("C14c.api-through-send-cmd", n, 15, "public methods that build a Command")
    st = P.one("ServiceDaemon::status")
    e_disc = guard_edges(P, st, lambda atom, outcome, bb: atom[0] == "call" and name_matches(strip_generics(atom[1]), "Sender::is_disconnected") and outcome is False)
    scs = calls_to(st, "ServiceDaemon::send_cmd")
    ok = bool(scs) and all(must_pass_edges(st, b, e_disc) for b, t in scs)
    snd = [em for em in direct_sends(P, st) if "Shutdown" in em.names()]
    e_disc_t = guard_edges(P, st, lambda atom, outcome, bb: atom[0] == "call" and name_matches(strip_generics(atom[1]), "Sender::is_disconnected") and outcome is True)
    ok = ok and len(snd) == 1 and must_pass_edges(st, snd[0].bb, e_disc_t)
    ctx.ob("C14c.status-short-circuit", st.name, ok, st.loc(), "status() answers Shutdown itself when the channel is disconnected, else asks the daemon")


def clause_d(ctx, P):
    reach, troots = api_reach(P)
    ctx.require(bool(troots), "C14d.anchor", "thread roots", "", "daemon thread root closure found: %s" % sorted(troots))
    BLOCKING = ("flume::Sender::send", "flume::Receiver::recv", "flume::Receiver::recv_timeout", "flume::Receiver::recv_deadline",
                "flume::Sender::send_timeout", "flume::Sender::send_deadline", "std::thread::JoinHandle::join", "flume::Receiver::iter")
    n = 0
    for name in sorted(reach):
        f = P.fns.get(name)
        if f is None or f.in_tests():
            continue
        tr = tracer(P, f)
        k = 0
        for b, t in f.calls():
            c = cname(t)
            if c not in BLOCKING:
                continue
            n += 1
            k += 1
            ok = False
            why = ""
            if c.endswith("recv_timeout") or c.endswith("send_timeout"):
                ok = True
                why = "bounded by a timeout"
            elif c == "flume::Sender::send":
                recv = tr.operand(t["args"][0], endpos(f, b))
                bnd = [x for x in walk(recv) if x[0] == "call" and strip_generics(x[1]) == "flume::bounded"]
                others = [bb for bb, tt in f.calls() if bb != b and cname(tt).startswith("flume::Sender::") and method(cname(tt)) in ("send", "try_send")
                          and any(x in bnd for x in walk(tr.operand(tt["args"][0], endpos(f, bb))))]
                cap = fold(bnd[0][2][0]) if bnd else None
                ok = bool(bnd) and cap is not None and cap >= 1 and not others
                why = "single send on a fresh bounded(%s) channel created in the same function" % cap
            ctx.ob("C14d.F14.api-no-blocking", "%s|%s#%d" % (f.name, c.split("::")[-1], k), ok, f.loc(b),
                   "caller-thread channel operation cannot block indefinitely: " + why if ok else "caller-thread code blocks on %s" % c)
    ctx.floor("C14d.F14.api-no-blocking", n, 2, "blocking-capable channel operations in API-thread code")
    # one-shot reply channels are bounded(1)
    for f in P.lib_fns():
        if not (f.exported and (f.impl_self or "").endswith("ServiceDaemon")):
            continue
        tr = tracer(P, f)
        for b, t in f.calls():
            if cname(t) == "flume::bounded":
                ty = (t.get("gargs") or ["?"])[0]
                cap = fold(tr.operand(t["args"][0], endpos(f, b)))
                if ty in ONE_SHOT:
                    ctx.ob("C14d.reply-channel-capacity", "%s|%s" % (f.name, ty.split("::")[-1]), cap is not None and cap >= 1, f.loc(b),
                           "reply channel for %s has capacity %s (a single reply never blocks the daemon)" % (ty.split("::")[-1], cap))


def clause_e(ctx, P):
    roots = thread_roots(P)
    dreach = P.reachable_from(list(roots))
    n = 0
    ords = {}
    for em in sorted(emissions(P), key=lambda e: (e.fn.name, e.fn.term_line(e.bb), e.bb)):
        if em.via != "direct" or em.fn.name not in dreach or not em.blocking:
            continue
        ords[(em.fn.name, em.chan)] = ords.get((em.fn.name, em.chan), 0) + 1
        nth = ords[(em.fn.name, em.chan)]
        if em.chan in ONE_SHOT:
            # one-shot: the sender must come out of a Command payload (consumed with the command)
            n += 1
            continue
        if em.chan in MULTI_EVENT:
            n += 1
            ctx.ob("C14e.F14.daemon-blocking-send", "%s|%s#%d" % (em.fn.name, em.chan.split("::")[-1], nth), False, em.fn.loc(em.bb),
                   "daemon-thread code performs a blocking flume::Sender::send of %s on a bounded(10) client channel: a client that holds the "
                   "receiver without draining it parks the daemon after 10 events; no command, including shutdown, is executed any more" % em.chan.split("::")[-1],
                   what="blocking send on bounded client channel in %s" % em.fn.name.split("::", 1)[-1])
        else:
            n += 1
            ctx.ob("C14e.F14.daemon-blocking-send", "%s|%s#%d" % (em.fn.name, em.chan.split("::")[-1], nth), False, em.fn.loc(em.bb),
                   "blocking send on an unclassified channel type %s in daemon-thread code" % em.chan)
    ctx.floor("C14e.F14.daemon-sends", n, 5, "blocking sends in daemon-thread code")
    # monitors are notified with try_send only
    mon = [em for em in emissions(P) if em.via == "direct" and em.chan == "service_daemon::DaemonEvent"]
    ctx.ob("C14e.monitors-try-send", "Sender<DaemonEvent>", bool(mon) and all(not em.blocking for em in mon), "", "monitor channels are written with try_send only (%d sites)" % len(mon))
    # client channels are created bounded (capacity known)
    for f in P.lib_fns():
        if f.exported and (f.impl_self or "").endswith("ServiceDaemon"):
            tr = tracer(P, f)
            for b, t in f.calls():
                if cname(t) == "flume::bounded" and (t.get("gargs") or ["?"])[0] in MULTI_EVENT:
                    cap = fold(tr.operand(t["args"][0], endpos(f, b)))
                    ctx.ob("C14e.client-channel-capacity", f.name, cap is not None, f.loc(b), "client event channel capacity is the constant %s" % cap)


def clause_queue_released(ctx, P):
    """'its reply channel yields a value or is closed': commands still queued when Exit is executed hold reply
    Senders; flume keeps queued messages alive while any Sender handle exists, so unless the daemon consumes (answers or
    drops) what is left in the queue, the reply Receivers of those calls neither yield nor close"""
    run = P.one("Zeroconf::run")
    cl = calls_to(run, "Zeroconf::cleanup")
    if not cl:
        return
    cb = cl[0][0]
    consumes = ("try_recv", "try_iter", "drain", "recv", "recv_timeout", "iter", "into_iter")
    drains = [b for b, t in run.calls() if cname(t).startswith("flume::Receiver::") and method(cname(t)) in consumes and run.dominates(cb, b) and b != cb]
    # or in the thread body after run returned (a clone of the receiver kept there)
    later = []
    for f in P.lib_fns():
        rc = [b for b, t in f.calls() if run.name in P.call_targets(t)]
        for b in rc:
            later += [(f, b2) for b2, t2 in f.calls() if cname(t2).startswith("flume::Receiver::") and method(cname(t2)) in consumes and f.dominates(b, b2) and b2 != b]
    ok = bool(drains) or bool(later)
    ctx.ob("C14g.queued-commands-released", "Zeroconf::run|Exit", ok, run.loc(cb),
           "what is left in the command queue is consumed after the clean-up (its reply senders are dropped or answered)" if ok else
           "after Command::Exit the daemon returns and drops its Receiver without consuming the commands queued behind Exit: their reply "
           "Senders stay alive inside the channel while any ServiceDaemon clone exists, so status()/get_metrics()/browse()/unregister()/"
           "a second shutdown() racing with shutdown() return a Receiver that never yields and never closes")


def run(ctx, P):
    from . import r2
    r2.command_queue_drained(ctx, P, "C14h")
    r2.status_never_forgotten(ctx, P, "C14i")
    r2.both_families_every_interface(ctx, P, "C14k", fnames=("Zeroconf::cleanup",))
    # SearchStopped at shutdown is delivered, not attempted (the blocking side of the same sends is the known finding of C14d)
    r2.events_are_lossless(ctx, P, "C14j", chan_suffix=("ServiceEvent", "HostnameResolutionEvent"), floor=2, only_fn="Zeroconf::cleanup")
    from . import c09
    c09.goodbye_per_interface_and_family(ctx, P, callers=("Zeroconf::cleanup",))     # shutdown says goodbye over both sockets (shared with C09)
    clause_queue_released(ctx, P)
    clause_a(ctx, P)
    clause_b(ctx, P)
    clause_c(ctx, P)
    clause_d(ctx, P)
    clause_e(ctx, P)
