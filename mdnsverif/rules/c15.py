"""C15 — No API argument and no packet can crash a caller or kill the daemon."""
import re

from .lib import *
from . import e3, c16
from .f12 import ret_exprs
from ..model import strip_generics
from ..absint2 import nm, matches

EXPLANATION = (
    "Whole-crate panic-freedom by abstract interpretation of the MIR (linear constraints over symbolic lengths, offsets and "
    "clocks; no execution, no solver): the scope is every function reachable from the nameable public API (which includes the "
    "daemon thread body).  Every class-A panic site in it (bounds / slice / str-boundary checks, unwrap/expect, explicit "
    "panics and asserts, division, Vec::insert/remove/drain, copy_from_slice) is proved unreachable for ALL inputs, or is in the "
    "justification table (environment-only failures, each with a stated reason and, where there is one, a machine-checked "
    "side condition), or is a recorded known finding.  Arithmetic-overflow asserts (class B: they panic under overflow-checks, "
    "the profile the test-suite runs) are proved from one clock assumption, declared field/payload ranges that are themselves "
    "checked at every write, and parameter/result ranges propagated over the call graph to an inductive fixpoint; the unproved "
    "rest must be a pure local counter or a justified entry.  Every std/dependency function known to panic must have been "
    "modelled at each call.  Loops: finite std iterator, synthesised ranking, or one of five named exemptions (daemon loop, "
    "socket/channel drains).  API strings pass their validator before they are queued."
    " (e) The name stored in a queued Command::ResolveHostname / Browse / Resolve is the name as given, never a to_lowercase() copy (Unicode lower-casing can lengthen a label beyond 63 bytes).")
UNDECIDED = ["behaviour after the input (the daemon goes on serving): only absence of panics and hangs is decided",
             "allocation failure / stack overflow",
             "panics inside std or dependency functions beyond their documented conditions"]
ASSUMPTIONS = [
    "the system clock is between 1970 and 2^62 ms (current_time_millis)",
    "no in-memory sequence is longer than 2^62 elements; 64-bit target",
    "std / dependency functions panic only under their documented conditions (library model table mdnsverif/libmodel.py; "
    "the denylist of panicking functions in rules/c15.py must be modelled at each call)",
    "fewer than 2^31 iterations / events feed any pure counter (auto-classified class-B sites, listed in the evidence)",
]
LEVEL = "other"
SELFTEST_MAX = 5          # one whole-crate analysis per variant (~40 s each)

FIELD_RANGES = {
    # (field,) or ("as:Variant", index) -> (lo, hi); each is CHECKED at every write / construction (class I sites)
    ("created",): (0, 1 << 62),
    ("expires",): (0, 1 << 63),
    ("refresh",): (0, 1 << 63),
    ("start_time",): (0, 1 << 63),
    ("ip_check_interval",): (0, (1 << 32) * 1000),
    ("as:IpCheckInterval", 0): (0, (1 << 32) * 1000),
    ("as:Browse", 1): (1, 3600),
    ("as:ResolveHostname", 1): (1, 3600),
}

# ---- class A / I: unproved sites that do not depend on any input value.  key -> (reason, side-condition id or None)
JUSTIFIED_A = {
    "C15a.F1.panic-site|current_time_millis|unwrap|SystemTime::now() .duration_since(SystemTime::UNIX_EPOCH) .expect(\"fai":
        ("fails only when the system clock is set before 1970: environment, not an argument or a packet", None),
    "C15a.F1.panic-site|set_multicast_loop_v4|unwrap|sock.pktinfo .set_multicast_loop_v4(on) .map_err(|e| e_fmt!(\"failed to":
        ("setsockopt(IP_MULTICAST_LOOP) on the daemon's own open socket: fails only for an OS-level reason, not for any value "
         "of the boolean argument", None),
    "C15a.F1.panic-site|set_multicast_loop_v6|unwrap|sock.pktinfo .set_multicast_loop_v6(on) .map_err(|e| e_fmt!(\"failed to":
        ("setsockopt(IPV6_MULTICAST_LOOP) on the daemon's own open socket: OS-level failure only", None),
    "C15a.F1.panic-site|{closure#0}|unwrap|record .record .any() .downcast_ref::<DnsAddress>() .unwrap()":
        ("records in DnsCache.addr have type A/AAAA, and every record box whose type can be A/AAAA is a DnsAddress", "addr-map-holds-DnsAddress"),
    "C15a.F1.panic-site|encode_txt|panic:explicit|<panic::panic_2015>":
        ("debug_assert!(len <= 255): ServiceInfo.txt_properties is only ever the list validated in ServiceInfo::new (<= 255 "
         "bytes per entry) or decoded TXT data (<= 255 by construction)", "txt-properties-validated"),
}

# ---- class B: unproved arithmetic.  key -> (reason, side-condition id or None)
JUSTIFIED_B = {
    "C15a.F1.overflow-site|add_answer|overflow:Add|self.known_answer_count += 1":
        ("i64 event counter: written only by `+= 1` here and initialised to 0 in DnsOutgoing::new", "field-is-counter:known_answer_count"),
    "C15a.F1.overflow-site|increase_counter|overflow:Add|*v += count":
        ("i64 metrics counters: every caller passes 1 or a local pure counter", "increase-counter-args"),
    "C15a.F1.overflow-site|to_packets|overflow:Add|answer_count += 1":
        ("u16 count of records written into ONE packet: incremented only when write_record returned true, and a packet is capped at "
         "MAX_MSG_ABSOLUTE (8972) bytes while every record takes more than 10 bytes", "count-follows-write_record"),
    "C15a.F1.overflow-site|to_packets|overflow:Add|auth_count += u16::from(packet.write_record(auth.as_ref(), 0))":
        ("u16 count of records written into one packet: adds u16::from(write_record(..)) i.e. 1 only on success; same capacity bound", "count-follows-write_record"),
    "C15a.F1.overflow-site|to_packets|overflow:Add|addi_count += 1":
        ("u16 count of records written into one packet: incremented only when write_record returned true; same capacity bound", "count-follows-write_record"),
    "C15a.F1.overflow-site|get_remaining_ttl|overflow:Sub|get_expiration_time(self.created, self.ttl, 100) - now":
        ("reached only from write_record with now != 0; an answer is queued with now != 0 only by add_answer_at_time, which admits it only "
         "when !is_expired(now), i.e. now < expires = created + ttl*1000 for the freshly built records passed there", "remaining-ttl-guarded"),
    "C15a.F1.overflow-site|update_ttl|overflow:Sub|self.ttl -= (elapsed / 1000) as u32":
        ("only caller is send_query_vec on clones of records returned by get_known_answers(.., now), whose filter keeps a record only when "
         "!halflife_passed(now): elapsed <= ttl*500 ms, so elapsed/1000 <= ttl", "update-ttl-after-halflife-filter"),
}

# loops that are meant to run as long as there is input: (function, header snippet) -> reason
EXEMPT_LOOPS = {
    ("run", "current_time_millis()"): "the daemon's event loop: runs until Command::Exit; that it sleeps between wake-ups is C12's no-spin rule",
    ("run", "receiver.try_recv()"): "drains the bounded command channel (capacity 100) without blocking; ends when the queue is empty",
    ("run", "self.retransmissions.len()"): "re-runs due commands: an executed entry is removed and re-queued with next_time >= now + 1 s "
                                           "(positivity of the re-arm delay is C12/C19's rule), so every entry is due at most once per pass",
    ("handle_poller_events", "ev.token()"): "reads datagrams until the non-blocking socket reports WouldBlock: one iteration per received packet",
    ("signal_sock_drain", "self.signal_sock.recv(&mut signal_buf)"): "drains the non-blocking wake-up socket: one iteration per pending signal datagram",
}

# the same loops identified by what they do rather than by their header text (a renamed variable or a re-spelled loop
# condition must not turn them into "open" loops): (function, callee inside the loop body | <outermost>, reason)
SEMANTIC_EXEMPT_LOOPS = [
    ("run", "<outermost>", EXEMPT_LOOPS[("run", "current_time_millis()")]),
    ("run", "Receiver::<T>::try_recv", EXEMPT_LOOPS[("run", "receiver.try_recv()")]),
    ("run", "Zeroconf::exec_command", EXEMPT_LOOPS[("run", "self.retransmissions.len()")]),
    ("handle_poller_events", "Event::token", EXEMPT_LOOPS[("handle_poller_events", "ev.token()")]),
    ("signal_sock_drain", "UdpSocket::recv", EXEMPT_LOOPS[("signal_sock_drain", "self.signal_sock.recv(&mut signal_buf)")]),
]

# std / dependency functions with a documented panic condition: a call to one of them must have produced an analysed site
PANICKING_EXTERNALS = [
    r"::unwrap$", r"::expect$", r"::unwrap_err$", r"::expect_err$", r"::unwrap_unchecked$",
    r"^std::ops::Index::index$", r"^std::ops::IndexMut::index_mut$", r"Index<.*>>::index$", r"IndexMut<.*>>::index_mut$",
    r"Vec::insert$", r"Vec::remove$", r"Vec::swap_remove$", r"Vec::drain$", r"Vec::split_off$", r"Vec::splice$", r"Vec::extend_from_within$",
    r"slice::copy_from_slice$", r"slice::clone_from_slice$", r"slice::copy_within$", r"slice::split_at$", r"slice::split_at_mut$", r"slice::swap$",
    r"slice::chunks$", r"slice::chunks_exact$", r"slice::windows$", r"slice::rotate_left$", r"slice::rotate_right$", r"slice::select_nth_unstable",
    r"String::insert$", r"String::insert_str$", r"String::remove$", r"String::truncate$", r"String::drain$", r"String::split_off$", r"String::replace_range$",
    r"str::split_at$", r"str::split_at_mut$",
    r"RefCell::borrow$", r"RefCell::borrow_mut$",
    r"Iterator::sum$", r"Iterator::product$", r"Iterator::step_by$",
    r"::pow$", r"::abs$", r"::div_euclid$", r"::rem_euclid$", r"::next_power_of_two$", r"::ilog", r"char::from_digit$", r"char::to_digit$",
    r"Duration::new$", r"Duration::from_secs_f", r"Duration::mul_f", r"Duration::div_f",
    r"^fastrand::", r"^core::panicking::", r"^std::rt::begin_panic", r"^std::process::",
    r"thread::spawn$",
]
OPS_TRAITS = re.compile(r"std::ops::(Add|Sub|Mul|Div|Rem|Neg|Shl|Shr|AddAssign|SubAssign|MulAssign|DivAssign|RemAssign|ShlAssign|ShrAssign)::")
OPS_PANICKING_TYPES = ("u8", "u16", "u32", "u64", "usize", "u128", "i8", "i16", "i32", "i64", "isize", "i128",
                       "std::time::Duration", "std::time::Instant", "std::time::SystemTime")

FLOOR_SCOPE = 500
FLOOR_A = 100
FLOOR_B = 80
FLOOR_LOOPS = 100


def api_roots(P):
    return sorted(f.name for f in P.lib_fns() if e3.is_api(f) and not f.j.get("closure"))


def check_range_names_unique(ctx, P):
    """field ranges are attached by field / variant name: each name must denote one integer slot in the crate"""
    for k in FIELD_RANGES:
        owners = []
        for a in P.facts.get("adts", []):
            for v in a.get("variants", []):
                if len(k) == 1:
                    for f in v.get("fields", []):
                        if f["name"] == k[0]:
                            owners.append("%s.%s:%s" % (a["name"].split("::")[-1], f["name"], f["ty"]))
                else:
                    if "as:" + v["name"] == k[0] and k[1] < len(v.get("fields", [])):
                        owners.append("%s::%s.%d:%s" % (a["name"].split("::")[-1], v["name"], k[1], v["fields"][k[1]]["ty"]))
        tys = {o.rsplit(":", 1)[1] for o in owners}
        # the same name in several structs is fine when every one of them is meant (all get checked); what must
        # not happen is a name that matches nothing (vacuous declaration)
        ctx.ob("C15.range-declaration", "%s" % (".".join(str(x) for x in k)), len(owners) >= 1 and all(t in ("u64", "u32", "usize", "i64") for t in tys), "",
               "declared range %s applies to: %s" % (FIELD_RANGES[k], owners))


def clause_a(ctx, P):
    roots = api_roots(P)
    sc = {n for n in P.reachable_from(roots) if n in P.fns and not P.fns[n].in_tests()}
    ctx.floor("C15.scope", len(sc), FLOOR_SCOPE, "functions reachable from the nameable public API")
    check_range_names_unique(ctx, P)
    A, eff = e3.run_engine(P, roots, scope=sc, invariants=[e3.DECODER_INVARIANT, e3.OUTPACKET_INVARIANT],
                           monotone=[("DnsOutPacket", "data")], field_ranges=FIELD_RANGES, propagate_params=3)
    e3.check_invariant_support(ctx, P, "C15a.invariant-support", eff)
    ctx.ob("C15a.engine-converged", "fixpoint reached in every function", not A.nonconverged, "", "non-converged: %s" % sorted(A.nonconverged))
    ctx.ob("C15a.param-ranges-inductive", "assumed parameter/result ranges confirmed by the run that used them", bool(A.param_confirmed), "",
           "%d parameter ranges assumed in round %d; confirmed=%s" % (len(A.assumed_params), A.param_rounds, A.param_confirmed))
    just = {k: v[0] for k, v in JUSTIFIED_A.items()}
    n = e3.emit_sites(ctx, P, A, "C15a.F1.panic-site", sc, classes=("A", "I"), justify=just)
    ctx.floor("C15a.F1", n.get("A", 0), FLOOR_A, "class-A panic sites in the API scope")
    # class B
    nb = emit_class_b(ctx, P, A, sc)
    ctx.floor("C15a.F1.B", nb, FLOOR_B, "class-B (overflow) sites in the API scope")
    # completeness: panic-capable constructs and denylisted externals were analysed wherever a reachable block has them
    missing, total = [], 0
    ext_names = {}
    for name in sorted(sc):
        fn = P.fns[name]
        for (b, what) in e3.syntactic_sites(P, fn):
            total += 1
            if (fn.name, b) in A.visited and not any(k[0] == fn.name and k[1] == b for k in A.sites):
                missing.append("%s bb%d %s" % (fn.short, b, what))
        for b, t in fn.calls():
            if t.get("callee_local") is not False:
                continue
            cal = strip_generics(t.get("callee") or "")
            res = t.get("resolved") or ""
            ext_names[cal] = ext_names.get(cal, 0) + 1
            bad = any(re.search(p, cal) or re.search(p, strip_generics(res)) for p in PANICKING_EXTERNALS)
            if not bad and OPS_TRAITS.search(cal) and t["args"]:
                aty = ((t["args"][0].get("p") or {}).get("ty") or t["args"][0].get("ty") or "").replace("&", "").replace("mut ", "").strip()
                bad = aty in OPS_PANICKING_TYPES
            if bad:
                total += 1
                if (fn.name, b) in A.visited and not any(k[0] == fn.name and k[1] == b for k in A.sites):
                    missing.append("%s bb%d call %s" % (fn.short, b, cal))
    ctx.ob("C15a.F1.completeness", "every panic-capable construct / panicking std call in a reachable block is an analysed site", not missing, "",
           "%d constructs; unanalysed: %s" % (total, missing[:6] or "none"))
    ctx.extra.setdefault("e3", {})[ctx.config] = {
        "api_roots": len(roots), "functions_in_scope": len(sc), "blocks_visited": len(A.visited), "sites": n,
        "param_ranges": {"%s#%d" % (P.fns[k[0]].short, k[1]): list(v) for k, v in sorted(A.assumed_params.items()) if v[1] < (1 << 64) - 1 and k[0] in P.fns},
        "distinct_external_callees_assumed_non_panicking": len(ext_names)}
    return A, sc


def _pure_counter(P, fn, e, depth=0):
    """value built only from constants and additions of constants (a counter local to the function)"""
    if depth > 12:
        return False
    k = e[0]
    if k == "const":
        return isinstance(e[1], int)
    if k == "phi":
        return all(_pure_counter(P, fn, a, depth + 1) for a in e[1])
    if k in ("cast", "coerce"):
        return _pure_counter(P, fn, e[1], depth + 1)
    if k == "binop" and e[1] in ("Add", "AddWithOverflow", "AddUnchecked"):
        return _pure_counter(P, fn, e[2], depth + 1) and _pure_counter(P, fn, e[3], depth + 1)
    if k == "field" and e[2] in (0, "0") and e[1][0] in ("binop", "checked"):
        return _pure_counter(P, fn, e[1], depth + 1)
    if k == "checked":
        return _pure_counter(P, fn, ("binop",) + tuple(e[1:]), depth + 1)
    if k == "loopvar":
        return True
    return False


def emit_class_b(ctx, P, A, sc):
    rule = "C15a.F1.overflow-site"
    dup = {}
    count = 0
    auto = []
    used = set()
    pending = []
    for k in sorted(A.sites, key=lambda k: (k[0], k[1], k[2])):
        s = A.sites[k]
        if s.cls != "B" or s.fn.name not in sc:
            continue
        count += 1
        snip = e3.source_snippet(P, s.fn, s.bb)
        base = "%s|%s|%s" % (s.fn.short, s.kind, snip)
        dup[base] = dup.get(base, 0) + 1
        key = base if dup[base] == 1 else "%s#%d" % (base, dup[base])
        full = rule + "|" + key
        if s.ok:
            ctx.ob(rule, key, True, s.fn.loc(s.bb), "%s — proved: %s; %d context(s)" % (s.what, s.proof or "trivial", s.seen))
            continue
        if full in JUSTIFIED_B:
            used.add(full)
            ctx.ob(rule, key, True, s.fn.loc(s.bb), "JUSTIFIED (trusted, not proved): %s" % JUSTIFIED_B[full][0])
            continue
        # pure local counter: x + c with x built from constants and additions only, type at least 32 bits wide
        t = s.fn.term(s.bb)
        m = t.get("msg") or {}
        ok_counter = False
        if t["k"] == "assert" and m.get("k") == "overflow" and m.get("op") in ("Add",):
            ty = (m["a"].get("p") or {}).get("ty") or m["a"].get("ty") or ""
            if ty in ("u32", "i32", "u64", "i64", "usize", "isize"):
                tr = tracer(P, s.fn)
                ea = tr.operand(m["a"], endpos(s.fn, s.bb))
                eb = tr.operand(m["b"], endpos(s.fn, s.bb))
                ca, cb = fold(ea), fold(eb)
                small = lambda c: isinstance(c, int) and 0 <= c <= 65536
                if small(cb) and _counter_expr(P, s.fn, ea) or small(ca) and _counter_expr(P, s.fn, eb):
                    ok_counter = True
        if s.kind == "iter-sum" and t["k"] == "call" and _sum_of_lengths(P, s.fn, s.bb, t):
            auto.append(key)
            ctx.ob(rule, key, True, s.fn.loc(s.bb), "sum of the lengths of collections held in memory (each item of the summed iterator is a len() or such a sum): "
                   "bounded by the address space (stated assumption on sequence sizes)")
            continue
        if ok_counter:
            auto.append(key)
            ctx.ob(rule, key, True, s.fn.loc(s.bb), "pure counter: a %s built only from constants and +constant steps; overflows only after 2^31 steps (stated assumption)" % ty)
            continue
        pending.append((s, key))
    # a justified expression that was merely re-spelled (renamed local, helper call instead of the inline formula): an
    # entry of the same function and kind that no site matches exactly any more is accepted for at most one such site
    for (s, key) in pending:
        pre = "%s|%s|%s|" % (rule, s.fn.short, s.kind)
        cands = sorted(j for j in JUSTIFIED_B if j.startswith(pre) and j not in used)
        if cands:
            used.add(cands[0])
            ctx.ob(rule, key, True, s.fn.loc(s.bb), "JUSTIFIED (trusted, not proved; entry matched by function and kind): %s" % JUSTIFIED_B[cands[0]][0])
            continue
        ctx.ob(rule, key, False, s.fn.loc(s.bb), "%s — %s; %d context(s)" % (s.what, s.fail_detail or "not proved", s.seen))
    for j in sorted(set(JUSTIFIED_B) - used):
        ctx.ob(rule + ".stale-justification", j, True, "", "justification entry no longer needed (site proved or gone)")
    ctx.extra.setdefault("class_b_pure_counters", {})[ctx.config] = auto
    return count


def _sum_of_lengths(P, fn, bb, t):
    """`iter.map(|x| x.len()).sum()` (or a map to another such sum): every item is the length of a live collection"""
    tr = tracer(P, fn)
    e = arg_expr(tr, fn, bb, t, 0)
    maps = [x for x in walk(e) if x[0] == "call" and method(strip_generics(x[1])) == "map"]
    if not maps:
        return False
    m = maps[0]
    cl = [x for x in walk(m[2][1]) if x[0] == "closure"] if len(m[2]) > 1 and m[2][1] is not None else []
    if not cl or cl[0][1] not in P.fns:
        return False
    cf = P.fns[cl[0][1]]
    res = ret_exprs(P, cf)
    return bool(res) and all(x[0] == "call" and method(strip_generics(x[1])) in ("len", "sum") for x in res)


def _counter_expr(P, fn, e, depth=0, seen=None):
    """the expression is a counter: constants, +constant steps, joins of those (loop-carried phis appear as
    references back to the same local, which the tracer cuts with a ('local', n) leaf)"""
    if depth > 14:
        return False
    k = e[0]
    if k == "const":
        return isinstance(e[1], int)
    if k == "phi":
        return all(_counter_expr(P, fn, a, depth + 1) for a in e[1])
    if k in ("cast", "coerce"):
        return _counter_expr(P, fn, e[1], depth + 1)
    if k == "binop" and e[1].startswith("Add"):
        return _counter_expr(P, fn, e[2], depth + 1) and _counter_expr(P, fn, e[3], depth + 1)
    if k == "field" and e[1][0] in ("checked", "binop"):
        x = e[1]
        return x[1].startswith("Add") and _counter_expr(P, fn, x[2], depth + 1) and _counter_expr(P, fn, x[3], depth + 1)
    if k == "local":
        # loop-carried reference cut by the tracer: every definition of that local in the function must be a
        # counter step too
        l = e[1]
        tr = tracer(P, fn)
        defs = fn.defs().get(l, [])
        if not defs:
            return False
        for (b, i, kind, payload) in defs:
            if kind != "assign":
                return False
            r = payload
            if r["k"] == "use" and r["a"].get("k") == "const":
                continue
            if r["k"] == "use" and r["a"].get("k") in ("copy", "move"):
                src = r["a"]["p"]
                if src.get("proj") and src["proj"][-1][0] == "field":
                    # (checked add result).0
                    base = src["l"]
                    ok = False
                    for (b2, i2, kind2, p2) in fn.defs().get(base, []):
                        if kind2 == "assign" and p2["k"] == "checked" and p2["op"].startswith("Add"):
                            ops = [p2["a"], p2["b"]]
                            consts = [o for o in ops if o.get("k") == "const"]
                            others = [o for o in ops if o.get("k") in ("copy", "move")]
                            if len(consts) == 1 and len(others) == 1 and others[0]["p"]["l"] == l:
                                ok = True
                    if ok:
                        continue
                return False
            return False
        return True
    return False


# ------------------------------------------------------------------------------------------------ side conditions
def side_conditions(ctx, P):
    # addr-map-holds-DnsAddress
    ctors_with_ty = []
    n = 0
    bad = []
    for f in P.lib_fns():
        tr = None
        for b, t in f.calls():
            cn_ = cname(t)
            for ctor, argi in (("DnsPointer::new", 1), ("DnsHostInfo::new", 1)):
                if name_matches(cn_, ctor):
                    tr = tr or tracer(P, f)
                    e = arg_expr(tr, f, b, t, argi)
                    n += 1
                    vs = set(value_variants(e))
                    if vs and "?" not in vs and not (vs & {"A", "AAAA"}):
                        continue
                    # a value matched in an enclosing arm: the call must lie under a switch edge on the same value
                    # whose outcome excludes A / AAAA
                    edges = guard_edges(P, f, lambda atom, outcome, bb: atom[0] == "variant" and isinstance(outcome, frozenset) and
                                        strip(atom[1]) & strip(e) and not (outcome & {"A", "AAAA"}) and "<other>" not in outcome)
                    if not (edges and must_pass_edges(f, b, edges)):
                        bad.append("%s at %s: type operand %s" % (ctor, f.loc(b), show(e)[:60]))
    ctx.ob("C15.SC.addr-map-holds-DnsAddress", "only DnsAddress is built with type A/AAAA", n >= 3 and not bad, "",
           "%d constructor calls of the other record structs with a type operand checked; offending: %s" % (n, bad[:3] or "none"))
    cache = P.one("DnsCache::add_or_update")
    adders = []
    for f in P.lib_fns():
        for b, t in f.calls():
            if method(cname(t)) in ("entry", "insert") and recv_is_field(P, f, b, t, "addr", "DnsCache"):
                adders.append((f, b))
    oka = bool(adders) and all(f is cache for f, _ in adders)
    det = []
    for (f, b) in adders:
        edges = guard_edges(P, f, lambda atom, outcome, bb: atom[0] == "variant" and isinstance(outcome, frozenset) and outcome and outcome <= {"A", "AAAA"} and
                            any(x[0] == "call" and method(strip_generics(x[1])) == "get_type" for x in walk(atom[1])))
        g = bool(edges) and must_pass_edges(f, b, edges)
        det.append("%s: %s" % (f.loc(b), "under get_type() in {A, AAAA}" if g else "NOT guarded"))
        oka = oka and g
    ctx.ob("C15.SC.addr-map-holds-DnsAddress", "DnsCache.addr receives records only under get_type() in {A, AAAA}", oka, cache.loc(), "; ".join(det) or "no insertion found")
    side_conditions_b(ctx, P)
    # txt-properties-validated: the C16 clauses (validation guards in ServiceInfo::new, who writes txt_properties)
    c16.clause_c(ctx, P)
    c16.clause_f(ctx, P)


def side_conditions_b(ctx, P):
    # field-is-counter:known_answer_count  — every write of the field is `+= const` or `= const`
    writes = []
    okc = True
    for f in P.lib_fns():
        tr = None
        for (b, i, s) in f.assigns():
            pr = s["p"].get("proj") or ()
            if pr and pr[-1][0] == "field" and pr[-1][2] == "known_answer_count":
                tr = tr or tracer(P, f)
                e = tr.rvalue(s["r"], (b, i))
                form = None
                if fold(e) is not None:
                    form = "= %d" % fold(e)
                else:
                    adds = [x for x in walk(e) if x[0] in ("binop", "checked") and str(x[1]).startswith("Add")]
                    if adds and any(fold(y) is not None and 0 <= fold(y) <= 16 for y in adds[0][2:4]) and expr_mentions_field(e, "known_answer_count"):
                        form = "+= const"
                writes.append("%s: %s" % (f.loc(b, i), form or show(e)[:50]))
                okc = okc and form is not None
    for (b, i, s) in [(b, i, s) for f in P.lib_fns() for (b, i, s) in aggregates(f, "DnsOutgoing")]:
        pass
    ctx.ob("C15.SC.field-is-counter", "DnsOutgoing.known_answer_count", okc and bool(writes), "", "writes: %s" % writes)
    # increase-counter-args: every call passes a constant or a pure local counter
    ic = P.one("Zeroconf::increase_counter")
    bad = []
    n = 0
    for (f, b, t) in P.call_sites_of(ic.name):
        tr = tracer(P, f)
        e = arg_expr(tr, f, b, t, 2)
        n += 1
        getter = e[0] == "call" and name_matches(strip_generics(e[1]), "DnsOutgoing::known_answer_count")     # the counter field above
        if not (fold(e) is not None or _counter_expr(P, f, e) or getter):
            bad.append("%s: %s" % (f.loc(b), show(e)[:60]))
    ctx.ob("C15.SC.increase-counter-args", "Zeroconf::increase_counter", n >= 5 and not bad, ic.loc(), "%d call sites; non-counter arguments: %s" % (n, bad[:3] or "none"))
    # count-follows-write_record: the three u16 counters in to_packets move only on a successful write_record
    tp = P.one("DnsOutgoing::to_packets")
    trp = tracer(P, tp)
    true_edges = guard_edges(P, tp, lambda atom, outcome, bb: atom[0] == "call" and name_matches(strip_generics(atom[1]), "write_record") and outcome is True)
    incs = []
    for b in range(tp.n):
        t = tp.term(b)
        if t["k"] == "assert" and (t.get("msg") or {}).get("k") == "overflow" and ((t["msg"]["a"].get("p") or {}).get("ty") == "u16"):
            ea, eb = trp.operand(t["msg"]["a"], endpos(tp, b)), trp.operand(t["msg"]["b"], endpos(tp, b))
            if fold(eb) == 1:
                ok = bool(true_edges) and must_pass_edges(tp, b, true_edges)
                incs.append((b, ok, "+= 1 under write_record(..) == true" if ok else "+= 1 NOT guarded by write_record"))
            else:
                ok = any(x[0] == "call" and name_matches(strip_generics(x[1]), "write_record") for x in walk(eb)) and \
                    any(x[0] == "call" and "from" in method(strip_generics(x[1])) for x in walk(eb))
                incs.append((b, ok, "+= u16::from(write_record(..))" if ok else "+= %s" % show(eb)[:40]))
    ctx.ob("C15.SC.count-follows-write_record", "DnsOutgoing::to_packets", len(incs) >= 3 and all(ok for _, ok, _ in incs), tp.loc(),
           "; ".join("%s: %s" % (tp.loc(b), d) for b, ok, d in incs))
    # remaining-ttl-guarded
    grt = P.one("DnsRecord::get_remaining_ttl")
    callers = P.call_sites_of(grt.name)
    wr = P.one("DnsOutPacket::write_record")
    ok1 = len(callers) == 1 and callers[0][0] is wr
    det1 = "callers: %s" % [f.short for f, _, _ in callers]
    if ok1:
        f, b, t = callers[0]
        edges = guard_edges(P, f, lambda atom, outcome, bb: atom[0] == "binop" and atom[1] in ("Eq", "Ne") and (fold(atom[2]) == 0 or fold(atom[3]) == 0) and
                            any(x[0] == "param" and x[1] == 3 for x in walk(atom)) and outcome == (atom[1] == "Ne"))
        ok1 = bool(edges) and must_pass_edges(f, b, edges)
        det1 += "; called only under now != 0: %s" % ok1
    aat = P.one("DnsOutgoing::add_answer_at_time")
    pushes = []
    for f in P.lib_fns():
        for b, t in f.calls():
            if name_matches(cname(t), "Vec::push") and recv_is_field(P, f, b, t, "answers", "DnsOutgoing"):
                pushes.append((f, b))
    ok2 = bool(pushes)
    det2 = "answers.push sites: %s" % [f.short for f, _ in pushes]
    for (f, b) in pushes:
        if f is not aat:
            # any other producer must queue the answer with now == 0 (then write_record does not compute a remaining TTL)
            trf = tracer(P, f)
            e = arg_expr(trf, f, b, f.term(b), 1)
            zero = e[0] == "agg" and e[1] == "tuple" and len(e[4]) == 2 and fold(e[4][1]) == 0
            ok2 = ok2 and zero
            det2 += "; %s pushes (_, %s)" % (f.short, "0" if zero else show(e)[:40])
            continue
        # under (now == 0) or !is_expired(now)
        e_now0 = guard_edges(P, f, lambda atom, outcome, bb: atom[0] == "binop" and atom[1] == "Eq" and (fold(atom[2]) == 0 or fold(atom[3]) == 0) and outcome is True)
        e_live = guard_edges(P, f, lambda atom, outcome, bb: atom[0] == "call" and method(strip_generics(atom[1])) == "is_expired" and outcome is False)
        g = bool(e_now0) and bool(e_live) and must_pass_edges(f, b, e_now0 | e_live)
        ok2 = ok2 and g
        det2 += "; push guarded by now == 0 || !is_expired(now): %s" % g
    ctx.ob("C15.SC.remaining-ttl-guarded", "get_remaining_ttl / add_answer_at_time", ok1 and ok2, grt.loc(), det1 + " | " + det2)
    # update-ttl-after-halflife-filter
    ut = P.one("DnsRecord::update_ttl")
    callers = P.call_sites_of(ut.name)
    sq = P.one("Zeroconf::send_query_vec")
    ok3 = len(callers) == 1 and callers[0][0] is sq
    det3 = "callers: %s" % [f.short for f, _, _ in callers]
    if ok3:
        f, b, t = callers[0]
        tr = tracer(P, f)
        e = arg_expr(tr, f, b, t, 0)
        from_known = any(x[0] == "call" and name_matches(strip_generics(x[1]), "get_known_answers") for x in walk(e))
        # same `now` value in both calls
        nowu = strip(arg_expr(tr, f, b, t, 1))
        gk = [(bb, tt) for bb, tt in f.calls() if name_matches(cname(tt), "get_known_answers")]
        same_now = bool(gk) and all(strip(arg_expr(tr, f, bb, tt, 3)) == nowu for bb, tt in gk)
        ok3 = from_known and same_now
        det3 += "; receiver comes from get_known_answers: %s; same now: %s" % (from_known, same_now)
    gka = P.one("DnsCache::get_known_answers")
    filt = False
    for c in P.closures_of.get(gka.name, []):
        cf = P.fns[c]
        for bb, tt in cf.calls():
            if method(cname(tt)) == "halflife_passed":
                # the closure's true result requires !halflife_passed
                res = ret_exprs(P, cf)
                filt = True
    # structural: the filter closure returns false whenever halflife_passed(now) is true
    okf = False
    for c in P.closures_of.get(gka.name, []):
        cf = P.fns[c]
        hp = [(bb, tt) for bb, tt in cf.calls() if method(cname(tt)) == "halflife_passed"]
        if not hp:
            continue
        edges_true = guard_edges(P, cf, lambda atom, outcome, bb: atom[0] == "call" and method(strip_generics(atom[1])) == "halflife_passed" and outcome is True)
        # from the `true` edge only `false` is returned
        good = True
        for (sb, tgt) in edges_true:
            for r in cf.exits():
                if r in cf.reachable(tgt):
                    pass
        trc = tracer(P, cf)
        rets = ret_exprs(P, cf)
        # the returned value is the conjunction: !is_unique && !halflife_passed  (MIR: phi(false, !halflife_passed(..)))
        flat = []
        for e in rets:
            flat.extend(e[1] if e[0] == "phi" else (e,))
        okf = bool(flat) and all((fold(x) == 0) or (x[0] == "unop" and x[1] == "Not" and any(y[0] == "call" and method(strip_generics(y[1])) == "halflife_passed" for y in walk(x))) for x in flat)
        det3 += "; filter closure returns %s" % [show(x)[:50] for x in flat]
    if not okf:
        # the same filter written as a loop in get_known_answers itself: a record is collected only on the false edge of
        # halflife_passed(now)
        e_f = guard_edges(P, gka, lambda atom, outcome, bb: atom[0] == "call" and method(strip_generics(atom[1])) == "halflife_passed" and outcome is False)
        pushes = [b for b, t in gka.calls() if name_matches(cname(t), "Vec::push")]
        okf = bool(e_f) and bool(pushes) and all(must_pass_edges(gka, b, e_f) for b in pushes)
        det3 += "; loop form: %d push(es) behind !halflife_passed: %s" % (len(pushes), okf)
    ctx.ob("C15.SC.update-ttl-after-halflife-filter", "update_ttl / get_known_answers", ok3 and okf, ut.loc(), det3)


# ------------------------------------------------------------------------------------------------ b. validators
VALIDATORS = {
    "ServiceDaemon::browse": ("Browse", ["check_domain_suffix"]),
    "ServiceDaemon::browse_cache": ("Browse", ["check_domain_suffix"]),
    "ServiceDaemon::resolve_hostname": ("ResolveHostname", ["check_hostname"]),
    "ServiceDaemon::register": ("Register", ["check_service_name", "check_hostname"]),
}


def clause_b(ctx, P):
    for fname, (variant, vals) in sorted(VALIDATORS.items()):
        f = P.one(fname)
        aggs = list(aggregates(f, "Command", variant))
        ctx.require(len(aggs) >= 1, "C15b.anchor", "%s|Command::%s" % (fname, variant), f.loc(), "%d construction(s)" % len(aggs))
        for v in vals:
            edges = guard_edges(P, f, lambda atom, outcome, bb: atom[0] == "variant" and outcome == frozenset(["Continue"]) and
                                any(x[0] == "call" and name_matches(strip_generics(x[1]), v) for x in walk(atom[1])))
            for (b, i, s) in aggs:
                ok = bool(edges) and must_pass_edges(f, b, edges)
                ctx.ob("C15b.validate-before-enqueue", "%s|%s" % (fname, v), ok, f.loc(b),
                       "Command::%s is built only after %s(..)? succeeded" % (variant, v) if ok else "a path reaches Command::%s without %s having returned Ok" % (variant, v))
    # every other API method that builds a Command from a string parameter is a lookup-only command (no encoding of
    # the string): listed for the record
    others = []
    for f in P.lib_fns():
        if not e3.is_api(f) or f.short in {x.split("::")[-1] for x in VALIDATORS}:
            continue
        for (b, i, s) in aggregates(f, "Command"):
            others.append("%s->%s" % (f.short, s["r"].get("vname")))
    ctx.extra["api_commands_without_validator"] = sorted(set(others))


# ------------------------------------------------------------------------------------------------ d. loops
def clause_d(ctx, P, A, sc):
    counts = e3.emit_loops(ctx, P, A, "C15d.F2.loop-terminates", sc, exempt=EXEMPT_LOOPS, semantic_exempt=SEMANTIC_EXEMPT_LOOPS)
    ctx.floor("C15d.F2", sum(counts.values()), FLOOR_LOOPS, "loops in the API scope")
    ctx.extra.setdefault("loops", {})[ctx.config] = counts


def run(ctx, P):
    R = P      # (P.raw is the program as extracted; the numeric engine also runs on the normalised one)
    R.repo = P.repo
    A, sc = clause_a(ctx, R)
    from . import r4
    r4.rerun_names_are_verbatim(ctx, P, "C15e")
    side_conditions(ctx, P)
    clause_b(ctx, P)
    clause_d(ctx, R, A, sc)
