"""F6 timer pairing and F7 no-spin.

Pending-time state (table, confirmed by reading; the poll timeout is `earliest timer - now`, so work due at t is done
at t on a silent network iff a timer <= t is on the heap):
  ReRun.next_time (Zeroconf.retransmissions), Probe.next_send, cached DnsRecord.expires / .refresh,
  the deadline in hostname_resolvers, next_ip_check in run.
"""
from .lib import *

TIMER_PUSH = ("Zeroconf::add_timer",)


def is_timer_push(P, fn, b, t):
    """kind of a push of a time value: 'timers' (the heap), 'carrier:<what>' or None"""
    n = cname(t)
    if name_matches(n, "Zeroconf::add_timer"):
        return "timers"
    if name_matches(n, "BinaryHeap::push"):
        return "timers"
    if n == "std::vec::Vec::push" and (t.get("gargs") or [""])[0] == "u64":
        if recv_mentions(P, fn, b, t, "new_timers", "DnsRegistry"):
            return "carrier:new_timers"
        return "carrier:vec"
    if name_matches(n, "HashSet::insert") and (t.get("gargs") or [""])[0] == "u64":
        return "carrier:set"
    return None


def push_sites(P, fn):
    out = []
    tr = tracer(P, fn)
    for b, t in fn.calls():
        k = is_timer_push(P, fn, b, t)
        if k and len(t["args"]) > 1:
            out.append((b, k, tr.operand(t["args"][1], endpos(fn, b))))
    return out


def closure_drains(P, fn, mentions):
    """blocks of `fn` that hand a whole collection to the timer heap through a closure:
    `coll.into_iter().for_each(|t| self.add_timer(t))` (and iter()/drain(..) variants).  `mentions(expr)` says whether
    an expression is (an iteration over) the collection in question."""
    out = []
    tr = tracer(P, fn)
    for b, t in fn.calls():
        if method(cname(t)) != "for_each" or len(t["args"]) < 2:
            continue
        src = tr.operand(t["args"][0], endpos(fn, b))
        if not mentions(src):
            continue
        if any(x[0] == "call" and method(strip_generics(x[1])) in ("take", "skip", "filter", "step_by", "take_while", "skip_while", "filter_map") for x in walk(src)):
            continue
        cls = [x for x in walk(tr.operand(t["args"][1], endpos(fn, b))) if x[0] == "closure" and x[1] in P.fns]
        for c in cls:
            cf = P.fns[c[1]]
            ctr = tracer(P, cf)
            pushes = []
            for cb, ct in cf.calls():
                k = is_timer_push(P, cf, cb, ct)
                if k == "timers" and len(ct["args"]) > 1:
                    e = ctr.operand(ct["args"][1], endpos(cf, cb))
                    if any(x[0] == "param" and x[1] >= 2 for x in walk(e)):
                        pushes.append(cb)
            # unconditional inside the closure
            if pushes and all(any(cf.dominates(pb, r) for pb in pushes) for r in cf.exits()):
                out.append(b)
    return out


def _reads_field(e, field):
    return any(x[0] == "field" and x[2] == field for x in walk(e))


def _unavoidable(fn, start_bb, push_blocks, bypass=(), include_loop_head=True):
    """every path from the end of start_bb to a return (or to the next iteration of the innermost loop around
    start_bb) passes one of push_blocks"""
    push_blocks = set(push_blocks)
    if start_bb in push_blocks:
        return True
    targets = set(fn.exits())
    if include_loop_head:
        loops = fn.loops()
        heads = [h for h, body in loops.items() if start_bb in body]
        if heads:
            targets.add(min(heads, key=lambda h: len(loops[h])))
    for s in fn.succs(start_bb):
        if (start_bb, s) in bypass or s in push_blocks:
            continue
        reach = fn.reachable(s, removed_blocks=push_blocks, removed_edges=bypass)
        if reach & targets:
            return False
    return True


def _false_result_edges(P, fn, cb):
    """edges taken when the result of the call in cb says 'nothing armed': bool false / Option None"""
    e1 = guard_edges(P, fn, lambda atom, outcome, bb: outcome is False and any(x[0] == "call" and x[3] == (fn.name, cb) for x in strip(atom)))
    e2 = guard_edges(P, fn, lambda atom, outcome, bb: atom[0] == "variant" and outcome == frozenset(["None"]) and any(x[0] == "call" and x[3] == (fn.name, cb) for x in strip(atom[1])))
    return e1 | e2


class Pairing:
    def __init__(self, ctx, P, rule):
        self.ctx, self.P, self.rule = ctx, P, rule
        self.done = set()

    def field_write_sites(self, owner, field):
        """[(fn, bb, idx, kind, value_expr)] direct writes and constructions"""
        P = self.P
        out = []
        for (f, b, i, s) in field_writes(P, owner, field):
            if is_derived_impl(f) or s["p"]["proj"][-1][2] != field:
                continue
            out.append((f, b, i, "assign", tracer(P, f).rvalue(s["r"], (b, i))))
        for (f, b, i, s) in all_aggregates(P, owner):
            names = s["r"].get("fields") or []
            if field in names:
                out.append((f, b, i, "construct", tracer(P, f).operand(s["r"]["ops"][names.index(field)], (b, i))))
        return out

    def paired_here(self, fn, bb, field, value, extra_vals=(), bypass=(), result_of=None):
        pushes = push_sites(self.P, fn)
        good = []
        if result_of is not None:
            # the callee hands the new time back (Option<u64> / u64): a push of that result pairs it
            for (pb, kind, e) in pushes:
                inner = set()
                for a in strip(e):
                    inner.add(a)
                    if a[0] == "agg" and a[4]:
                        for o in a[4]:
                            inner |= set(strip(o))
                for a in inner:
                    base = a
                    while base[0] == "payload":
                        base = base[1]
                    if any(x[0] == "call" and x[3] == result_of for x in strip(base)):
                        good.append((pb, kind))
        vals = set(strip(value)) if value is not None else set()
        for ev in extra_vals:
            vals |= set(strip(ev))
        for (pb, kind, e) in pushes:
            alts = set(strip(e))
            inner = set()
            for a in alts:
                # Reverse(v) aggregate
                if a[0] == "agg" and a[4]:
                    for o in a[4]:
                        inner |= set(strip(o))
            alts |= inner
            if _reads_field(e, field) or (vals and alts & vals):
                good.append((pb, kind))
        if not good:
            return False, None
        ok = _unavoidable(fn, bb, [pb for pb, _k in good], bypass=bypass)
        if not ok:
            # the same time pushed on the heap just BEFORE the write (the two statements in the other order): a push of the
            # matching value that dominates the site pairs it as well
            ok = any(pb != bb and fn.dominates(pb, bb) for pb, _k in good)
        return ok, sorted({k for _pb, k in good})

    def check_site(self, fn, bb, idx, field, value, what, depth=0, origin_desc=None):
        """obligation for one write site; lifts to call sites when the function is a setter/constructor"""
        key = "%s|%s" % (fn.name, what)
        origin_desc = origin_desc or ("write of %s in %s" % (field, fn.name))
        ok, kinds = self.paired_here(fn, bb, field, value)
        if ok:
            self.ctx.ob(self.rule + ".F6.timer-paired", key, True, fn.loc(bb, idx),
                        "%s: every path to the exit pushes the time on %s" % (origin_desc, "/".join(kinds)))
            return
        # lift to call sites
        sites = self.lift_sites(fn)
        if depth >= 3 or not sites:
            self.ctx.ob(self.rule + ".F6.timer-paired", key, False, fn.loc(bb, idx),
                        "%s is not followed by a push on the timer heap (or a carrier) on every path, and cannot be lifted to a caller" % origin_desc)
            return
        ord_ = {}
        for (g, cb, t) in sites:
            ord_[g.name] = ord_.get(g.name, 0) + 1
            gtr = tracer(self.P, g)
            args = [gtr.operand(a, endpos(g, cb)) for a in t["args"]]
            bypass = _false_result_edges(self.P, g, cb)
            ok, kinds = self.paired_here(g, cb, field, None, extra_vals=args, bypass=bypass, result_of=(g.name, cb))
            k2 = "%s|%s via %s#%d" % (g.name, what, fn.short if not fn.is_closure else fn.name.split("::")[-2] + "::{closure}", ord_[g.name])
            if ok:
                self.ctx.ob(self.rule + ".F6.timer-paired", k2, True, g.loc(cb),
                            "%s, called here: the caller pushes the time on %s on every path" % (origin_desc, "/".join(kinds)))
            else:
                # lift once more if the caller just forwards the object
                if not g.is_closure and depth + 1 < 3 and self.lift_sites(g) and self._returns_flag(g):
                    self.check_site(g, cb, None, field, None, what + " via " + fn.short, depth + 1, origin_desc)
                else:
                    self.ctx.ob(self.rule + ".F6.timer-paired", k2, False, g.loc(cb),
                                "%s, called here, is not followed by a push of the new time on the timer heap or a carrier: "
                                "on a silent network nothing wakes the daemon when it falls due" % origin_desc)

    def _returns_flag(self, g):
        """the function reports to its caller whether a timer is needed (bool) or hands back times"""
        return (g.ret or "") in ("bool",) or "u64" in (g.ret or "")

    def receiving_calls(self, closure_fn):
        """calls in the (non-closure) ancestor that receive this closure as an argument"""
        parent = self.P.fns.get(closure_fn.name.rsplit("::{closure", 1)[0])
        if parent is None:
            return []
        out = []
        ptr = tracer(self.P, parent)
        for b, t in parent.calls():
            for a in t["args"]:
                e = ptr.operand(a, endpos(parent, b))
                if any(x[0] == "closure" and x[1] == closure_fn.name for x in strip(e)):
                    out.append((parent, b, t))
        if parent.is_closure:
            # nested closure: relocate further up
            res = []
            for (p_, b, t) in out:
                res.extend(self.receiving_calls(p_))
            return res
        return out

    def lift_sites(self, fn):
        if fn.is_closure:
            return self.receiving_calls(fn)
        out = []
        for (g, cb, t) in self.P.call_sites_of(fn.name):
            if g.in_tests():
                continue
            if g.is_closure:
                out.extend(self.receiving_calls(g))
            else:
                out.append((g, cb, t))
        return out


def check_timer_pairing_fn(ctx, P, rule, fnname):
    """F6 for Probe.next_send restricted to the writes inside `fnname` and in setters it calls"""
    fn = P.one(fnname)
    pr = Pairing(ctx, P, rule)
    n = 0
    scope = {fn.name} | set(P.closures_of.get(fn.name, []))
    for (f, b, i, kind, val) in pr.field_write_sites("service_info::Probe", "next_send"):
        if f.name in scope:
            n += 1
            pr.check_site(f, b, i, "next_send", val, "Probe.next_send#%d" % n)
    # calls from this function (or its closures) to functions that write next_send
    writers = {f.name for (f, b, i, kind, val) in pr.field_write_sites("service_info::Probe", "next_send")}
    ctors = {"service_info::Probe::new"}
    for sname in sorted(scope):
        g = P.fns[sname]
        for b, t in g.calls():
            tg = set(P.call_targets(t))
            if tg & (writers | ctors) and not (tg & scope):
                callee = sorted(tg & (writers | ctors))[0]
                cf = P.fns[callee]
                for (f, wb, wi, kind, val) in pr.field_write_sites("service_info::Probe", "next_send"):
                    if f is cf:
                        n += 1
                        _check_call_site(pr, g, b, t, cf, "next_send", "Probe.next_send via %s" % cf.short)
                        break
    # calls to functions returning a "timer needed" flag (update_hostname idiom)
    for sname in sorted(scope):
        g = P.fns[sname]
        for b, t in g.calls():
            if name_matches(cname(t), "DnsRegistry::update_hostname"):
                n += 1
                _check_call_site(pr, g, b, t, P.one("DnsRegistry::update_hostname"), "next_send", "Probe.next_send via update_hostname")
    ctx.floor(rule + ".F6.sites", n, 1, "pending-time writes in " + fnname)


def _check_call_site(pr, g, cb, t, callee, field, what):
    P = pr.P
    if g.is_closure:
        # the write happens when the closure runs: treat the parent call receiving the closure as the site
        parent = P.fns.get(g.name.rsplit("::{closure", 1)[0])
        ptr = tracer(P, parent)
        for b, tt in parent.calls():
            for a in tt["args"]:
                e = ptr.operand(a, endpos(parent, b))
                if any(x[0] == "closure" and x[1] == g.name for x in strip(e)):
                    _check_call_site(pr, parent, b, tt, callee, field, what)
                    return
        pr.ctx.ob(pr.rule + ".F6.timer-paired", "%s|%s" % (g.name, what), False, g.loc(cb), "closure call site cannot be located")
        return
    gtr = tracer(P, g)
    args = [gtr.operand(a, endpos(g, cb)) for a in t["args"]]
    bypass = _false_result_edges(P, g, cb)
    ok, kinds = pr.paired_here(g, cb, field, None, extra_vals=[a for a in args if _is_time_like(a)], bypass=bypass)
    key = "%s|%s" % (g.name, what)
    pr.ctx.ob(pr.rule + ".F6.timer-paired", key, ok, g.loc(cb),
              ("after %s the new time is pushed on %s on every path" % (callee.short, "/".join(kinds))) if ok else
              ("%s moves a probe's next_send, but no push of that time on the timer heap (or a carrier) follows on every path: "
               "on a silent network nothing wakes the daemon when the probe falls due" % callee.short))


def _is_time_like(e):
    return has_call(e, "current_time_millis") or any(x[0] == "param" for x in strip(e))
