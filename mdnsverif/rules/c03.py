"""C03 — A resolved service only ever shows live data that was actually received."""
from .lib import *
from . import c05
from .f12 import norm_cmp, expect_cmp, poly, F, P1, P2

EXPLANATION = (
    "Static rules: (a) F8 — every construction of ServiceEvent::ServiceResolved takes the Ok payload of "
    "resolve_service_from_cache; (b) each is control-dependent on ResolvedService::is_valid() == true, and is_valid "
    "tests host and addresses; (c) inside resolve_service_from_cache every cached-record accessor that feeds the event "
    "(DnsSrv::host/port, DnsTxt::text, DnsAddress::address) is guarded by !expires_soon(now) of the same record, with "
    "now the clock read of that function, and the PTR walk that selects instances in both callers is filtered by "
    "!expires_soon(now); (d) addresses are looked up under the SRV's host and decoded address records carry the "
    "receiving interface; (e) TTL 0 ⇒ 1 s in the decoder and the cache-flush predicate of add_or_update (same class, "
    "same type, created > 1 s ago, expiring > 1 s ahead, for addresses same interface; effect expire := now + 1000 with "
    "a timer).  Decides that no expired/withdrawn record can feed an event; not which data over which history."
    " (f) Outside reset_ttl with a received record, expiry times only move forward: every set_expire call sits under `get_expire() > new` (set_expire_sooner otherwise). (g) In add_or_update no path stores or refreshes a record with the cache-flush bit without running the flush of its stale siblings."
    " (h) Every comparison in a record's matches() pairs a field with the same field of the other record."
    " (i) Every answer of a response on a known interface is handed to DnsCache::add_or_update, whatever is_for_us says (TTL refresh, goodbye and cache-flush of names already cached)."
    " (j) The not-for-us return of add_or_update sits behind a look at the records already cached for the name.")
UNDECIDED = ["that what is in the cache is what was received in which order ('last advertised' over histories)",
             "interface tagging across multi-interface merges (value-level)"]


def clause_ab(ctx, P):
    sites = list(all_aggregates(P, "service_daemon::ServiceEvent", "ServiceResolved"))
    ctx.floor("C03a.resolved-sites", len(sites), 2, "constructions of ServiceEvent::ServiceResolved")
    n = {}
    for (f, b, i, s) in sites:
        n[f.name] = n.get(f.name, 0) + 1
        tr = tracer(P, f)
        e = tr.operand(s["r"]["ops"][0], (b, i))
        # the value of resolve_service_from_cache: its Ok payload, or the call itself when it returns the service directly
        pay = [x for x in walk(e) if x[0] == "payload" and x[2] == "Ok" and has_call(x[1], "Zeroconf::resolve_service_from_cache")]
        direct = [a for a in strip(e) if a[0] == "call" and name_matches(strip_generics(a[1]), "Box::new") and a[2] and
                  all(y[0] == "call" and name_matches(strip_generics(y[1]), "Zeroconf::resolve_service_from_cache") for y in strip(a[2][0]))]
        ok = (bool(pay) or bool(direct)) and all(a[0] == "call" and name_matches(strip_generics(a[1]), "Box::new") for a in strip(e))
        ctx.ob("C03a.F8.resolved-from-cache-function", "%s|ServiceResolved#%d" % (f.name, n[f.name]), ok, f.loc(b, i),
               "ServiceResolved carries Box::new(Ok payload of resolve_service_from_cache)" if ok else "ServiceResolved built from " + show(e)[:120])
        e_valid = guard_edges(P, f, lambda atom, outcome, bb: atom[0] == "call" and name_matches(strip_generics(atom[1]), "ResolvedService::is_valid") and outcome is True
                              and has_call(atom, "Zeroconf::resolve_service_from_cache"))
        okv = must_pass_edges(f, b, e_valid)
        ctx.ob("C03b.only-valid-services", "%s|ServiceResolved#%d" % (f.name, n[f.name]), okv, f.loc(b, i),
               "the event is built only when is_valid() of that resolved service is true" if okv else "ServiceResolved can be built for a service that is not valid (no host / no address)")
    iv = P.one("ResolvedService::is_valid")
    itr = tracer(P, iv)
    flds = set()
    for b, t in iv.calls():
        if method(cname(t)) == "is_empty":
            e = itr.operand(t["args"][0], endpos(iv, b))
            for x in walk(e):
                if x[0] == "field" and isinstance(x[2], str):
                    flds.add(x[2])
    ctx.ob("C03b.is-valid-tests-host-and-addresses", iv.name, {"host", "addresses"} <= flds, iv.loc(), "is_valid requires non-empty %s" % sorted(flds))
    rs = [itr.local(0, endpos(iv, rb)) for rb in iv.exits()]
    ctx.ob("C03b.is-valid-negation", iv.name, all(r[0] == "unop" and r[1] == "Not" for r in rs), iv.loc(), "is_valid returns !some_missing")


def clause_c(ctx, P):
    f = P.one("Zeroconf::resolve_service_from_cache")
    tr = tracer(P, f)
    now_calls = calls_to(f, "current_time_millis")
    ctx.require(len(now_calls) == 1, "C03c.anchor", f.name, f.loc(), "one clock read in resolve_service_from_cache")
    nowpos = (f.name, now_calls[0][0]) if now_calls else None
    ACC = ("DnsSrv::host", "DnsSrv::port", "DnsTxt::text", "DnsAddress::address")
    scope = [f] + [P.fns[c] for c in P.closures_of.get(f.name, [])]
    n = 0
    for b, t in f.calls():
        c = cname(t)
        if not name_matches(c, *ACC):
            continue
        # skip the address() calls that only feed log output
        recv = tr.operand(t["args"][0], endpos(f, b))
        n += 1
        ok, why = _liveness_guard(P, f, b, recv, nowpos)
        k = sum(1 for bb, tt in f.calls() if name_matches(cname(tt), c.split("::")[-2] + "::" + c.split("::")[-1]) and bb <= b)
        # an accessor used only inside the "expires soon" trace branch does not feed the event
        feeds = _feeds_result(P, f, b)
        if not feeds:
            ctx.ob("C03c.F8.accessor-live-guard", "%s|%s#%d" % (f.name, "::".join(c.split("::")[-2:]), k), True, f.loc(b), "accessor result does not flow into the resolved service (log only)")
            continue
        ctx.ob("C03c.F8.accessor-live-guard", "%s|%s#%d" % (f.name, "::".join(c.split("::")[-2:]), k), ok, f.loc(b),
               ("%s() is read only from a record that passed !expires_soon(now): %s" % (c.split("::")[-1], why)) if ok else
               ("%s() of a cached record feeds the event without a !expires_soon(now) test of that record: %s" % (c.split("::")[-1], why)))
    ctx.floor("C03c.accessors", n, 4, "cached-record accessors in resolve_service_from_cache")
    # PTR walk in both callers filtered by !expires_soon(now)
    for cname_ in ("Zeroconf::query_cache_for_service", "Zeroconf::resolve_updated_instances"):
        g = P.one(cname_)
        gtr = tracer(P, g)
        rc = calls_to(g, "Zeroconf::resolve_service_from_cache")
        ok = bool(rc)
        for b, t in rc:
            inst = gtr.operand(t["args"][2], endpos(g, b))
            flt = [x for x in walk(inst) if x[0] == "call" and name_matches(strip_generics(x[1]), "Iterator::filter")]
            okf = False
            for x in flt:
                for cl in strip(x[2][1]) if len(x[2]) > 1 else ():
                    if cl[0] == "closure" and _closure_is_not_expires_soon(P, cl[1]):
                        okf = True
            ok = ok and okf
        ctx.ob("C03c.ptr-walk-live-only", g.name, ok, g.loc(), "instances are taken only from PTR records filtered by !expires_soon(now)")


def _closure_is_not_expires_soon(P, name):
    cf = P.fns.get(name)
    if cf is None:
        return False
    tr = tracer(P, cf)
    for rb in cf.exits():
        r = tr.local(0, endpos(cf, rb))
        if not (r[0] == "unop" and r[1] == "Not" and has_call(r, "expires_soon")):
            return False
    return True


def _liveness_guard(P, f, b, recv, nowpos):
    """the record the accessor is applied to was selected by find/filter(|r| !expires_soon(now)) or the call is
    control-dependent on expires_soon(now) == false of the same record"""
    # idiom 1: iterator adaptor with the liveness closure
    for x in walk(recv):
        if x[0] == "call" and name_matches(strip_generics(x[1]), "Iterator::find", "Iterator::filter") and len(x[2]) > 1:
            for cl in strip(x[2][1]):
                if cl[0] == "closure" and _closure_is_not_expires_soon(P, cl[1]):
                    # the captured `now` is this function's clock read
                    caps = closure_captures(P, f, cl[1]) or []
                    if nowpos is None or any(any(y[0] == "call" and y[3] == nowpos for y in walk(c)) for c in caps):
                        return True, "selected by %s(|r| !r.record.expires_soon(now))" % strip_generics(x[1]).split("::")[-1]
    # idiom 2: branch on expires_soon(now) of the same record
    def pred(atom, outcome, bb):
        if atom[0] != "call" or not name_matches(strip_generics(atom[1]), "expires_soon") or outcome is not False:
            return False
        r0 = atom[2][0]
        same = bool(strip(r0) & strip(recv))
        nowok = nowpos is None or any(y[0] == "call" and y[3] == nowpos for y in walk(atom[2][1]))
        return same and nowok
    edges = guard_edges(P, f, pred)
    if edges and must_pass_edges(f, b, edges):
        return True, "branch on !expires_soon(now) of the same record"
    return False, "receiver " + show(recv)[:100]


def _feeds_result(P, f, b):
    """does the value returned by the call in block b flow into the function's result (the resolved service)?"""
    tr = tracer(P, f)
    dest = f.term(b)["dest"]["l"]
    # any assignment into the resolved_service local / insert into its addresses that mentions this call
    for bb, i, s in f.assigns():
        if s["p"]["proj"] and s["p"]["proj"][0][0] == "field":
            e = tr.rvalue(s["r"], (bb, i))
            if any(x[0] == "call" and x[3] == (f.name, b) for x in walk(e)):
                return True
    for bb, t in f.calls():
        if bb == b:
            continue
        if name_matches(cname(t), "HashSet::insert", "HashSet::remove", "ScopedIpV4::add_interface_id", "Into::into", "From::from"):
            for a in t["args"]:
                e = tr.operand(a, endpos(f, bb))
                if any(x[0] == "call" and x[3] == (f.name, b) for x in walk(e)):
                    if name_matches(cname(t), "HashSet::insert", "Into::into", "From::from"):
                        return True
    # used in a match scrutinee that leads to inserts (ScopedIp::V4(v4) = &scoped)
    for bb, t in f.calls():
        if name_matches(cname(t), "HashSet::insert"):
            for a in t["args"]:
                e = tr.operand(a, endpos(f, bb))
                if any(x[0] == "call" and x[3] == (f.name, b) for x in walk(e)):
                    return True
    return False


def clause_d(ctx, P):
    f = P.one("Zeroconf::resolve_service_from_cache")
    tr = tracer(P, f)
    ga = calls_to(f, "DnsCache::get_addr")
    ok = False
    for b, t in ga:
        k = tr.operand(t["args"][1], endpos(f, b))
        ok = any(x[0] == "field" and x[2] == "host" for x in walk(k))
    ctx.ob("C03d.addresses-of-srv-host", f.name, ok and len(ga) == 1, f.loc(), "addresses are looked up under resolved_service.host")
    host_w = [(b, i) for b, i, s in f.assigns() if s["p"]["proj"] and s["p"]["proj"][-1][0] == "field" and s["p"]["proj"][-1][2] == "host" and has_call(tr.rvalue(s["r"], (b, i)), "DnsSrv::host")]
    ctx.ob("C03d.host-from-srv", f.name, len(host_w) == 1, f.loc(), "resolved_service.host is assigned from DnsSrv::host() only")
    # get_addr lower-cases, decoder tags (shared with C17f)
    d = P.one("DnsIncoming::read_rr_records")
    dtr = tracer(P, d)
    m = 0
    for b, t in d.calls():
        if name_matches(cname(t), "DnsAddress::new"):
            m += 1
            e = dtr.operand(t["args"][5], endpos(d, b))
            ctx.ob("C03d.decoder-interface", "%s|DnsAddress::new#%d" % (d.name, m), expr_mentions_field(e, "interface_id", "DnsIncoming"), d.loc(b), "decoded address records carry the receiving interface")
    hr = P.one("Zeroconf::handle_read")
    htr = tracer(P, hr)
    dn = calls_to(hr, "DnsIncoming::new")
    ok = False
    for b, t in dn:
        e = htr.operand(t["args"][1], endpos(hr, b))
        ok = has_call(e, "HashMap::get") and expr_mentions_field(e, "my_intfs", "Zeroconf") and any(x[0] == "field" and x[2] == "if_index" for x in walk(e))
        be = htr.operand(t["args"][0], endpos(hr, b))
    ctx.ob("C03d.packet-interface", hr.name, ok, hr.loc(), "the decoder is given my_intfs[pktinfo.if_index] of the same recv")


def clause_e(ctx, P):
    c05.clause_d(ctx, P)      # TTL 0 -> 1 and expiry timers (shared)
    f = P.one("DnsCache::add_or_update")
    # the flush pass: a `for_each` closure or a plain loop in the function itself — whichever holds the set_expire call
    found = False
    sites_in_f = []
    ftr = tracer(P, f)
    for cf in [f] + [P.fns[c] for c in P.closures_of.get(f.name, [])]:
        se = [(b, t) for b, t in cf.calls() if name_matches(cname(t), "DnsRecordExt::set_expire")]
        if not se:
            continue
        found = True
        ctr = tracer(P, cf)
        b, t = se[0]
        v = ctr.operand(t["args"][1], endpos(cf, b))
        okv = any(a[0] == "binop" and a[1].startswith("Add") and fold(a[3]) == 1000 for a in strip(v))
        ctx.ob("C03e.F12.flush-expire-in-1s", cf.name, okv, cf.loc(b), "flushed records get expire := now + 1000 (%s)" % show(v)[:60])
        preds = {
            "class": lambda atom, o, bb: o is True and atom[0] == "binop" and atom[1] == "Eq" and has_call(atom, "DnsRecordExt::get_class"),
            "type": lambda atom, o, bb: o is True and atom[0] == "call" and name_matches(strip_generics(atom[1]), "PartialEq::eq") and has_call(atom, "DnsRecordExt::get_type"),
            "age": lambda atom, o, bb: o is True and atom[0] == "binop" and atom[1] == "Gt" and has_call(atom[3], "DnsRecordExt::get_created") and poly(atom[3]) is not None and poly(atom[3]).get(()) == 1000,
            "remaining": lambda atom, o, bb: o is True and atom[0] == "binop" and atom[1] == "Gt" and has_call(atom[2], "DnsRecordExt::get_expire") and poly(atom[3]) is not None and poly(atom[3]).get(()) == 1000,
        }
        edges = {k: guard_edges(P, cf, pr) for k, pr in preds.items()}
        conds = {k: bool(v_) for k, v_ in edges.items()}
        conds["intf"] = False
        for bb, i, s_ in cf.assigns():
            r = s_["r"]
            if r["k"] == "binop" and r["op"] in ("Eq", "Ne"):
                e = ctr.rvalue(r, (bb, i))
                if sum(1 for x in walk(e) if x[0] == "field" and x[2] == "index") >= 2 and sum(1 for x in walk(e) if x[0] == "field" and x[2] == "interface_id") >= 2:
                    conds["intf"] = True
        ctx.ob("C03e.F12.flush-predicate", cf.name, all(conds.values()), cf.loc(),
               "flush iff same class ∧ same type ∧ now > created + 1000 ∧ expire > now + 1000 (∧ same interface for addresses): %s" % conds)
        # the set_expire is guarded by those tests (directly or through the flag computed from them)
        okg = all(guarded(P, cf, b, edges[k]) for k in ("class", "age", "remaining"))
        ctx.ob("C03e.flush-guarded", cf.name, okg, cf.loc(b), "set_expire happens only when every flush condition held")
        if cf is f:
            sites_in_f.append(b)
        else:
            for fb, ft in f.calls():
                if any(x[0] == "closure" and x[1] == cf.name for a_ in ft["args"] for x in walk(ftr.operand(a_, endpos(f, fb)))):
                    sites_in_f.append(fb)
    ctx.require(found, "C03e.anchor", f.name, f.loc(), "flush pass (a set_expire call in add_or_update or one of its closures) found")
    # flush only for cache-flush records
    e_cf = guard_edges(P, f, lambda atom, outcome, bb: atom[0] == "call" and name_matches(strip_generics(atom[1]), "DnsRecordExt::get_cache_flush") and outcome is True)
    ctx.ob("C03e.flush-only-on-cache-flush-bit", f.name, bool(sites_in_f) and all(must_pass_edges(f, b, e_cf) for b in sites_in_f), f.loc(), "the flush pass runs only for an incoming record with the cache-flush bit")


def clause_live_predicates(ctx, P):
    """what 'live' means for the guards of clause c: expires_soon ≡ now + 1000 >= expires, is_expired ≡ now >= expires"""
    from .f12 import ret_exprs
    for name, lhs_const in (("DnsRecord::is_expired", 0), ("DnsRecord::expires_soon", 1000)):
        f = P.one(name)
        rs = ret_exprs(P, f)
        want = expect_cmp("Ge", {P2: 1, (): lhs_const}, {F("expires"): 1})
        ctx.ob("C03c.F12.live-predicate", f.name, len(rs) == 1 and norm_cmp(rs[0]) == want, f.loc(),
               "%s ≡ now%s >= expires (%s)" % (name.split("::")[-1], (" + %d" % lhs_const) if lhs_const else "", "; ".join(show(r) for r in rs)))


def run(ctx, P):
    from . import r2
    r2.expiry_only_brought_forward(ctx, P, "C03f")
    r2.cache_update_rules(ctx, P, "C03g", want=("flush",))
    r2.compares_like_with_like(ctx, P, "C03h", fnames=("matches",))
    r2.every_answer_reaches_the_cache(ctx, P, "C03i")
    from . import r4
    r4.cached_names_updated_whatever_is_for_us(ctx, P, "C03j")
    clause_live_predicates(ctx, P)
    clause_ab(ctx, P)
    clause_c(ctx, P)
    clause_d(ctx, P)
    clause_e(ctx, P)
