"""F4 record-builder discipline: class, TTL, address provenance, rename taint, sibling record sets."""
from .lib import *

CTORS = {
    "dns_parser::DnsPointer::new": "PTR",
    "dns_parser::DnsSrv::new": "SRV",
    "dns_parser::DnsTxt::new": "TXT",
    "dns_parser::DnsAddress::new": "ADDR",
    "dns_parser::DnsHostInfo::new": "HINFO",
    "dns_parser::DnsNSec::new": "NSEC",
}
DECODER = "dns_parser::DnsIncoming::read_rr_records"
GOODBYE_BUILDERS = ("service_daemon::Zeroconf::unregister_service",)

CLASS_IN = 1
CLASS_UNIQUE = 0x8001


class Site:
    def __init__(self, P, fn, bb, t, kind):
        self.P, self.fn, self.bb, self.t, self.kind = P, fn, bb, t, kind
        callee = P.fns[cname(t)]
        tr = tracer(P, fn)
        self.args = {}
        for l in range(1, callee.argc + 1):
            nm = callee.locals[l].get("name") or ("arg%d" % l)
            self.args[nm] = tr.operand(t["args"][l - 1], endpos(fn, bb))
        self.dest = t["dest"]["l"] if not t["dest"]["proj"] else None

    def key(self, ordinal):
        return "%s|%s#%d" % (self.fn.name, self.kind, ordinal)


def _subst_params(e, mapping):
    """replace ("param", k) nodes of an expression by the caller's argument expressions"""
    if not isinstance(e, tuple):
        return e
    if len(e) == 2 and e[0] == "param" and e[1] in mapping:
        return mapping[e[1]]
    return tuple(_subst_params(x, mapping) for x in e)


class VirtualSite(Site):
    """a record built by a factory helper (`fn txt_record(&self, ..) -> DnsTxt { DnsTxt::new(..) }`), seen at the call of
    the helper: the constructor's arguments with the helper's parameters replaced by what this caller passes"""

    def __init__(self, P, fn, bb, t, inner):
        self.P, self.fn, self.bb, self.t, self.kind = P, fn, bb, t, inner.kind
        tr = tracer(P, fn)
        mapping = {}
        for i, a in enumerate(t["args"]):
            mapping[i + 1] = tr.operand(a, endpos(fn, bb))
        self.args = {k: _subst_params(v, mapping) for k, v in inner.args.items()}
        self.dest = t["dest"]["l"] if not t["dest"]["proj"] else None
        self.via = inner.fn.name


def record_factories(P, _c={}):
    """{fn name: inner Site}: crate functions that do nothing but build one record and return it"""
    k = id(P)
    if k in _c:
        return _c[k]
    out = {}
    per = {}
    for f in P.lib_fns():
        if f.name == DECODER or f.is_closure or f.in_tests():
            continue
        for b, t in f.calls():
            n = cname(t)
            if n in CTORS and n in P.fns:
                per.setdefault(f.name, []).append((f, b, t, CTORS[n]))
    for name, sites in per.items():
        if len(sites) != 1:
            continue
        f, b, t, kind = sites[0]
        if t["dest"]["proj"]:
            continue
        tr = tracer(P, f)
        rets = f.exits()
        flows = bool(rets)
        for rb in rets:
            alts = strip(tr.local(0, endpos(f, rb)))
            if not alts or not all(a[0] == "call" and a[3] == (f.name, b) for a in alts):
                flows = False
        # the helper adds nothing to a packet itself
        sends = any(method(cname(tt)).startswith("add_") for _bb, tt in f.calls())
        if flows and not sends:
            out[name] = Site(P, f, b, t, kind)
    _c[k] = out
    return out


def builder_sites(P, include_decoder=False):
    out = []
    fac = record_factories(P)
    for f in P.lib_fns():
        if f.name == DECODER and not include_decoder:
            continue
        for b, t in f.calls():
            n = cname(t)
            if n in CTORS and n in P.fns:
                if f.name in fac:
                    continue        # represented at each call of the factory
                out.append(Site(P, f, b, t, CTORS[n]))
            else:
                for tg in P.call_targets(t):
                    if tg in fac and tg != f.name:
                        out.append(VirtualSite(P, f, b, t, fac[tg]))
    # ordinals per (fn, kind)
    cnt = {}
    for s in out:
        k = (s.fn.name, s.kind)
        cnt[k] = cnt.get(k, 0) + 1
        s.ord = cnt[k]
    return out


def _live(P, fn, _c={}):
    """reachable from the nameable API (incl. the daemon thread) or a trait impl: code that only tests reach — a
    cfg(test) wrapper kept for a unit test — cannot change what the daemon sends"""
    k = id(P)
    if k not in _c:
        roots = [f.name for f in P.lib_fns() if (f.j.get("nameable") if f.j.get("nameable") is not None else f.exported) or f.j.get("impl_trait")]
        _c[k] = P.reachable_from(roots)
    return fn.name in _c[k]


def _param_alternatives(P, fn, e, depth=0):
    """expand parameters of non-public helper functions to the expressions passed at their call sites"""
    out = []
    for a in strip(e):
        if a[0] == "param" and depth < 4 and not fn.is_closure:
            sites = [x for x in P.call_sites_of(fn.name) if _live(P, x[0])]
            if sites:
                for (cf, b, t) in sites:
                    if a[1] - 1 < len(t["args"]):
                        ce = tracer(P, cf).operand(t["args"][a[1] - 1], endpos(cf, b))
                        out.extend(_param_alternatives(P, cf, ce, depth + 1))
                continue
        out.append((fn, a))
    return out


# ------------------------------------------------------------------------------------------------
def check_class_ttl(ctx, P, rule, only=None):
    n = 0
    for s in builder_sites(P):
        if only and not only(s):
            continue
        if s.kind not in ("PTR", "SRV", "TXT", "ADDR"):
            continue
        n += 1
        cls = fold(s.args["class"]) if "class" in s.args else None
        want = CLASS_IN if s.kind == "PTR" else CLASS_UNIQUE
        ctx.ob(rule + ".F4.class", s.key(s.ord), cls == want, s.fn.loc(s.bb),
               "%s record built with class 0x%04x (%s)" % (s.kind, want, "shared" if want == 1 else "IN | cache-flush") if cls == want else
               "%s record built with class %s, expected 0x%04x" % (s.kind, ("0x%04x" % cls) if cls is not None else show(s.args.get("class")), want))
        ttl = s.args.get("ttl")
        if s.fn.name in GOODBYE_BUILDERS:
            ok = fold(ttl) == 0
            ctx.ob(rule + ".F4.goodbye-ttl0", s.key(s.ord), ok, s.fn.loc(s.bb), "goodbye record has TTL 0" if ok else "goodbye record TTL is " + show(ttl))
        else:
            getter = "ServiceInfo::get_host_ttl" if s.kind in ("SRV", "ADDR") else "ServiceInfo::get_other_ttl"
            alts = strip(ttl)
            ok = bool(alts) and all(a[0] == "call" and strip_generics(a[1]).endswith(getter) for a in alts)
            ctx.ob(rule + ".F4.ttl-source", s.key(s.ord), ok, s.fn.loc(s.bb),
                   "%s TTL comes from %s" % (s.kind, getter.split("::")[-1]) if ok else "%s TTL is %s, expected %s()" % (s.kind, show(ttl)[:80], getter))
    return n


def check_ttl_defaults(ctx, P, rule):
    fn = P.one("ServiceInfo::new")
    found = {}
    for b, i, s in aggregates(fn, "service_info::ServiceInfo"):
        tr = tracer(P, fn)
        names = s["r"]["fields"]
        for nm, op in zip(names, s["r"]["ops"]):
            if nm in ("host_ttl", "other_ttl"):
                found[nm] = fold(tr.operand(op, (b, i)))
    ctx.ob(rule + ".F4.default-host-ttl", fn.name, found.get("host_ttl") == 120, fn.loc(), "ServiceInfo::new stores host_ttl = %s (want 120)" % found.get("host_ttl"))
    ctx.ob(rule + ".F4.default-other-ttl", fn.name, found.get("other_ttl") == 4500, fn.loc(), "ServiceInfo::new stores other_ttl = %s (want 4500)" % found.get("other_ttl"))
    # the getters return those fields
    for g, fld in (("ServiceInfo::get_host_ttl", "host_ttl"), ("ServiceInfo::get_other_ttl", "other_ttl")):
        gf = P.one(g)
        tr = tracer(P, gf)
        rets = [tr.local(0, endpos(gf, rb)) for rb in gf.exits()]
        ok = all(expr_mentions_field(r, fld, "ServiceInfo") for r in rets)
        ctx.ob(rule + ".F4.ttl-getter", gf.name, ok, gf.loc(), "%s returns field %s" % (g, fld))


# ------------------------------------------------------------------------------------------------
ADDR_SOURCES = ("ServiceInfo::get_addrs_on_my_intf_v4", "ServiceInfo::get_addrs_on_my_intf_v6")


def _collection_sources(P, fn, newcall):
    """elements added to a local collection created by `newcall` (Vec::new()): exprs of extend/push args"""
    tr = tracer(P, fn)
    (fname, bb) = newcall[3]
    loc = fn.term(bb)["dest"]["l"]
    locs = {loc}
    changed = True
    while changed:
        changed = False
        for b, i, s in fn.assigns():
            r = s["r"]
            if r["k"] == "use" and r["a"]["k"] in ("move", "copy") and not r["a"]["p"]["proj"] and r["a"]["p"]["l"] in locs \
                    and not s["p"]["proj"] and s["p"]["l"] not in locs:
                locs.add(s["p"]["l"])
                changed = True
    out = []
    for b, t in fn.calls():
        m = method(cname(t))
        if m not in ("extend", "push", "insert", "extend_from_slice", "append") or not t["args"]:
            continue
        a0 = t["args"][0]
        rl = None
        if a0["k"] in ("move", "copy"):
            for d in fn.reaching_defs(a0["p"]["l"], endpos(fn, b)):
                if d[2] == "assign" and d[3]["k"] == "ref" and not d[3]["p"]["proj"]:
                    rl = d[3]["p"]["l"]
        if rl in locs:
            out.append(tr.operand(t["args"][1], endpos(fn, b)))
    return out


def address_origin_ok(P, fn, e, depth=0):
    """every alternative of the address expression derives from the subnet-filtered getters"""
    if depth > 6:
        return False, "depth"
    for (f2, a) in _param_alternatives(P, fn, e):
        # unwrap iteration
        x = a
        while True:
            if x[0] == "payload":
                x = x[1]
            elif x[0] == "call" and any(strip_generics(x[1]).endswith(s) for s in ("::next", "::into_iter", "::iter", "::copied", "::cloned", "::deref", "::collect")) and x[2]:
                x = x[2][0]
            elif x[0] in ("ref", "deref", "coerce"):
                x = x[1]
            else:
                break
        subs = [x] if x[0] != "phi" else list(x[1])
        for s in subs:
            for (f3, s2) in _param_alternatives(P, f2, s):
                if s2[0] == "call" and any(strip_generics(s2[1]).endswith(g) for g in ADDR_SOURCES):
                    continue
                if s2[0] == "call" and strip_generics(s2[1]).endswith("::new"):
                    srcs = _collection_sources(P, f3, s2)
                    if not srcs:
                        return False, "local collection without sources"
                    for se in srcs:
                        ok, why = address_origin_ok(P, f3, se, depth + 1)
                        if not ok:
                            return False, why
                    continue
                if s2[0] in ("payload", "phi", "call") and s2 is not s:
                    ok, why = address_origin_ok(P, f3, s2, depth + 1)
                    if not ok:
                        return False, why
                    continue
                return False, "origin %s in %s" % (show(s2)[:80], f3.name)
    return True, ""


def check_address_provenance(ctx, P, rule, only=None):
    n = 0
    for s in builder_sites(P):
        if s.kind != "ADDR" or (only and not only(s)):
            continue
        n += 1
        ok, why = address_origin_ok(P, s.fn, s.args["address"])
        ctx.ob(rule + ".F4.address-subnet-filtered", s.key(s.ord), ok, s.fn.loc(s.bb),
               "address originates from get_addrs_on_my_intf_v4/_v6 (subnet filter of the interface)" if ok else
               "address record built from an address that did not pass the interface subnet filter: " + why)
    # the filters themselves call valid_ip_on_intf and the family test inside the closure
    for g, fam in (("ServiceInfo::get_addrs_on_my_intf_v4", "is_ipv4"), ("ServiceInfo::get_addrs_on_my_intf_v6", "is_ipv6")):
        gf = P.one(g)
        reach = P.reachable_from([gf.name])
        okv = "service_info::valid_ip_on_intf" in reach
        okf = False
        okfilter = any(cname(t).endswith("::filter") for b, t in gf.calls())
        for c in reach:
            cf = P.fns.get(c)
            if cf and cf.is_closure and cf.name.startswith(gf.name):
                for b, t in cf.calls():
                    if cname(t).endswith("IpAddr::" + fam):
                        okf = True
        src_ok = False
        tr = tracer(P, gf)
        for rb in gf.exits():
            r = tr.local(0, endpos(gf, rb))
            if expr_mentions_field(r, "addresses", "ServiceInfo"):
                src_ok = True
        ctx.ob(rule + ".F4.subnet-filter-body", gf.name, okv and okf and okfilter and src_ok, gf.loc(),
               "%s = self.addresses.iter().filter(%s && any(valid_ip_on_intf))" % (g.split("::")[-1], fam))
    return n


# ------------------------------------------------------------------------------------------------
TAINT = {"service_info::ServiceInfo::get_fullname": "fullname", "service_info::ServiceInfo::get_hostname": "hostname"}
SANITIZER = "service_info::DnsRegistry::resolve_name"


def tainted_alternatives(P, fn, e):
    """[(kind, expr)] for alternatives that read get_fullname/get_hostname without resolve_name"""
    out = []
    for (f2, a) in _param_alternatives(P, fn, e):
        out.extend(_taint_in(a))
    return out


def _taint_in(a):
    out = []
    if a[0] == "call":
        n = strip_generics(a[1])
        if n == SANITIZER:
            return []
        if n in TAINT:
            return [(TAINT[n], a)]
        if is_transparent_call(n) and a[2]:
            for alt in strip(a[2][0]):
                out.extend(_taint_in(alt))
        return out
    if a[0] in ("phi",):
        for x in a[1]:
            out.extend(_taint_in(x))
    if a[0] in ("ref", "deref", "coerce", "payload"):
        out.extend(_taint_in(a[1]))
    return out


def _set_new_name_idiom(P, site, kind):
    """after construction the record gets set_new_name(name_changes.get(<same source>))"""
    fn = site.fn
    tr = tracer(P, fn)
    for b, t in fn.calls():
        if not cname(t).endswith("DnsRecord::set_new_name"):
            continue
        recv = tr.operand(t["args"][0], endpos(fn, b))
        arg = tr.operand(t["args"][1], endpos(fn, b))
        # receiver: get_record_mut(&mut <record local>) where the local is the ctor's destination
        hits_record = any(x[0] == "call" and x[3] == (fn.name, site.bb) for x in walk(recv))
        if not hits_record:
            continue
        gets = [x for x in walk(arg) if x[0] == "call" and strip_generics(x[1]).endswith("HashMap::get") and expr_mentions_field(x, "name_changes", "DnsRegistry")]
        for g in gets:
            if len(g[2]) > 1 and any(k == kind for (k, _e) in _taint_in_all(g[2][1])):
                return True
    return False


def _taint_in_all(e):
    out = []
    for a in strip(e):
        out.extend(_taint_in(a))
    # strip() already removed transparent calls; the taint source itself remains
    for a in strip(e):
        if a[0] == "call" and strip_generics(a[1]) in TAINT:
            out.append((TAINT[strip_generics(a[1])], a))
    return out


def check_rename_taint(ctx, P, rule, only=None):
    n = 0
    for s in builder_sites(P):
        if s.kind not in ("PTR", "SRV", "TXT", "ADDR") or (only and not only(s)):
            continue
        for argname in ("name", "alias", "host"):
            if argname not in s.args:
                continue
            n += 1
            t = tainted_alternatives(P, s.fn, s.args[argname])
            ok = True
            why = "argument `%s` is rename-resolved or not renamable: %s" % (argname, show(s.args[argname])[:90])
            if t:
                kinds = sorted({k for (k, _e) in t})
                if argname == "name" and all(_set_new_name_idiom(P, s, k) for k in kinds):
                    why = "record gets set_new_name(name_changes.get(%s)) after construction" % "/".join(kinds)
                else:
                    ok = False
                    why = ("%s record argument `%s` uses the registered %s without DnsRegistry::resolve_name: after a conflict "
                           "rename the packet carries the old name (%s)" % (s.kind, argname, "/".join(kinds), show(s.args[argname])[:80]))
            ctx.ob(rule + ".F4.rename-resolved", "%s.%s" % (s.key(s.ord), argname), ok, s.fn.loc(s.bb), why)
    return n


# ------------------------------------------------------------------------------------------------
def record_set(P, fn):
    """multiset of record kinds a builder constructs, with conditions: {kind: count}"""
    out = {}
    for s in builder_sites(P):
        if s.fn is fn:
            out[s.kind] = out.get(s.kind, 0) + 1
    return out


def check_sibling_sets(ctx, P, rule, builders):
    want = {"PTR": 2, "SRV": 1, "TXT": 1, "ADDR": 1}
    for b in builders:
        fn = P.one(b)
        got = record_set(P, fn)
        ctx.ob(rule + ".F4.record-set", fn.name, got == want, fn.loc(),
               "builder constructs {PTR(type), PTR(subtype), SRV, TXT, A/AAAA per address}: %s" % got)
        # the subtype PTR is conditional on get_subtype() being Some, the address record sits in a loop over the filtered addresses
        tr = tracer(P, fn)
        sub_ok = False
        loop_ok = False
        loops = fn.loops()
        for s in builder_sites(P):
            if s.fn is not fn:
                continue
            if s.kind == "PTR" and has_call(s.args["name"], "ServiceInfo::get_subtype"):
                edges = guard_edges(P, fn, lambda atom, outcome, bb: atom[0] == "variant" and has_call(atom[1], "ServiceInfo::get_subtype") and outcome == frozenset(["Some"]))
                sub_ok = must_pass_edges(fn, s.bb, edges)
            if s.kind == "ADDR":
                loop_ok = any(s.bb in body for body in loops.values())
        ctx.ob(rule + ".F4.subtype-ptr-iff-subtype", fn.name, sub_ok, fn.loc(), "the subtype PTR is built exactly when get_subtype() is Some")
        ctx.ob(rule + ".F4.address-per-addr", fn.name, loop_ok, fn.loc(), "one address record per filtered address (constructor inside the address loop)")


# ------------------------------------------------------------------------------------------------
def check_service_selected_by_resolved_name(ctx, P, rule):
    """direct (SRV/TXT/ANY/address) questions are matched against the names a service currently goes by: the service
    handed to add_answer_of_service comes only from a scan of my_services whose predicate compares
    dns_registry.resolve_name(key) with the question name — never from a lookup by the registered (pre-rename) key"""
    from .f12 import ret_exprs
    h = P.one("Zeroconf::handle_query")
    tr = tracer(P, h)
    sites = [(b, t) for b, t in h.calls() if method(cname(t)).startswith("add_answer_of_service")]
    ctx.require(len(sites) >= 1, rule + ".anchor", h.name + "|add_answer_of_service", h.loc(), "%d call(s)" % len(sites))
    for k, (b, t) in enumerate(sites):
        # the ServiceInfo argument
        ai = None
        for i, a in enumerate(t["args"]):
            ty = (a.get("p") or {}).get("ty", "")
            if "ServiceInfo" in ty:
                ai = i
        if ai is None:
            ctx.ob(rule + ".selected-by-resolved-name", "%s|add_answer_of_service#%d" % (h.name, k + 1), False, h.loc(b), "no ServiceInfo argument found")
            continue
        e = arg_expr(tr, h, b, t, ai)
        alts = strip(e)
        bad = []
        good = 0
        for a in alts:
            finds = [x for x in walk(a) if x[0] == "call" and method(strip_generics(x[1])) in ("find", "find_map", "filter")]
            direct = [x for x in walk(a) if x[0] == "call" and method(strip_generics(x[1])) in ("get", "get_mut", "get_key_value", "index") and
                      len(x[2]) >= 1 and any(is_field_expr(y, "my_services", "Zeroconf") for y in strip(x[2][0]))]
            if direct:
                bad.append("looked up by key: %s" % show(direct[0])[:70])
                continue
            ok_find = False
            for fcall in finds:
                over = any(is_field_expr(y, "my_services", "Zeroconf") for x in walk(fcall[2][0]) for y in [x]) if fcall[2] else False
                cls = [x for x in walk(fcall[2][1]) if x[0] == "closure" and x[1] in P.fns] if len(fcall[2]) > 1 and fcall[2][1] is not None else []
                for c in cls:
                    for r in ret_exprs(P, P.fns[c[1]]):
                        if r[0] == "call" and method(strip_generics(r[1])) in ("eq", "ne") and any(x[0] == "call" and name_matches(strip_generics(x[1]), "DnsRegistry::resolve_name") for x in walk(r)):
                            ok_find = over or ok_find
            if ok_find:
                good += 1
            else:
                bad.append("not a resolve_name scan: %s" % show(a)[:70])
        ctx.ob(rule + ".selected-by-resolved-name", "%s|add_answer_of_service#%d" % (h.name, k + 1), good >= 1 and not bad, h.loc(b),
               "the answering service is found by scanning my_services for resolve_name(key) == question name" if good >= 1 and not bad else "; ".join(bad) or "origin not recognised")
