"""Shared helpers for the rule families (E5 path rules, guards, provenance)."""
import re

from ..model import callee_name, strip_generics
from ..origin import Tracer, strip, walk, show, is_transparent_call

STD_VARIANTS = {
    "std::option::Option": {0: "None", 1: "Some"},
    "std::result::Result": {0: "Ok", 1: "Err"},
    "std::ops::ControlFlow": {0: "Continue", 1: "Break"},
    "std::cmp::Ordering": {-1: "Less", 0: "Equal", 1: "Greater", 255: "Less"},
    "flume::TrySendError": {0: "Full", 1: "Disconnected"},
    "flume::TryRecvError": {0: "Empty", 1: "Disconnected"},
}


def cname(t):
    """callee name without turbofish"""
    return strip_generics(callee_name(t))


def method(n):
    """last path segment of a (generic-stripped) callee name"""
    return n.rsplit("::", 1)[-1]


_NM_CACHE = {}


def name_forms(n):
    """alternative spellings of a callee: `<A as T>::m` also answers to `A::m` and `T::m`"""
    r = _NM_CACHE.get(n)
    if r is not None:
        return r
    forms = [n]
    if n.startswith("<") and " as " in n and ">::" in n:
        head, m = n.rsplit(">::", 1)
        a, tr = head[1:].split(" as ", 1)
        a = a.split("<", 1)[0].lstrip("&").replace("mut ", "").strip()
        tr = tr.split("<", 1)[0]
        forms.append(a + "::" + m)
        forms.append(tr + "::" + m)
    _NM_CACHE[n] = forms
    return forms


def name_matches(n, *suffixes):
    for f in name_forms(n):
        for s in suffixes:
            if f == s or f.endswith("::" + s) or f.endswith(s):
                return True
    return False


def is_call_to(t, *suffixes):
    if t["k"] != "call":
        return False
    return name_matches(cname(t), *suffixes)


def calls_to(fn, *suffixes):
    return [(b, t) for b, t in fn.calls() if is_call_to(t, *suffixes)]


def endpos(fn, bb):
    return (bb, len(fn.stmts(bb)))


def arg_expr(tr, fn, bb, t, i):
    return tr.operand(t["args"][i], endpos(fn, bb))


_FN2P = {}


def tracer(P, fn, _cache={}):
    key = (id(P), fn.name)
    tr = _cache.get(key)
    if tr is None:
        tr = Tracer(P, fn)
        _cache[key] = tr
        _FN2P[id(fn)] = P
    return tr


# ------------------------------------------------------------------------------------------------
# conditions
# ------------------------------------------------------------------------------------------------
def variant_names(P, ty):
    """discriminant value -> variant name for an enum type string"""
    base = ty.split("<", 1)[0].strip().lstrip("&").replace("mut ", "").strip()
    if base in STD_VARIANTS:
        return STD_VARIANTS[base]
    a = P.adts.get(base)
    if a and a["kind"].lower().startswith("enum"):
        out = {}
        for i, v in enumerate(a["variants"]):
            d = v.get("discr")
            out[d if d is not None else i] = v["name"]
        return out
    return {}


def switch_edges(P, fn, bb):
    """For a switch block: list of (target_bb, atom_expr, outcome) where outcome is
       True/False for boolean atoms (after removing Not), or a frozenset of variant names /
       integer values for discriminant switches ('otherwise' = complement)."""
    t = fn.term(bb)
    if t["k"] != "switch":
        return []
    tr = tracer(P, fn)
    e = tr.operand(t["d"], endpos(fn, bb))
    dty = (t["d"].get("p") or {}).get("ty") or t["d"].get("ty") or ""
    out = []
    neg = False
    while e[0] == "unop" and e[1] == "Not":
        e = e[2]
        neg = not neg
    if dty == "bool":
        for v, tgt in t["branches"]:
            val = bool(v)
            out.append((tgt, e, (not val) if neg else val))
        vals = {bool(v) for v, _ in t["branches"]}
        if len(vals) == 1:
            other = not next(iter(vals))
            out.append((t["otherwise"], e, (not other) if neg else other))
        return out
    if e[0] == "discr":
        inner = e[1]
        # type of the scrutinee
        names = {}
        sty = _expr_type_hint(fn, t, inner)
        if sty:
            names = variant_names(P, sty)
        seen = set()
        for v, tgt in t["branches"]:
            nm = names.get(v, v)
            seen.add(nm)
            out.append((tgt, ("variant", inner), frozenset([nm])))
        rest = frozenset(set(names.values()) - seen) if names else frozenset(["<other>"])
        if not _is_unreachable_block(fn, t["otherwise"]):
            out.append((t["otherwise"], ("variant", inner), rest))
        return out
    # integer switch
    seen = set()
    for v, tgt in t["branches"]:
        seen.add(v)
        out.append((tgt, ("int", e), frozenset([v])))
    out.append((t["otherwise"], ("int", e), ("not", frozenset(seen))))
    return out


def _is_unreachable_block(fn, bb):
    return fn.term(bb)["k"] == "unreachable" and not fn.stmts(bb)


def _expr_type_hint(fn, t, inner):
    """type string of the place whose discriminant is switched on (search the Discriminant stmt)"""
    # find the statement `_x = discriminant(place)` feeding this switch in the same function
    d = t["d"]
    if "p" not in d:
        return None
    l = d["p"]["l"]
    for (b, i, kind, payload) in fn.defs().get(l, []):
        if kind == "assign" and payload["k"] == "discr":
            return payload["p"]["ty"]
    return None


_FLIP = {"Gt": "Lt", "Lt": "Gt", "Ge": "Le", "Le": "Ge", "Eq": "Eq", "Ne": "Ne"}
_NEG = {"Gt": "Le", "Le": "Gt", "Lt": "Ge", "Ge": "Lt", "Eq": "Ne", "Ne": "Eq"}


def equivalent_forms(atom, outcome):
    """the logically equivalent ways of writing `atom evaluated to outcome` for a comparison: operands swapped
    (a > b ≡ b < a), the comparison negated with the other outcome (¬(a >= b) ≡ a < b), and eq/ne calls exchanged.
    A rule written for one spelling of a guard accepts every other spelling of the same fact."""
    out = [(atom, outcome)]
    if not isinstance(outcome, bool):
        return out
    if atom[0] == "binop" and atom[1] in _FLIP and len(atom) >= 4:
        op, l, r = atom[1], atom[2], atom[3]
        rest = tuple(atom[4:])
        out.append((("binop", _FLIP[op], r, l) + rest, outcome))
        out.append((("binop", _NEG[op], l, r) + rest, not outcome))
        out.append((("binop", _FLIP[_NEG[op]], r, l) + rest, not outcome))
    elif atom[0] == "call" and len(atom) >= 4:
        n = atom[1]
        base = strip_generics(n)
        for (x, y) in (("::is_some", "::is_none"), ("::is_none", "::is_some"), ("::is_ok", "::is_err"), ("::is_err", "::is_ok")):
            if base.endswith(x):
                out.append((("call", n[:n.rfind("::")] + y) + tuple(atom[2:]), not outcome))
        if base.endswith("::eq") or base.endswith("::ne"):
            other = n[:n.rfind("::")] + ("::ne" if base.endswith("::eq") else "::eq")
            out.append((("call", other) + tuple(atom[2:]), not outcome))
            if len(atom[2]) == 2:
                sw = (atom[2][1], atom[2][0])
                out.append((("call", n, sw) + tuple(atom[3:]), outcome))
                out.append((("call", other, sw) + tuple(atom[3:]), not outcome))
    return out


FILTER_ADAPTORS = ("filter", "take_while", "skip_while__no")


def _closure_truth(P, cf, depth=0):
    """[(atom, outcome)] facts that hold whenever the closure returns true: its return expression when there is a
    single non-constant alternative (`|x| cond`, `|x| a && cond`: the last conjunct), with Not stripped"""
    from .f12 import ret_exprs
    out = []
    alts = []
    for e in ret_exprs(P, cf):
        for a in (e[1] if e[0] == "phi" else (e,)):
            alts.append(a)
    live = [a for a in alts if not (a[0] == "const" and a[1] in (0, False))]
    if len(live) != 1:
        return out
    e = live[0]
    o = True
    while e[0] == "unop" and e[1] == "Not":
        e = e[2]
        o = not o
    out.append((e, o))
    return out


def _some_and_atoms(P, fn, base):
    """`opt.is_some_and(|v| cond)` == true implies cond about the payload (the false edge implies nothing: None or !cond)"""
    out = []
    for (edge, atom, outcome) in base:
        if atom[0] == "call" and outcome is True and len(atom[2]) >= 2 and method(strip_generics(atom[1])) in ("is_some_and", "is_ok_and"):
            for c in walk(atom[2][1]):
                if c[0] == "closure" and c[1] in P.fns:
                    for (a, o) in _closure_truth(P, P.fns[c[1]]):
                        a2 = subst_captures(_subst_param2(a, ("payload", atom[2][0])), c[2] if len(c) > 2 and isinstance(c[2], tuple) else ())
                        for (a3, o3) in equivalent_forms(a2, o):
                            out.append((edge, a3, o3))
    return out


def guard_atoms(P, fn):
    """every (edge, atom, outcome) fact a rule may use as a guard in fn: the switch edges in every equivalent spelling,
    and, for loops over `iter.filter(|x| cond)`, the loop-entry edge with cond (captures replaced by the parent's
    expressions; the closure's own parameter stays `("param", 2)`-based and stands for the loop item)"""
    out = []
    for b in sorted(fn.live_blocks()):
        if fn.term(b)["k"] != "switch":
            continue
        for (tgt, atom, outcome) in switch_edges(P, fn, b):
            for (a2, o2) in equivalent_forms(atom, outcome):
                out.append(((b, tgt), a2, o2))
    out.extend(_some_and_atoms(P, fn, out))
    tr = None
    for nb, t in fn.calls():
        if method(cname(t)) != "next" or not t["args"]:
            continue
        tr = tr or tracer(P, fn)
        e = tr.operand(t["args"][0], endpos(fn, nb))
        truths = []
        for x in walk(e):
            if x[0] == "call" and strip_generics(x[1]).rsplit("::", 1)[-1] in ("filter", "take_while") and len(x[2]) >= 2:
                for c in walk(x[2][1]):
                    if c[0] == "closure" and c[1] in P.fns:
                        for (atom, o) in _closure_truth(P, P.fns[c[1]]):
                            # the closure's own item parameter first: a captured variable may itself be the parent's `param 2`
                            truths.append((subst_captures(subst_item(atom, x[2][0]), c[2] if len(c) > 2 and isinstance(c[2], tuple) else ()), o))
        if not truths:
            continue
        for b in fn.live_blocks():
            if fn.term(b)["k"] != "switch":
                continue
            for (tgt, atom, outcome) in switch_edges(P, fn, b):
                if atom[0] == "variant" and outcome == frozenset(["Some"]) and any(y[0] == "call" and y[3] == (fn.name, nb) for y in walk(atom[1])):
                    for (a, o) in truths:
                        for (a2, o2) in equivalent_forms(a, o):
                            out.append(((b, tgt), a2, o2))
    return out


def _subst_param2(e, repl):
    if not isinstance(e, tuple):
        return e
    if e == ("param", 2):
        return repl
    return tuple(_subst_param2(x, repl) for x in e)


def subst_item(e, base):
    """the closure's item parameter replaced by `an item of <the iterator the adaptor is applied to>`, so that a rule can
    see what the tested value ranges over"""
    if not isinstance(e, tuple):
        return e
    if e == ("param", 2):
        return ("iteritem", base)
    return tuple(subst_item(x, base) for x in e)


def subst_captures(e, ops):
    """an expression of a closure body with its captured variables (`arg1.i`) replaced by what the parent captured"""
    if not isinstance(e, tuple):
        return e
    if len(e) >= 3 and e[0] == "field" and isinstance(e[2], int) and e[2] < len(ops):
        base = e[1]
        if base == ("param", 1) or (isinstance(base, tuple) and len(base) == 2 and base[0] == "deref" and base[1] == ("param", 1)):
            return ops[e[2]]
    return tuple(subst_captures(x, ops) for x in e)


def filter_guard_edges(P, fn, pred):
    """`for x in iter.filter(|x| cond) { body }` guards the body by cond just as `if !cond { continue }` does: the Some
    edge of the loop's `next()` counts as a guard edge when the filter closure's truth satisfies pred"""
    edges = set()
    tr = None
    for nb, t in fn.calls():
        if method(cname(t)) != "next" or not t["args"]:
            continue
        tr = tr or tracer(P, fn)
        e = tr.operand(t["args"][0], endpos(fn, nb))
        hit = False
        for x in walk(e):
            if x[0] == "call" and strip_generics(x[1]).rsplit("::", 1)[-1] in ("filter", "take_while") and len(x[2]) >= 2:
                for c in walk(x[2][1]):
                    if c[0] == "closure" and c[1] in P.fns:
                        for (atom, o) in _closure_truth(P, P.fns[c[1]]):
                            atom = subst_captures(subst_item(atom, x[2][0]), c[2] if len(c) > 2 and isinstance(c[2], tuple) else ())
                            for (a2, o2) in equivalent_forms(atom, o):
                                try:
                                    if pred(a2, o2, nb):
                                        hit = True
                                except (IndexError, TypeError):
                                    pass
        if not hit:
            continue
        for b in fn.live_blocks():
            if fn.term(b)["k"] != "switch":
                continue
            for (tgt, atom, outcome) in switch_edges(P, fn, b):
                if atom[0] == "variant" and outcome == frozenset(["Some"]) and any(y[0] == "call" and y[3] == (fn.name, nb) for y in walk(atom[1])):
                    edges.add((b, tgt))
    return edges


def guard_edges(P, fn, pred):
    """edges (b, tgt) of switch blocks for which pred(atom, outcome, bb) is true — for the atom as written or any
    logically equivalent spelling of it (equivalent_forms); plus the loop-entry edges of loops over a `.filter(..)`
    whose closure states the condition (filter_guard_edges)"""
    edges = set(filter_guard_edges(P, fn, pred))
    for b in fn.live_blocks():
        if fn.term(b)["k"] != "switch":
            continue
        for (tgt, atom, outcome) in switch_edges(P, fn, b):
            alts = atom[1] if atom[0] == "phi" and isinstance(outcome, bool) else (atom,)
            # a flag that holds one of several tests (`let drop = if v4 { a.is_none() } else { b.is_none() }`): the edge is a
            # guard when every test it may hold satisfies the predicate
            ok_all = bool(alts)
            for alt in alts:
                hit = False
                for (a2, o2) in equivalent_forms(alt, outcome):
                    try:
                        if pred(a2, o2, b):
                            hit = True
                            break
                    except (IndexError, TypeError):
                        continue
                if not hit:
                    ok_all = False
                    break
            if ok_all:
                edges.add((b, tgt))
            if atom[0] == "call" and outcome is True:
                for (_e, a3, o3) in _some_and_atoms(P, fn, [((b, tgt), atom, outcome)]):
                    try:
                        if pred(a3, o3, b):
                            edges.add((b, tgt))
                            break
                    except (IndexError, TypeError):
                        continue
    return edges


def edges_complement(P, fn, edges):
    """the other outgoing edges of the switch blocks that own `edges`"""
    out = set()
    for (b, _t) in edges:
        for s in fn.succs(b):
            if (b, s) not in edges:
                out.add((b, s))
    return out


def reachable_without(fn, site_bb, removed_edges=(), removed_blocks=(), start=0):
    return site_bb in fn.reachable(start, removed_edges=removed_edges, removed_blocks=removed_blocks)


def must_pass_edges(fn, site_bb, edges):
    """every (feasible) path entry -> site crosses one of `edges`: delete the guard edges and test that the
    site becomes unreachable.  Paths that take contradictory outcomes of the same *stable* boolean atom
    (an expression over parameters and constants only) are infeasible and pruned."""
    if not edges:
        return False
    if not reachable_without(fn, site_bb, removed_edges=edges):
        return True
    P = _FN2P.get(id(fn))
    if P is None:
        return False
    return not reachable_sensitive(P, fn, site_bb, removed_edges=edges)


def _stable(fn, e, depth=0):
    if depth > 12 or not isinstance(e, tuple):
        return False
    k = e[0]
    if k == "const":
        return True
    if k == "param":
        return len(fn.defs().get(e[1], [])) <= 1
    if k in ("binop", "checked"):
        return _stable(fn, e[2], depth + 1) and _stable(fn, e[3], depth + 1)
    if k == "unop":
        return _stable(fn, e[2], depth + 1)
    if k in ("cast", "coerce", "ref", "deref"):
        return _stable(fn, e[1], depth + 1)
    return False


def _stable_edge_facts(P, fn, _cache={}):
    """{(b, tgt): (atom, bool)} for switch edges on stable boolean atoms"""
    key = (id(P), fn.name)
    if key in _cache:
        return _cache[key]
    facts = {}
    for b in fn.live_blocks():
        if fn.term(b)["k"] != "switch":
            continue
        for (tgt, atom, outcome) in switch_edges(P, fn, b):
            if isinstance(outcome, bool) and _stable(fn, atom):
                if (b, tgt) in facts:
                    facts[(b, tgt)] = None     # both outcomes lead to the same target
                else:
                    facts[(b, tgt)] = (atom, outcome)
    facts = {k: v for k, v in facts.items() if v is not None}
    _cache[key] = facts
    return facts


def reachable_sensitive(P, fn, site_bb, removed_edges=(), removed_blocks=(), start=0, env0=()):
    facts = _stable_edge_facts(P, fn)
    if not facts:
        return reachable_without(fn, site_bb, removed_edges, removed_blocks, start)
    removed_edges = set(removed_edges)
    removed_blocks = set(removed_blocks)
    if start in removed_blocks:
        return False
    init = (start, frozenset(env0))
    seen = {init}
    st = [init]
    limit = 200000
    while st and limit > 0:
        limit -= 1
        b, env = st.pop()
        if b == site_bb:
            return True
        for s in fn.succs(b):
            if s in removed_blocks or (b, s) in removed_edges:
                continue
            env2 = env
            f = facts.get((b, s))
            if f is not None:
                atom, val = f
                d = dict(env)
                if atom in d and d[atom] != val:
                    continue
                if atom not in d:
                    d[atom] = val
                    env2 = frozenset(d.items())
            stt = (s, env2)
            if stt not in seen:
                seen.add(stt)
                st.append(stt)
    return limit <= 0


def must_pass_blocks(fn, site_bb, blocks, start=0):
    """every path start -> site passes through one of `blocks` (site itself excluded)"""
    blocks = set(blocks) - {site_bb}
    if start in blocks:
        return True
    return not reachable_without(fn, site_bb, removed_blocks=blocks, start=start)


def all_paths_to_return_pass(fn, from_bb, blocks, include_from=False):
    """every path from the end of from_bb to a `return` passes through one of `blocks`"""
    blocks = set(blocks)
    if include_from and from_bb in blocks:
        return True
    for s in fn.succs(from_bb):
        if s in blocks:
            continue
        reach = fn.reachable(s, removed_blocks=blocks)
        for r in reach:
            if fn.term(r)["k"] == "return":
                return False
    return True


def loop_every_iteration_passes(fn, head, body, blocks):
    """every cycle through `head` passes one of `blocks` (back edges unreachable from head without them)"""
    blocks = set(blocks)
    if head in blocks:
        return True
    backs = [b for b in fn.preds(head) if b in body and fn.dominates(head, b)]
    # reachability inside the body only
    seen = {head}
    st = [head]
    while st:
        x = st.pop()
        for s in fn.succs(x):
            if s not in body or s in blocks or s in seen:
                continue
            if s == head:
                continue
            seen.add(s)
            st.append(s)
    return not any(b in seen for b in backs)


# ------------------------------------------------------------------------------------------------
# expression predicates
# ------------------------------------------------------------------------------------------------
def expr_calls(e):
    return [x for x in walk(e) if x[0] == "call"]


def has_call(e, *suffixes):
    for c in expr_calls(e):
        if name_matches(strip_generics(c[1]), *suffixes):
            return True
    return False


def is_lowercased(e, depth=0):
    """value derives (through transparent steps) from a to_lowercase() result on every alternative"""
    alts = strip(e)
    if not alts:
        return False
    for a in alts:
        if a[0] == "call" and strip_generics(a[1]).endswith("::to_lowercase"):
            continue
        return False
    return True


def const_value(e):
    """integer constant value of an expression if it is a constant (through casts)"""
    for a in strip(e):
        while a[0] == "cast":
            a = a[1]
        if a[0] == "const" and isinstance(a[1], int):
            return a[1]
    return None


def fold(e):
    """constant-fold an expression to an int if possible"""
    k = e[0]
    if k == "const":
        return e[1] if isinstance(e[1], int) else None
    if k in ("cast", "coerce"):
        return fold(e[1])
    if k == "binop":
        a, b = fold(e[2]), fold(e[3])
        if a is None or b is None:
            return None
        op = e[1]
        if op.startswith("Add"):
            return a + b
        if op.startswith("Sub"):
            return a - b
        if op.startswith("Mul"):
            return a * b
        if op == "BitOr":
            return a | b
        if op == "BitAnd":
            return a & b
        if op == "BitXor":
            return a ^ b
        if op == "Div" and b:
            return a // b
        if op.startswith("Shl"):
            return a << b
        if op.startswith("Shr"):
            return a >> b
    return None


def where(fn, bb, idx=None):
    return fn.loc(bb, idx)


def fkey(fn):
    return fn.name


# ------------------------------------------------------------------------------------------------
# aggregates / enum construction sites
# ------------------------------------------------------------------------------------------------
def aggregates(fn, adt_suffix, variant=None):
    """yield (bb, idx, stmt) of Aggregate assignments constructing adt (and variant)"""
    for b, i, s in fn.assigns():
        r = s["r"]
        if r["k"] == "aggregate" and r["ak"] == "adt" and (r.get("adt") or "").endswith(adt_suffix):
            if variant is None or r.get("vname") == variant:
                yield b, i, s


DERIVED_IMPLS = (" as std::clone::Clone>::", " as std::fmt::Debug>::", " as std::cmp::PartialEq>::", " as serde::",
                 " as std::default::Default>::", " as std::hash::Hash>::")


def is_derived_impl(f):
    return f.name.startswith("<") and any(s in f.name for s in DERIVED_IMPLS)


def all_aggregates(P, adt_suffix, variant=None, tests=False):
    for f in (P.fns.values() if tests else P.lib_fns()):
        if is_derived_impl(f):
            continue
        for b, i, s in aggregates(f, adt_suffix, variant):
            yield f, b, i, s


def field_writes(P, owner_suffix, field):
    """yield (fn, bb, idx, stmt) for direct assignments to <owner>.<field> through any base"""
    for f in P.lib_fns():
        for b, i, s in f.assigns():
            pr = s["p"]["proj"]
            if pr and pr[-1][0] == "field" and pr[-1][2] == field and pr[-1][4].endswith(owner_suffix):
                yield f, b, i, s


def place_mentions_field(p, owner_suffix, field):
    for pe in p["proj"]:
        if pe[0] == "field" and pe[2] == field and pe[4].endswith(owner_suffix):
            return True
    return False


def expr_mentions_field(e, field, owner_suffix=None):
    for x in walk(e):
        if x[0] == "field" and x[2] == field and (owner_suffix is None or (x[3] or "").endswith(owner_suffix)):
            return True
    return False


# ------------------------------------------------------------------------------------------------
# channel sends / event emissions
# ------------------------------------------------------------------------------------------------
def value_variants(e, depth=0):
    """set of (adt, variant) an enum-valued expression may be built as; '?' entries for unknown"""
    out = set()
    if depth > 10:
        return {("?", "depth")}
    for a in strip(e):
        k = a[0]
        if k == "agg" and a[1] == "adt":
            adt = a[2] or ""
            if adt.endswith("option::Option") and a[3] == "Some" and a[4]:
                out |= value_variants(a[4][0], depth + 1)
            elif adt.endswith("option::Option") and a[3] == "None":
                continue
            else:
                out.add((adt, a[3]))
        elif k == "payload":
            out |= value_variants(a[1], depth + 1)
        elif k == "call" and strip_generics(a[1]).endswith("Box::new") and a[2]:
            out |= value_variants(a[2][0], depth + 1)
        elif k == "param":
            out.add(("?param", a[1]))
        else:
            out.add(("?", show(a)[:60]))
    return out


class Emission:
    def __init__(self, fn, bb, t, chan, ev, recv, blocking, via):
        self.fn, self.bb, self.t, self.chan, self.ev, self.recv = fn, bb, t, chan, ev, recv
        self.blocking = blocking
        self.via = via
        self.variants = value_variants(ev)

    def names(self):
        return {v for (_a, v) in self.variants}

    def __repr__(self):
        return "Emission(%s@%s %s %s)" % (self.fn.name, self.fn.term_line(self.bb), self.chan, sorted(self.names()))


def direct_sends(P, fn):
    out = []
    tr = tracer(P, fn)
    for b, t in fn.calls():
        n = cname(t)
        if n in ("flume::Sender::send", "flume::Sender::try_send") or n.endswith("flume::Sender::send_timeout"):
            chan = (t.get("gargs") or ["?"])[0]
            recv = tr.operand(t["args"][0], endpos(fn, b))
            ev = tr.operand(t["args"][1], endpos(fn, b))
            out.append(Emission(fn, b, t, chan, ev, recv, n.endswith("::send"), "direct"))
    return out


def emission_wrappers(P):
    """functions that forward one of their parameters as the event of a send: {fn name: (param idx, chan)}"""
    w = {}
    for f in P.lib_fns():
        for em in direct_sends(P, f):
            for (a, v) in em.variants:
                if a == "?param" and not f.is_closure:
                    w[f.name] = (v, em.chan)
    return w


def closure_captures(P, parent, closure_name):
    tr = tracer(P, parent)
    for b, i, s in parent.assigns():
        r = s["r"]
        if r["k"] == "aggregate" and r["ak"] == "closure" and r.get("closure") == closure_name:
            return [tr.operand(o, (b, i)) for o in r["ops"]]
    return None


def _closure_wrappers(P, w):
    """a closure that sends (a clone of) a captured value which is a parameter of its parent"""
    for f in P.lib_fns():
        if not f.is_closure:
            continue
        parent = P.fns.get(f.name.rsplit("::{closure", 1)[0])
        if parent is None or parent.is_closure:
            continue
        for em in direct_sends(P, f):
            for a in strip(em.ev):
                caps = [x for x in walk(a) if x[0] == "field" and isinstance(x[2], int) and ("param", 1) in strip(x[1])]
                if not caps:
                    continue
                cap = closure_captures(P, parent, f.name)
                if not cap:
                    continue
                for c in caps:
                    if c[2] < len(cap):
                        for y in strip(cap[c[2]]):
                            if y[0] == "param":
                                w[parent.name] = (y[1], em.chan)


def emissions(P, _cache={}):
    """all event emission sites: direct sends and calls of forwarding wrappers"""
    key = id(P)
    if key in _cache:
        return _cache[key]
    wr = emission_wrappers(P)
    _closure_wrappers(P, wr)
    out = []
    for f in P.lib_fns():
        out.extend(direct_sends(P, f))
        tr = tracer(P, f)
        for b, t in f.calls():
            for tgt in P.call_targets(t):
                if tgt in wr:
                    idx, chan = wr[tgt]
                    if idx - 1 < len(t["args"]):
                        ev = tr.operand(t["args"][idx - 1], endpos(f, b))
                        out.append(Emission(f, b, t, chan, ev, None, True, tgt))
    _cache[key] = out
    return out


def may_send(P, _cache={}):
    """set of function names from which a flume send/try_send is reachable in the call graph"""
    key = id(P)
    if key in _cache:
        return _cache[key]
    direct = {f.name for f in P.lib_fns() if direct_sends(P, f)}
    rcg = P.rev_callgraph()
    seen = set(direct)
    st = list(direct)
    while st:
        x = st.pop()
        for c in rcg.get(x, ()):
            if c not in seen:
                seen.add(c)
                st.append(c)
    _cache[key] = seen
    return seen


def recv_is_field(P, fn, bb, t, field, owner=None, argi=0):
    """the receiver is exactly `<self-ish>.<field>` (not something looked up through it)"""
    tr = tracer(P, fn)
    e = tr.operand(t["args"][argi], endpos(fn, bb))
    alts = strip(e)
    if not alts:
        return False
    for a in alts:
        if not (a[0] == "field" and a[2] == field and (owner is None or (a[3] or "").endswith(owner))):
            return False
    return True


def recv_mentions(P, fn, bb, t, field, owner=None, argi=0):
    tr = tracer(P, fn)
    e = tr.operand(t["args"][argi], endpos(fn, bb))
    return expr_mentions_field(e, field, owner)


def blocks_calling(P, fn, pred):
    """blocks of fn whose call terminator satisfies pred(name, t)"""
    return [b for b, t in fn.calls() if pred(cname(t), t)]


def blocks_calling_local(P, fn, targets):
    targets = set(targets)
    return [b for b, t in fn.calls() if targets & set(P.call_targets(t))]


# ------------------------------------------------------------------------------------------------
# boolean flags: `let f = matches!(x, P)` / `let mut ok = false; if c { ok = true }; if ok {..}`
# ------------------------------------------------------------------------------------------------
def _flag_local(fn, bb):
    """for a switch on a bool: the local holding the flag (following copies) and the position of the read"""
    t = fn.term(bb)
    d = t["d"]
    if "p" not in d or d["p"]["proj"]:
        return None, None
    l = d["p"]["l"]
    pos = endpos(fn, bb)
    for _ in range(6):
        defs = fn.reaching_defs(l, pos)
        if len(defs) == 1 and defs[0][2] == "assign" and defs[0][3]["k"] == "use" and defs[0][3]["a"]["k"] in ("copy", "move") \
                and not defs[0][3]["a"]["p"]["proj"]:
            pos = (defs[0][0], defs[0][1])
            l = defs[0][3]["a"]["p"]["l"]
            continue
        break
    return l, pos


def flag_edges(P, fn, base_edges, rounds=2):
    """edges of boolean-flag switches that imply one of base_edges was taken: every reaching definition that
    makes the flag true sits in a block that can only be reached through base_edges"""
    edges = set(base_edges)
    for _ in range(rounds):
        added = False
        for b in fn.live_blocks():
            t = fn.term(b)
            if t["k"] != "switch":
                continue
            dty = (t["d"].get("p") or {}).get("ty")
            if dty != "bool":
                continue
            l, pos = _flag_local(fn, b)
            if l is None:
                continue
            defs = fn.reaching_defs(l, pos)
            if len(defs) < 2:
                continue
            consts = []
            nonconst = []
            for (db, di, kind, payload) in defs:
                if kind == "assign" and payload["k"] == "use" and payload["a"]["k"] == "const" and payload["a"].get("val") in (0, 1, True, False):
                    consts.append((db, bool(payload["a"]["val"])))
                elif kind in ("assign", "call"):
                    nonconst.append(db)      # a computed value: may be true or false
                else:
                    consts = None
                    break
            if not consts:
                continue
            for val in (True, False):
                blocks = [db for (db, v) in consts if v is val] + nonconst
                if blocks and all(must_pass_edges(fn, db, edges) for db in blocks):
                    for (v, tgt) in [(bool(v_), tg) for v_, tg in t["branches"]] + [(None, t["otherwise"])]:
                        vv = v if v is not None else (not bool(t["branches"][0][0]) if len(t["branches"]) == 1 else None)
                        if vv is val and (b, tgt) not in edges:
                            edges.add((b, tgt))
                            added = True
        if not added:
            break
    return edges


def guarded(P, fn, site_bb, base_edges):
    """site is reachable only through base_edges, allowing boolean flags set under them"""
    if not base_edges:
        return False
    if must_pass_edges(fn, site_bb, base_edges):
        return True
    return must_pass_edges(fn, site_bb, flag_edges(P, fn, base_edges))


ITER_UNWRAP = ("::next", "::into_iter", "::iter", "::iter_mut", "::keys", "::values", "::values_mut", "::by_ref", "::drain", "::enumerate",
               "::peekable", "::cloned", "::copied")


def iter_base(e):
    """the collection expression an iterator step (`next(..)`) ranges over: unwrap next/into_iter/iter/keys/..."""
    out = set()
    st = [e]
    seen = set()
    while st:
        x = st.pop()
        if x in seen:
            continue
        seen.add(x)
        if x[0] in ("ref", "deref", "coerce"):
            st.append(x[1])
        elif x[0] == "phi":
            st.extend(x[1])
        elif x[0] == "call" and any(strip_generics(x[1]).endswith(s) for s in ITER_UNWRAP) and x[2]:
            st.append(x[2][0])
        else:
            out.add(x)
    return out


def is_field_expr(x, field, owner=None):
    return x[0] == "field" and x[2] == field and (owner is None or (x[3] or "").endswith(owner))


# ------------------------------------------------------------------------------------------------
# the "this command is being re-run from the retransmission list" flag, identified by data flow and not by its name
# ------------------------------------------------------------------------------------------------
def rerun_flag_param(P, fn, _cache={}):
    """index (1-based local) of the parameter of `fn` that receives exec_command's rerun flag: exec_command is
    called with the constant `true` from the retransmission loop of `run` and with `false` for fresh commands; the
    handlers get that parameter passed on.  Falls back to None."""
    key = (id(P), fn.name)
    if key in _cache:
        return _cache[key]
    res = None
    try:
        ec = P.one("Zeroconf::exec_command")
        # which parameter of exec_command is the flag: the one that receives boolean constants at its call sites
        flag = None
        consts = {}
        for (g, b, t) in P.call_sites_of(ec.name):
            for ai, a in enumerate(t["args"]):
                if a.get("k") == "const" and a.get("ty") == "bool":
                    consts.setdefault(ai, set()).add(bool(a.get("val")))
        for ai, vs in consts.items():
            if vs == {True, False}:
                flag = ai + 1
        if fn is ec:
            res = flag
        elif flag is not None:
            tr = tracer(P, ec)
            for b, t in ec.calls():
                if fn.name in P.call_targets(t):
                    for ai, a in enumerate(t["args"]):
                        e = tr.operand(a, endpos(ec, b))
                        if strip(e) == {("param", flag)}:
                            res = ai + 1
    except KeyError:
        res = None
    if res is None:
        for l in range(1, fn.argc + 1):
            if fn.locals[l].get("name") == "repeating":
                res = l
    _cache[key] = res
    return res


def param_index(fn, name, ty=None, exclude=()):
    """1-based index of a parameter: the unique parameter of type `ty` (not in `exclude`) when there is exactly one,
    else the parameter called `name`.  Keeps the rules independent of parameter names where the type already says
    which one is meant."""
    if ty is not None:
        c = [l for l in range(1, fn.argc + 1) if fn.locals[l]["ty"].replace("mdns_sd::", "") == ty and l not in exclude]
        if len(c) == 1:
            return c[0]
    for l in range(1, fn.argc + 1):
        if fn.locals[l].get("name") == name:
            return l
    return None


# ------------------------------------------------------------------------------------------------
# "this step is taken on every iteration", tolerant of the step living in a helper function
# ------------------------------------------------------------------------------------------------
def lift_to_inner_loop(fn, b, outer_head=None):
    """the head of the outermost loop (other than outer_head) that contains b, else b: a step inside `for x in .. { step }`
    is 'taken' when the loop is entered"""
    loops = fn.loops()
    inner = [h for h, body in loops.items() if b in body and h != outer_head]
    return max(inner, key=lambda h: len(loops[h])) if inner else b


def blocks_always_reaching(P, g, pred, outer_head=None, depth=0):
    """blocks of g (lifted to their inner loop) whose execution certainly leads to a call satisfying pred(name): the
    call itself, or a call of a crate function in which every path from entry to return passes such a block.
    Returns [(block, [call chain])]"""
    out = []
    for b, t in g.calls():
        if pred(cname(t)):
            out.append((lift_to_inner_loop(g, b, outer_head), [g.name]))
        elif depth < 3:
            for tgt in P.call_targets(t):
                k = P.fns.get(tgt)
                if k is None or k.name == g.name or k.in_tests() or k.is_closure:
                    continue
                sub = blocks_always_reaching(P, k, pred, None, depth + 1)
                if sub and all_paths_to_return_pass(k, 0, [x for x, _c in sub], include_from=True) and \
                        not _returns_without(k, [x for x, _c in sub]):
                    out.append((lift_to_inner_loop(g, b, outer_head), [g.name] + sub[0][1]))
    return out


def _returns_without(k, blocks):
    blocks = set(blocks)
    if 0 in blocks:
        return False
    reach = k.reachable(0, removed_blocks=blocks)
    return any(k.term(r)["k"] == "return" for r in reach)


def direct_callers_in_lib(P, pred):
    """[(fn, bb, t)] of the non-test call sites whose callee satisfies pred(name)"""
    return [(f, b, t) for f in P.lib_fns() if not f.in_tests() for b, t in f.calls() if pred(cname(t))]


def fn_mentions_field(P, fn, owner_suffix, field, depth=0):
    """some place in fn's body (or in a closure it builds) projects <owner>.<field>"""
    def places(j):
        if isinstance(j, dict):
            if "proj" in j and "l" in j:
                yield j
            for v in j.values():
                yield from places(v)
        elif isinstance(j, list):
            for v in j:
                yield from places(v)
    for b in range(fn.n):
        for s in fn.stmts(b):
            for p in places(s):
                if place_mentions_field(p, owner_suffix, field):
                    return True
        for p in places(fn.term(b)):
            if place_mentions_field(p, owner_suffix, field):
                return True
    if depth < 3:
        for c in P.closures_of.get(fn.name, []):
            if fn_mentions_field(P, P.fns[c], owner_suffix, field, depth + 1):
                return True
    return False


def expr_or_closure_mentions_field(P, e, field, owner_suffix):
    """the expression reads <owner>.<field> itself or through a closure it applies (a closure that captures `self` as a
    whole shows the field only in its own body)"""
    if expr_mentions_field(e, field, owner_suffix):
        return True
    for x in walk(e):
        if x[0] == "closure" and x[1] in P.fns and fn_mentions_field(P, P.fns[x[1]], owner_suffix, field):
            return True
    return False


def resolver_registration_fn(P):
    """the function that stores a hostname resolver (sender, deadline) in Zeroconf.hostname_resolvers: add_hostname_resolver,
    or its caller when that helper has been inlined"""
    hits = [f for f in P.lib_fns() if not f.in_tests() and not f.is_closure and
            any("HashMap" in cname(t) and method(cname(t)) == "insert" and recv_mentions(P, f, b, t, "hostname_resolvers", "Zeroconf") for b, t in f.calls())]
    if len(hits) != 1:
        raise KeyError("ANCHOR-MISSING: expected exactly one function inserting into hostname_resolvers, found %d" % len(hits))
    return hits[0]
