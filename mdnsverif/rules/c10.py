"""C10 — Known answers suppress exactly what they should, on both sides."""
from .lib import *
from .f12 import norm_cmp, expect_cmp, poly, ret_exprs, atom_of, F, P1, P2

EXPLANATION = (
    "Static rules at formula level: (a) F12 — suppressed_by_answer ≡ matches(other) ∧ other.ttl > self.ttl / 2 (strict, "
    "integer half); every matches() impl compares the entry and every RDATA field of its struct (field coverage), "
    "DnsAddress also the interface; suppressed_by is an existential over msg.answers only; (b) in add_answer the "
    "suppressed arm counts and returns false without reaching add_answer_at_time, and a suppressed PTR drops its "
    "additionals (C06d); (c) get_known_answers filters with ¬is_unique ∧ ¬halflife_passed(now), halflife_passed ≡ "
    "now > created + ttl·500, send_query_vec clones each record, applies update_ttl(now) and adds it as an answer, "
    "update_ttl subtracts elapsed/1000 only when now > created and cannot underflow given the half-life filter; "
    "(d) the send loop over my_intfs does not depend on the known-answer list.  Decides that the code computes the "
    "quoted formulas, not wire behaviour at the boundary values."
    " (e) A suppressed PTR takes its SRV/TXT/address additionals with it."
    " (f) Everything reachable from handle_query queues answers only through DnsOutgoing::add_answer. (g) A matched cached record always gets reset_ttl(incoming), also for a goodbye."
    " (h) matches() compares like with like."
    " (i) handle_query considers every question (shared with C06l). (j) A known-answer copy that had update_ttl(now) applied is handed to the packet with write time 0: the age is taken off once."
    " (k) as C06p: a suppressed answer does not hold the others back."
    " (l) reset_ttl writes ttl and created on every path, also for a goodbye: the known-answer list never works from the values of a withdrawn announcement.")
UNDECIDED = ["behaviour at the boundary values on the wire (that is what F12 pins to the formula, no more)",
             "responder handling of multi-packet known-answer lists (TC bit)"]

RDATA_FIELDS = {"DnsAddress": {"address", "interface_id"}, "DnsPointer": {"alias"}, "DnsSrv": {"host", "port", "weight", "priority"},
                "DnsTxt": {"text"}, "DnsHostInfo": {"cpu", "os"}, "DnsNSec": {"next_domain", "type_bitmap"}}


def _exact_compare_fields(P, g, depth=0):
    """(entry compared?, set of struct fields) that function g compares for exact equality: `==`/`!=` on values derived
    from the fields, directly or through a crate helper that itself only compares its parameters exactly"""
    gtr = tracer(P, g)
    seen = set()
    entry = False

    def fields_of(e):
        nonlocal entry
        out = set()
        for x in walk(e):
            if x[0] == "field" and isinstance(x[2], str):
                if x[2] == "entry":
                    entry = True
                elif x[2] not in ("record", "0"):
                    out.add(x[2])
        return out
    for b, t in g.calls():
        if method(cname(t)) in ("eq", "ne"):
            for a in t["args"]:
                seen |= fields_of(gtr.operand(a, endpos(g, b)))
        elif depth < 2:
            for tg in P.call_targets(t):
                k = P.fns.get(tg)
                if k is None or k.name == g.name or k.in_tests() or k.is_closure:
                    continue
                if _compares_params_exactly(P, k):
                    for a in t["args"]:
                        seen |= fields_of(gtr.operand(a, endpos(g, b)))
                    e2, s2 = _exact_compare_fields(P, k, depth + 1)       # `self.text == other.text` inside the helper
                    entry = entry or e2
                    seen |= s2
    for b, i, s_ in g.assigns():
        if s_["r"]["k"] == "binop" and s_["r"]["op"] == "Eq":
            e = gtr.rvalue(s_["r"], (b, i))
            seen |= {f for f in fields_of(e) if f != "entry"}
    return entry, seen


def _compares_params_exactly(P, k):
    """k returns the outcome of `==` comparisons of (projections of) its parameters, nothing weaker"""
    ktr = tracer(P, k)
    cmp_calls = [(b, t) for b, t in k.calls() if method(cname(t)) in ("eq", "ne")]
    other = [(b, t) for b, t in k.calls() if method(cname(t)) not in ("eq", "ne", "deref", "as_ref", "as_slice", "as_str", "as_bytes", "borrow", "len")]
    if not cmp_calls or other:
        return False
    for rb in k.exits():
        for a in strip(ktr.local(0, endpos(k, rb))):
            if a[0] == "call" and method(strip_generics(a[1])) in ("eq", "ne"):
                continue
            if a[0] == "const":
                continue
            return False
    return True


def matches_coverage(ctx, P, pre, types=None):
    """every matches() impl compares the entry and every RDATA field of its struct for exact equality"""
    for ty, flds in RDATA_FIELDS.items():
        if types and ty not in types:
            continue
        g = P.one("<dns_parser::%s as dns_parser::DnsRecordExt>::matches" % ty)
        entry, seen = _exact_compare_fields(P, g)
        adt_fields = set(P.adt_fields("dns_parser::" + ty)) - {"record"}
        ok = entry and adt_fields <= seen
        ctx.ob(pre + ".matches-field-coverage", g.name, ok, g.loc(), "matches() compares the entry and every field of %s exactly: %s (struct has %s)" % (ty, sorted(seen), sorted(adt_fields)))
        # only against the same concrete type
        ok2 = bool([b for b, t in g.calls() if "downcast_ref" in cname(t)])
        ctx.ob(pre + ".matches-same-type", g.name, ok2, g.loc(), "matches() first downcasts the other record to the same type")


def clause_a(ctx, P, pre="C10a"):
    f = P.one("DnsRecordExt::suppressed_by_answer")
    tr = tracer(P, f)
    m = calls_to(f, "DnsRecordExt::matches")
    ctx.require(len(m) == 1, pre + ".anchor", f.name, f.loc(), "one matches() call")
    cmpx = []
    for b, i, s in f.assigns():
        if s["r"]["k"] == "binop" and s["r"]["op"] in ("Gt", "Ge", "Lt", "Le"):
            cmpx.append((b, i, tr.rvalue(s["r"], (b, i))))
    ok = False
    detail = ""
    if len(cmpx) == 1:
        e = cmpx[0][2]
        # any spelling of the comparison (`half < other.ttl`): take the `>` form
        for (a2, o2) in equivalent_forms(e, True):
            if o2 is True and a2[0] == "binop" and a2[1] == "Gt":
                e = a2
                break
        detail = show(e)
        # other.ttl > self.ttl / 2
        l, r = e[2], e[3]
        okl = any(x[0] == "field" and x[2] == "ttl" for x in walk(l)) and has_call(l, "DnsRecordExt::get_record") and any(y == ("param", 2) for y in walk(l))
        okr = r[0] == "binop" and r[1] == "Div" and fold(r[3]) == 2 and any(x[0] == "field" and x[2] == "ttl" for x in walk(r[2])) and any(y == ("param", 1) for y in walk(r[2]))
        ok = e[1] == "Gt" and okl and okr
    ctx.ob(pre + ".F12.half-ttl-formula", f.name, ok, f.loc(), "suppressed_by_answer compares other.ttl > self.ttl / 2 (strict, integer half): " + detail)
    # conjunction with matches(): the comparison is evaluated only when matches() is true, result true only if both
    if m:
        e_m = guard_edges(P, f, lambda atom, outcome, bb: atom[0] == "call" and atom[3] == (f.name, m[0][0]) and outcome is True)
        okc = bool(cmpx) and must_pass_edges(f, cmpx[0][0], e_m)
        rets = [tr.local(0, endpos(f, rb)) for rb in f.exits()]
        alts = set()
        for r in rets:
            alts |= strip(r)
        okr = all((a[0] == "const" and a[1] in (0, False)) or (a[0] == "binop" and a[1] in ("Gt", "Lt")) for a in alts)
        ctx.ob(pre + ".conjunction", f.name, okc and okr, f.loc(), "result = matches(other) && (ttl comparison): false constant or the comparison itself")
        a1 = tr.operand(m[0][1]["args"][1], endpos(f, m[0][0]))
        ctx.ob(pre + ".matches-other", f.name, strip(a1) == {("param", 2)}, f.loc(), "matches() is applied to the listed answer")
    matches_coverage(ctx, P, pre)
    # DnsEntry equality covers name, type, class, cache_flush (derived PartialEq) - struct fields
    ef = P.adt_fields("dns_parser::DnsEntry")
    ctx.ob(pre + ".entry-fields", "dns_parser::DnsEntry", set(ef) == {"name", "ty", "class", "cache_flush"}, "", "DnsEntry (derived PartialEq) = %s" % ef)
    sb = P.one("DnsRecordExt::suppressed_by")
    str_ = tracer(P, sb)
    sa = calls_to(sb, "DnsRecordExt::suppressed_by_answer")
    ok = len(sa) == 1
    if not sa:
        # `msg.answers.iter().any(|known| self.suppressed_by_answer(known))`: the same existential, spelled with the adaptor
        rets = [str_.local(0, endpos(sb, rb)) for rb in sb.exits()]
        ok = bool(rets)
        for r in rets:
            anys = [x for x in walk(r) if x[0] == "call" and method(strip_generics(x[1])) == "any" and len(x[2]) >= 2]
            good = False
            for x in anys:
                over = x[2][0]
                cl = [c for c in walk(x[2][1]) if c[0] == "closure" and c[1] in P.fns]
                if expr_mentions_field(over, "answers", "DnsIncoming") and not expr_mentions_field(over, "authorities", "DnsIncoming") and \
                        not expr_mentions_field(over, "additional", "DnsIncoming") and cl and \
                        any(name_matches(cname(t), "DnsRecordExt::suppressed_by_answer") for _b, t in P.fns[cl[0][1]].calls()):
                    good = True
            ok = ok and good and all(a[0] == "call" for a in strip(r))
    elif ok:
        e = str_.operand(sa[0][1]["args"][1], endpos(sb, sa[0][0]))
        ok = expr_mentions_field(e, "answers", "DnsIncoming") and not expr_mentions_field(e, "authorities", "DnsIncoming") and not expr_mentions_field(e, "additional", "DnsIncoming")
        e_t = guard_edges(P, sb, lambda atom, outcome, bb: atom[0] == "call" and atom[3] == (sb.name, sa[0][0]) and outcome is True)
        trues = [b for b, i, s in sb.assigns() if not s["p"]["proj"] and s["p"]["l"] == 0 and s["r"]["k"] == "use" and s["r"]["a"].get("val") in (1, True)]
        ok = ok and bool(trues) and all(must_pass_edges(sb, b, e_t) for b in trues)
    ctx.ob(pre + ".existential-over-answers", sb.name, ok, sb.loc(), "suppressed_by is true iff some record of msg.answers suppresses (answer section only)")


def clause_b(ctx, P):
    f = P.one("DnsOutgoing::add_answer")
    tr = tracer(P, f)
    sb = calls_to(f, "DnsRecordExt::suppressed_by")
    at = calls_to(f, "DnsOutgoing::add_answer_at_time")
    ctx.require(len(sb) == 1 and len(at) == 1, "C10b.anchor", f.name, f.loc(), "one suppressed_by and one add_answer_at_time")
    if len(sb) != 1 or len(at) != 1:
        return
    e_sup = guard_edges(P, f, lambda atom, outcome, bb: atom[0] == "call" and atom[3] == (f.name, sb[0][0]) and outcome is True)
    e_not = guard_edges(P, f, lambda atom, outcome, bb: atom[0] == "call" and atom[3] == (f.name, sb[0][0]) and outcome is False)
    ok = must_pass_edges(f, at[0][0], e_not)
    ctx.ob("C10b.suppressed-not-added", f.name, ok, f.loc(at[0][0]), "add_answer_at_time is reached only when the answer is not suppressed")
    incs = [(b, i) for b, i, s in f.assigns() if place_mentions_field(s["p"], "DnsOutgoing", "known_answer_count")]
    ok = bool(incs) and all(must_pass_edges(f, b, e_sup) for (b, i) in incs)
    ctx.ob("C10b.suppressed-counted", f.name, ok, f.loc(), "known_answer_count is incremented exactly on the suppressed arm")
    falses = [b for b, i, s in f.assigns() if not s["p"]["proj"] and s["p"]["l"] == 0 and s["r"]["k"] == "use" and s["r"]["a"].get("val") in (0, False)]
    ok = bool(falses) and all(must_pass_edges(f, b, e_sup) for b in falses)
    ctx.ob("C10b.suppressed-returns-false", f.name, ok, f.loc(), "the suppressed arm returns false")
    # the record tested is the record added
    a_s = tr.operand(sb[0][1]["args"][0], endpos(f, sb[0][0]))
    a_a = tr.operand(at[0][1]["args"][1], endpos(f, at[0][0]))
    ctx.ob("C10b.same-record", f.name, bool(strip(a_s) & strip(a_a)), f.loc(), "the record tested for suppression is the record added")


def clause_c(ctx, P):
    g = P.one("DnsCache::get_known_answers")
    found = False
    for c in P.closures_of.get(g.name, []):
        cf = P.fns[c]
        ctr = tracer(P, cf)
        if not [1 for b, t in cf.calls() if name_matches(cname(t), "DnsRecord::halflife_passed")]:
            continue
        found = True
        rets = [ctr.local(0, endpos(cf, rb)) for rb in cf.exits()]
        alts = set()
        for r in rets:
            alts |= strip(r)
        # !is_unique && !halflife_passed : alternatives are `false` or Not(halflife_passed)
        okr = all((a[0] == "const" and a[1] in (0, False)) or (a[0] == "unop" and a[1] == "Not" and has_call(a, "DnsRecord::halflife_passed")) for a in alts)
        e_nu = guard_edges(P, cf, lambda atom, outcome, bb: atom[0] == "call" and name_matches(strip_generics(atom[1]), "DnsRecord::is_unique") and outcome is False)
        hp = [b for b, t in cf.calls() if name_matches(cname(t), "DnsRecord::halflife_passed")]
        okg = bool(hp) and must_pass_edges(cf, hp[0], e_nu)
        ctx.ob("C10c.known-answer-filter", cf.name, okr and okg, cf.loc(), "known answers = records with !is_unique() && !halflife_passed(now)")
    if not found:
        # the same filter written as a loop: a record is pushed only past `!is_unique()` and `!halflife_passed(now)`
        pushes = [b for b, t in g.calls() if name_matches(cname(t), "Vec::push")]
        e_nu = guard_edges(P, g, lambda atom, outcome, bb: atom[0] == "call" and name_matches(strip_generics(atom[1]), "DnsRecord::is_unique") and outcome is False)
        e_nh = guard_edges(P, g, lambda atom, outcome, bb: atom[0] == "call" and name_matches(strip_generics(atom[1]), "DnsRecord::halflife_passed") and outcome is False)
        if pushes and e_nu and e_nh:
            found = True
            okl = all(must_pass_edges(g, b, e_nu) and must_pass_edges(g, b, e_nh) for b in pushes)
            ctx.ob("C10c.known-answer-filter", g.name, okl, g.loc(pushes[0]), "known answers = records with !is_unique() && !halflife_passed(now) (loop form)")
    ctx.require(found, "C10c.anchor", g.name, g.loc(), "filter of get_known_answers found (closure or loop)")
    h = P.one("DnsRecord::halflife_passed")
    rs = ret_exprs(P, h)
    # now > get_expiration_time(created, ttl, 50)
    ok = False
    if len(rs) == 1 and rs[0][0] == "binop" and rs[0][1] == "Gt":
        l, r = rs[0][2], rs[0][3]
        ok = strip(l) == {("param", 2)} and r[0] == "call" and name_matches(strip_generics(r[1]), "get_expiration_time") and fold(r[2][2]) == 50 \
            and any(x[0] == "field" and x[2] == "created" for x in walk(r[2][0])) and any(x[0] == "field" and x[2] == "ttl" for x in walk(r[2][1]))
    ctx.ob("C10c.F12.halflife-formula", h.name, ok, h.loc(), "halflife_passed ≡ now > get_expiration_time(created, ttl, 50) (%s)" % "; ".join(show(r) for r in rs))
    ge = P.one("dns_parser::get_expiration_time")
    rs = ret_exprs(P, ge)
    p = poly(rs[0]) if len(rs) == 1 else None
    want = {(("param", 1),): 1, tuple(sorted([("param", 2), ("param", 3)], key=repr)): 10}
    ctx.ob("C10c.F12.expiration-formula", ge.name, p == want, ge.loc(), "get_expiration_time ≡ created + ttl·percent·10 (ms): %s" % "; ".join(show(r) for r in rs))
    # the multiplication happens in u64
    gtr = tracer(P, ge)
    casts = [s for b, i, s in ge.assigns() if s["r"]["k"] == "cast" and s["r"]["ty"] == "u64"]
    muls = [(b, i, s) for b, i, s in ge.assigns() if s["r"]["k"] in ("binop", "checked") and s["r"]["op"].startswith("Mul")]
    ok = len(casts) >= 2 and all(s["r"]["a"].get("p", {}).get("ty", s["r"]["a"].get("ty")) == "u64" for (b, i, s) in muls)
    ctx.ob("C10c.expiration-widened", ge.name, ok, ge.loc(), "ttl and percent are widened to u64 before multiplying (max 2^32·100·10 < 2^64)")
    # send_query_vec: clone, update_ttl(now), add as answer
    s = P.one("Zeroconf::send_query_vec")
    st = tracer(P, s)
    ka = calls_to(s, "DnsCache::get_known_answers")
    ut = calls_to(s, "DnsRecord::update_ttl")
    ab = calls_to(s, "DnsOutgoing::add_answer_box")
    ok = len(ka) == 1 and len(ut) == 1 and len(ab) == 1
    ctx.require(ok, "C10c.anchor2", s.name, s.loc(), "get_known_answers / update_ttl / add_answer_box present")
    if ok:
        rec = st.operand(ab[0][1]["args"][1], endpos(s, ab[0][0]))
        okc = has_call(rec, "::clone") and any(x[0] == "call" and x[3] == (s.name, ka[0][0]) for x in walk(rec))
        ur = st.operand(ut[0][1]["args"][0], endpos(s, ut[0][0]))
        oku = s.dominates(ut[0][0], ab[0][0]) and bool({x for x in walk(ur) if x[0] == "call" and strip_generics(x[1]).endswith("::clone")} &
                                                         {x for x in walk(rec) if x[0] == "call" and strip_generics(x[1]).endswith("::clone")})
        ctx.ob("C10c.remaining-ttl-written", s.name, okc and oku, s.loc(ab[0][0]), "each known answer is a clone of the cached record with update_ttl(now) applied before it is added")
        nw = st.operand(ut[0][1]["args"][1], endpos(s, ut[0][0]))
        kn = st.operand(ka[0][1]["args"][3], endpos(s, ka[0][0]))
        ctx.ob("C10c.same-now", s.name, strip(nw) == strip(kn) and has_call(nw, "current_time_millis"), s.loc(), "the half-life filter and update_ttl use the same clock reading")
    u = P.one("DnsRecord::update_ttl")
    utr = tracer(P, u)
    e_gt = guard_edges(P, u, lambda atom, outcome, bb: atom[0] == "binop" and atom[1] == "Gt" and strip(atom[2]) == {("param", 2)} and outcome is True
                       and any(x[0] == "field" and x[2] == "created" for x in walk(atom[3])))
    ws = [(b, i) for b, i, s_ in u.assigns() if place_mentions_field(s_["p"], "DnsRecord", "ttl") and s_["p"]["proj"][-1][2] == "ttl"]
    ok = bool(ws) and all(must_pass_edges(u, b, e_gt) for (b, i) in ws)
    form = False
    for (b, i) in ws:
        e = utr.rvalue(u.stmts(b)[i]["r"], (b, i))
        # ttl - ((now - created) / 1000) as u32
        for a in strip(e):
            if a[0] == "binop" and a[1].startswith("Sub"):
                sub = a[3]
                while sub[0] == "cast":
                    sub = sub[1]
                if sub[0] == "binop" and sub[1] == "Div" and fold(sub[3]) == 1000:
                    form = True
    ctx.ob("C10c.F12.update-ttl-formula", u.name, ok and form, u.loc(), "update_ttl: when now > created, ttl -= (now - created) / 1000")
    # underflow impossible under the half-life filter: the only caller chain passes through the filter
    sites = [g2 for (g2, cb, t) in P.call_sites_of("dns_parser::DnsRecord::update_ttl") if not g2.in_tests()]
    ok = [x.name for x in sites] == ["service_daemon::Zeroconf::send_query_vec"]
    ctx.ob("C10c.update-ttl-single-caller", u.name, ok, u.loc(),
           "update_ttl is only applied to records that passed !halflife_passed(now) (elapsed <= ttl·500 ms ⇒ elapsed/1000 <= ttl/2): callers %s" % [x.name for x in sites])


def clause_d(ctx, P):
    s = P.one("Zeroconf::send_query_vec")
    st = tracer(P, s)
    sends = calls_to(s, "service_daemon::send_dns_outgoing")
    ctx.floor("C10d.sends", len(sends), 2, "send_dns_outgoing calls in send_query_vec (v4, v6)")
    ka = calls_to(s, "DnsCache::get_known_answers")
    for j, (b, t) in enumerate(sends):
        # no guard on the path to the send mentions the known-answer list
        bad = guard_edges(P, s, lambda atom, outcome, bb: ka and any(x[0] == "call" and x[3] == (s.name, ka[0][0]) for x in walk(atom[1] if atom[0] in ("variant", "int") else atom)))
        # edges inside the known-answer loop itself are fine; the send must be reachable with those loops exited either way
        loops = s.loops()
        ka_loops = [h for h, body in loops.items() if ka and ka[0][0] in body]
        ok = all(b not in body for h, body in loops.items() if h in ka_loops and len(body) < len(s.live_blocks()) // 2)
        ie = st.operand(t["args"][1], endpos(s, b))
        ok = ok and expr_mentions_field(ie, "my_intfs", "Zeroconf")
        ctx.ob("C10d.query-on-every-interface", "%s|send#%d" % (s.name, j + 1), ok, s.loc(b), "the query is sent for every interface of my_intfs, outside the known-answer loop")


def clause_e(ctx, P):
    """a suppressed PTR takes its additionals with it: SRV/TXT/address additionals are added only after the PTR answer
    was really added (same rule as C06d)"""
    from . import c06
    c06.clause_d(ctx, P)


def run(ctx, P):
    from . import r2
    r2.known_answers_always_consulted(ctx, P, "C10f")
    r2.cache_update_rules(ctx, P, "C10g", want=("reset",))
    r2.compares_like_with_like(ctx, P, "C10h", fnames=("matches",))
    from . import r4
    r4.every_question_considered(ctx, P, "C10i")
    r4.age_subtracted_once(ctx, P, "C10j")
    r4.goodbye_resets_ttl_and_created(ctx, P, "C10l")
    r4.collected_answers_are_sent(ctx, P, "C10k")   # a suppressed answer does not hold the others back
    clause_e(ctx, P)
    clause_a(ctx, P)
    clause_b(ctx, P)
    clause_c(ctx, P)
    clause_d(ctx, P)
