"""C08 — Name conflicts resolve to one winner and a consistent new name for the loser."""
from .lib import *
from . import f4
from .f6 import check_timer_pairing_fn
from .f12 import linear, P1, P2, F

EXPLANATION = (
    "Static rules: (a) DnsRecordExt::compare nests class → type → compare_rdata under Equal outcomes; F3(d) — every "
    "compare_rdata compares, through Ord::cmp only, the same fields in the same order as the type's write() emits; "
    "the failed-downcast fallback is Greater; tiebreaking falls back to the record counts, postpones only on Less by "
    "now + 1000 for both start_time and next_send; insert_record keeps probe records sorted by (class, type); "
    "(b) F6 — the postponed probe time written by tiebreaking is paired with a timer; (c) conflict_handler renames the "
    "conflicting record (name_change / hostname_change), records the change, re-probes with a timer, and "
    "handle_expired_probes emits NameChange and moves records to active; (d) F4 rename taint over every record "
    "builder: names that can be renamed pass DnsRegistry::resolve_name (or set_new_name from name_changes).  Decides "
    "these mechanisms, not convergence of several daemons over schedules."
    " (e) The answering service is selected by its resolved (post-rename) name."
    " (g) An interface's DnsRegistry is only created when absent (renames survive add_interface)."
    " (h) Rewritten probes restart. (i) Every comparison in matches / compare_rdata / rrdata_match pairs like with like (weight with weight)."
    " (j) as C07k. (k) as C04l. (l) as C06q. (m) Probe::expired depends on start_time alone, so moving start_time restarts a probe.")
UNDECIDED = ["convergence of two or three daemons (global liveness over schedules)", "text of the generated names (unit-tested string functions)",
             "opposite verdicts on both sides as a value-level property of cmp"]

RECORD_TYPES = ["DnsAddress", "DnsPointer", "DnsSrv", "DnsTxt", "DnsHostInfo", "DnsNSec"]


def _cmp_chain(P, fn):
    """ordered list of (block, compared field name) for Ord::cmp calls; each later one must be guarded by the Equal
    outcome of the previous"""
    tr = tracer(P, fn)
    cmps = []
    for b, t in fn.calls():
        n = cname(t)
        if method(n) == "cmp" and len(t["args"]) == 2:
            a0 = tr.operand(t["args"][0], endpos(fn, b))
            flds = [x[2] for x in walk(a0) if x[0] == "field" and isinstance(x[2], str) and x[2] not in ("0", "record")]
            a1 = tr.operand(t["args"][1], endpos(fn, b))
            flds1 = [x[2] for x in walk(a1) if x[0] == "field" and isinstance(x[2], str) and x[2] not in ("0", "record")]
            cmps.append((b, flds[-1] if flds else None, flds1[-1] if flds1 else None, n))
    # order by dominance
    cmps.sort(key=lambda c: len([d for d in cmps if fn.dominates(d[0], c[0])]))
    return cmps


def _write_fields(P, fn):
    tr = tracer(P, fn)
    out = []
    for b in sorted(fn.live_blocks(), key=lambda b: len(fn.dominators().get(b, ()))):
        t = fn.term(b)
        if t["k"] == "call" and name_matches(cname(t), "DnsOutPacket::write_short", "DnsOutPacket::write_name", "DnsOutPacket::write_bytes",
                                              "DnsOutPacket::write_u32", "DnsOutPacket::write_byte", "DnsOutPacket::write_utf8"):
            e = tr.operand(t["args"][1], endpos(fn, b))
            flds = [x[2] for x in walk(e) if x[0] == "field" and isinstance(x[2], str) and x[2] not in ("0", "record")]
            f = flds[-1] if flds else None
            if f and (not out or out[-1] != f):
                out.append(f)
    return out


def clause_a(ctx, P):
    fn = P.one("DnsRecordExt::compare")
    tr = tracer(P, fn)
    cm = [(b, t) for b, t in fn.calls() if method(cname(t)) == "cmp"]
    cr = calls_to(fn, "DnsRecordExt::compare_rdata")
    ok = len(cm) == 2 and len(cr) == 1
    ctx.require(ok, "C08a.anchor", fn.name, fn.loc(), "compare has two cmp calls and one compare_rdata call (%d/%d)" % (len(cm), len(cr)))
    if ok:
        if not fn.dominates(cm[0][0], cm[1][0]):
            cm = [cm[1], cm[0]]
        (b1, t1), (b2, t2) = cm
        e1 = tr.operand(t1["args"][0], endpos(fn, b1))
        e2 = tr.operand(t2["args"][0], endpos(fn, b2))
        o1 = has_call(e1, "DnsRecordExt::get_class") and has_call(e2, "DnsRecordExt::get_type")
        ctx.ob("C08a.compare-class-then-type", fn.name, o1, fn.loc(b1), "first comparison is on get_class(), second on get_type()")
        eq1 = guard_edges(P, fn, lambda atom, outcome, bb: atom[0] == "variant" and atom[1][0] == "call" and atom[1][3] == (fn.name, b1) and outcome == frozenset(["Equal"]))
        eq2 = guard_edges(P, fn, lambda atom, outcome, bb: atom[0] == "variant" and atom[1][0] == "call" and atom[1][3] == (fn.name, b2) and outcome == frozenset(["Equal"]))
        o2 = must_pass_edges(fn, b2, eq1) and must_pass_edges(fn, cr[0][0], eq2) and must_pass_edges(fn, cr[0][0], eq1)
        ctx.ob("C08a.compare-nesting", fn.name, o2, fn.loc(cr[0][0]), "type is compared only when classes are Equal; rdata only when both are Equal")
        # non-equal outcomes are returned unchanged
        rets = {show(x) for rb in fn.exits() for x in strip(tr.local(0, endpos(fn, rb)))}
        ctx.ob("C08a.compare-returns", fn.name, len(rets) >= 3, fn.loc(), "compare returns the class ordering, the type ordering or compare_rdata (%d alternatives)" % len(rets))
    # get_class excludes the cache-flush bit: DnsEntry::new masks the class
    en = P.one("DnsEntry::new")
    etr = tracer(P, en)
    okm = False
    for b, i, s in aggregates(en, "dns_parser::DnsEntry"):
        vals = dict(zip(s["r"]["fields"], [etr.operand(o, (b, i)) for o in s["r"]["ops"]]))
        c = vals.get("class")
        okm = c is not None and c[0] == "binop" and c[1] == "BitAnd" and fold(c[3]) == 0x7FFF
    ctx.ob("C08a.class-excludes-cache-flush", en.name, okm, en.loc(), "DnsEntry.class = class & 0x7FFF (cache-flush bit excluded from comparison)")
    # F3(d): per type, compare_rdata field order == write field order
    for ty in RECORD_TYPES:
        w = P.one("<dns_parser::%s as dns_parser::DnsRecordExt>::write" % ty)
        c = P.one("<dns_parser::%s as dns_parser::DnsRecordExt>::compare_rdata" % ty)
        wf = _write_fields(P, w)
        chain = _cmp_chain(P, c)
        cf = [x[1] for x in chain]
        same_side = all(x[1] == x[2] for x in chain)
        ctx.ob("C08a.F3d.rdata-order", c.name, wf == cf and same_side and bool(cf), c.loc(),
               "compare_rdata compares %s; write emits %s" % (cf, wf))
        # nesting: each later cmp guarded by Equal of the previous
        okn = True
        for k in range(1, len(chain)):
            pb = chain[k - 1][0]
            eq = guard_edges(P, c, lambda atom, outcome, bb, pb=pb: atom[0] == "variant" and atom[1][0] == "call" and atom[1][3] == (c.name, pb) and outcome == frozenset(["Equal"]))
            if not must_pass_edges(c, chain[k][0], eq):
                okn = False
        ctx.ob("C08a.F3d.rdata-nesting", c.name, okn, c.loc(), "each later field is compared only when all earlier fields are Equal")
        # numeric fields are compared as big-endian bytes or as whole values with the same order; strings/bytes by Ord
        ctr = tracer(P, c)
        # the failed-downcast fallback
        fall = [s for b, i, s in aggregates(c, "cmp::Ordering") if s["r"]["vname"] in ("Greater", "Less", "Equal")]
        okf = len(fall) >= 1 and all(s["r"]["vname"] == "Greater" for s in fall)
        ctx.ob("C08a.F3d.downcast-fallback", c.name, okf, c.loc(), "a foreign record type compares as Greater (fallback constant only)")
    # tiebreaking
    tb = P.one("Probe::tiebreaking")
    ttr = tracer(P, tb)
    lencmp = False
    for b, t in tb.calls():
        if method(cname(t)) == "cmp":
            a0 = ttr.operand(t["args"][0], endpos(tb, b))
            a1 = ttr.operand(t["args"][1], endpos(tb, b))
            if has_call(a0, "Vec::len") and expr_mentions_field(a0, "records", "Probe") and has_call(a1, "Vec::len"):
                lencmp = True
    ctx.ob("C08a.tiebreak-count-fallback", tb.name, lencmp, tb.loc(), "when all compared records are equal the record counts are compared (ours.cmp(theirs))")
    writes = []
    for b, i, s in tb.assigns():
        for fld in ("start_time", "next_send"):
            if place_mentions_field(s["p"], "Probe", fld) and s["p"]["proj"][-1][2] == fld:
                writes.append((fld, b, i, ttr.rvalue(s["r"], (b, i))))
    flds = sorted(w[0] for w in writes)
    okw = flds == ["next_send", "start_time"] and all(_now_plus(w[3], 1000) for w in writes)
    ctx.ob("C08a.F12.postpone-one-second", tb.name, okw, tb.loc(), "a lost tiebreak sets start_time and next_send to now + 1000 (%s)" % ", ".join("%s := %s" % (w[0], show(w[3])) for w in writes))
    e_less = guard_edges(P, tb, lambda atom, outcome, bb: atom[0] == "variant" and outcome == frozenset(["Less"]))
    okl = bool(writes) and all(must_pass_edges(tb, w[1], e_less) for w in writes)
    ctx.ob("C08a.postpone-only-on-less", tb.name, okl, tb.loc(), "the probe is postponed only when the comparison result is Less")
    # compare is applied pairwise in order with the probe's own (sorted) records
    usecmp = calls_to(tb, "DnsRecordExt::compare")
    okc = False
    for (b, t) in usecmp:
        a0 = ttr.operand(t["args"][0], endpos(tb, b))
        a1 = ttr.operand(t["args"][1], endpos(tb, b))
        if expr_mentions_field(a0, "records", "Probe") and has_call(a1, "DnsIncoming::authorities"):
            okc = True
    ctx.ob("C08a.tiebreak-pairs", tb.name, okc, tb.loc(), "own probe records are compared against the authorities of the incoming probe")
    ir = P.one("Probe::insert_record")
    found = False
    for c in P.closures_of.get(ir.name, []):
        cf = P.fns[c]
        ctr = tracer(P, cf)
        ch = [(b, t) for b, t in cf.calls() if method(cname(t)) == "cmp"]
        if len(ch) == 2:
            if not cf.dominates(ch[0][0], ch[1][0]):
                ch = [ch[1], ch[0]]
            e1 = ctr.operand(ch[0][1]["args"][0], endpos(cf, ch[0][0]))
            e2 = ctr.operand(ch[1][1]["args"][0], endpos(cf, ch[1][0]))
            found = has_call(e1, "DnsRecordExt::get_class") and has_call(e2, "DnsRecordExt::get_type")
    ctx.ob("C08a.insert-sorted", ir.name, found and bool(calls_to(ir, "binary_search_by")), ir.loc(), "probe records are inserted by binary search on (class, type)")
    # Both probers must order the two record lists alike, or they can both win (or both lose): the own records are kept in
    # (class, type) order with ties in registration order, and the peer wrote its authorities from a list kept the same
    # way.  Re-ordering the incoming list inside tiebreaking by an rdata-level comparator (DnsRecordExt::compare) is sound
    # only if the own list is ordered by that comparator too (in insert_record or in tiebreaking itself).
    SORTS = ("sort", "sort_by", "sort_by_key", "sort_unstable", "sort_unstable_by", "sort_unstable_by_key", "sort_by_cached_key", "reverse")

    def _full_cmp(fn, e):
        for x in walk(e):
            if x[0] == "closure" and x[1] in P.fns and calls_to(P.fns[x[1]], "DnsRecordExt::compare"):
                return True
        return False

    in_sorted = own_sorted = False
    n_sorts = 0
    for b, t in tb.calls():
        if method(cname(t)) in SORTS and ("slice" in cname(t) or "Vec" in cname(t)):
            n_sorts += 1
            recv = ttr.operand(t["args"][0], endpos(tb, b))
            cl = ttr.operand(t["args"][1], endpos(tb, b)) if len(t["args"]) > 1 else ("none",)
            full = _full_cmp(tb, cl) or method(cname(t)) in ("sort", "sort_unstable", "reverse")
            if not full:
                continue
            if expr_mentions_field(recv, "records", "Probe"):
                own_sorted = True
            else:
                in_sorted = True  # the only other list in this function is the one filtered from msg.authorities()
    own_full = own_sorted or any(calls_to(P.fns[c], "DnsRecordExt::compare") for c in P.closures_of.get(ir.name, []))
    ctx.ob("C08n.both-sides-ordered-alike", tb.name, (not in_sorted) or own_full, tb.loc(),
           "the incoming records are compared in the order the peer wrote them; they are re-ordered by an rdata-level comparator only if "
           "the probe's own records are ordered by it too (%d re-ordering call(s) in tiebreaking; own list ordered by DnsRecordExt::compare: %s)" % (n_sorts, own_full))


def _now_plus(e, k):
    for a in strip(e):
        if a[0] == "binop" and a[1].startswith("Add") and fold(a[3]) == k and has_call(a[2], "current_time_millis"):
            return True
    return False


def clause_b(ctx, P):
    check_timer_pairing_fn(ctx, P, "C08b", "Probe::tiebreaking")


def clause_c(ctx, P):
    fn = P.one("Zeroconf::conflict_handler")
    tr = tracer(P, fn)
    clos = [P.fns[c] for c in P.closures_of.get(fn.name, [])]
    # inside the retain closure: new name from name_change/hostname_change -> set_new_name -> new_records.push; old dropped
    ok_rename = False
    for cf in clos:
        ctr = tracer(P, cf)
        for b, t in cf.calls():
            if name_matches(cname(t), "DnsRecord::set_new_name"):
                e = ctr.operand(t["args"][1], endpos(cf, b))
                if has_call(e, "service_daemon::name_change") and has_call(e, "service_daemon::hostname_change"):
                    # hostname_change for A/AAAA
                    ok_rename = True
                    e_conf = guard_edges(P, cf, lambda atom, outcome, bb: atom[0] == "call" and name_matches(strip_generics(atom[1]), "DnsRecordExt::rrdata_match") and outcome is False)
                    ctx.ob("C08c.rename-only-on-conflict", cf.name, must_pass_edges(cf, b, e_conf), cf.loc(b), "a record is renamed only when its rdata differs from the received answer (`!rrdata_match`)")
    ctx.ob("C08c.conflict-renames", fn.name, ok_rename, fn.loc(), "the conflicting record gets set_new_name(name_change | hostname_change(name))")
    ins = [(b, t) for b, t in fn.calls() if name_matches(cname(t), "HashMap::insert") and recv_mentions(P, fn, b, t, "name_changes", "DnsRegistry")]
    ok = False
    for (b, t) in ins:
        k = tr.operand(t["args"][1], endpos(fn, b))
        v = tr.operand(t["args"][2], endpos(fn, b))
        ok = has_call(k, "DnsRecord::get_original_name") and has_call(v, "DnsRecordExt::get_name")
    ctx.ob("C08c.change-recorded", fn.name, ok, fn.loc(), "name_changes[original name] := new name")
    ir = calls_to(fn, "Probe::insert_record")
    ctx.ob("C08c.reprobe", fn.name, len(ir) == 1, fn.loc(), "the renamed record is inserted into a probe for the new name")
    check_timer_pairing_fn(ctx, P, "C08c", "Zeroconf::conflict_handler")
    # handle_expired_probes: NameChange per renamed record, records -> active
    he = P.one("service_daemon::handle_expired_probes")
    htr = tracer(P, he)
    nm = [em for em in emissions(P) if em.fn is he and "NameChange" in em.names()]
    e_new = guard_edges(P, he, lambda atom, outcome, bb: atom[0] == "variant" and has_call(atom[1], "DnsRecord::get_new_name") and outcome == frozenset(["Some"]))
    ok = len(nm) == 1 and must_pass_edges(he, nm[0].bb, e_new)
    loops = he.loops()
    if ok:
        heads = [h for h, body in loops.items() if nm[0].bb in body]
        h = min(heads, key=lambda h: len(loops[h])) if heads else None
        ok = h is not None
        if ok:
            for (b, tgt) in e_new:
                if h in he.reachable(tgt, removed_blocks=[nm[0].bb]):
                    ok = False
    ctx.ob("C08c.namechange-event", he.name, ok, he.loc(), "a NameChange event is sent for every probe record that carries a new name")
    # get_mut + insert, or the entry API: either way the probe's records end up in `active`
    act = [b for b, t in he.calls() if ("HashMap" in cname(t)) and method(cname(t)) in ("insert", "get_mut", "entry") and recv_mentions(P, he, b, t, "active", "DnsRegistry")]
    feeds = any(expr_mentions_field(htr.operand(a, endpos(he, b)), "records", "Probe") for b, t in he.calls()
                if method(cname(t)) in ("insert", "extend", "append", "or_insert", "or_insert_with") for a in t["args"][1:])
    ctx.ob("C08c.moved-to-active", he.name, len(act) >= 1 and feeds, he.loc(), "finished probe records are moved into `active`")


def clause_d(ctx, P):
    n = f4.check_rename_taint(ctx, P, "C08d")
    ctx.floor("C08d.F4.rename-args", n, 28, "renamable name arguments of record constructors")
    # resolve_name really maps through name_changes
    rn = P.one("DnsRegistry::resolve_name")
    rs = set()
    tr = tracer(P, rn)
    for rb in rn.exits():
        for a in strip(tr.local(0, endpos(rn, rb))):
            rs.add(a)
    ok = any(a == ("param", 2) for a in rs) and any(has_call(a, "HashMap::get") and expr_mentions_field(a, "name_changes", "DnsRegistry") for a in rs)
    # the same as one expression: name_changes.get(name).map_or(name, ..) / .map(..).unwrap_or(name)
    ok = ok or any(a[0] == "call" and method(strip_generics(a[1])) in ("map_or", "unwrap_or", "map_or_else") and has_call(a, "HashMap::get") and
                   expr_mentions_field(a, "name_changes", "DnsRegistry") and any(x == ("param", 2) for x in walk(a)) for a in rs)
    ctx.ob("C08d.resolve-name-body", rn.name, ok, rn.loc(), "resolve_name returns name_changes[name] when present, else the name")


def run(ctx, P):
    from . import r2
    r2.interface_rules(ctx, P, "C08g", want=("registry",))
    r2.rewritten_probe_restarts(ctx, P, "C08h")
    r2.compares_like_with_like(ctx, P, "C08i")
    from . import r4
    r4.probes_driven_every_iteration(ctx, P, "C08j")
    r4.shared_host_rename_outlives_one_service(ctx, P, "C08l")
    # `after a lost comparison it waits one second and probes again`: tiebreaking() and update_hostname() restart a probe by
    # moving start_time, which works because Probe::expired depends on start_time alone (shared with C07c)
    from . import c07
    ex = P.one("Probe::expired")
    rs = c07.ret_exprs(P, ex)
    ok = len(rs) == 1 and c07.norm_cmp(rs[0]) == c07.expect_cmp("Ge", {c07.P2: 1}, {c07.F("start_time"): 1, (): 750})
    ctx.ob("C08m.F12.expired-formula", ex.name, ok, ex.loc(), "Probe::expired ≡ now >= start_time + 750: moving start_time restarts the probe" if ok else
           "Probe::expired no longer depends on start_time alone: the restart after a lost tiebreak (start_time := now + 1000) does not make the "
           "daemon probe again")
    r4.every_packet_dispatched(ctx, P, "C08k")      # conflicts are seen in responses: every response reaches handle_response
    from . import f5
    f5.check_map_key_consistency(ctx, P, "C08f.F5.name-changes-keys", "name_changes", "DnsRegistry")
    f4.check_service_selected_by_resolved_name(ctx, P, "C08e")
    clause_a(ctx, P)
    clause_b(ctx, P)
    clause_c(ctx, P)
    clause_d(ctx, P)
