"""F12 formula conformance: normal forms for tiny pure arithmetic predicates."""
from .lib import *
import re

_INT_FROM = re.compile(r"^(<(u|i)(8|16|32|64|128|size) as std::convert::(From|Into)<(u|i)(8|16|32|64|128|size)>>::(from|into)|std::convert::num::<impl std::convert::From<(u|i)(8|16|32|64|128|size)> for (u|i)(8|16|32|64|128|size)>::from)$")


def atom_of(e):
    """canonical atom for a non-arithmetic leaf"""
    k = e[0]
    if k == "param":
        return ("param", e[1])
    if k == "field":
        base = e[1]
        while base[0] in ("deref", "ref"):
            base = base[1]
        if base[0] == "param":
            return ("field:%s" % e[2],)
        return ("field:%s" % e[2], atom_of(base))
    if k == "call":
        n = strip_generics(e[1])
        short = name_forms(n)[-2] if len(name_forms(n)) > 1 else n
        short = "::".join(short.split("::")[-2:])
        return ("call:" + short,) + tuple(_arg_norm(a) for a in e[2] if a is not None)
    if k in ("ref", "deref", "coerce"):
        return atom_of(e[1])
    if k == "payload":
        return ("payload:" + str(e[2]), atom_of(e[1]))
    if k == "const":
        return ("const", e[1])
    if k == "local":
        return ("local", e[1])
    if k == "phi":
        return ("phi",) + tuple(sorted((_arg_norm(a) for a in e[1]), key=repr))
    return (k,) + tuple(atom_of(x) if isinstance(x, tuple) else x for x in e[1:])


def _arg_norm(a):
    p = poly(a)
    if p is not None:
        return ("poly",) + tuple(sorted(p.items(), key=repr))
    return atom_of(a)


def poly(e):
    """polynomial normal form {monomial(tuple of atoms): coefficient}; None when not arithmetic"""
    k = e[0]
    if k == "const":
        if isinstance(e[1], bool):
            return {(): int(e[1])}
        if isinstance(e[1], int):
            return {(): e[1]} if e[1] != 0 else {}
        return None
    if k in ("cast", "coerce"):
        return poly(e[1])
    if k in ("ref", "deref"):
        inner = e[1]
        if inner[0] in ("binop", "const", "cast", "checked"):
            return poly(inner)
        return {(atom_of(e),): 1}
    if k in ("binop", "checked"):
        op = e[1]
        a, b = poly(e[2]), poly(e[3])
        if a is None or b is None:
            return None
        if op.startswith("Add"):
            return _add(a, b, 1)
        if op.startswith("Sub"):
            return _add(a, b, -1)
        if op.startswith("Mul"):
            out = {}
            for m1, c1 in a.items():
                for m2, c2 in b.items():
                    m = tuple(sorted(m1 + m2, key=repr))
                    out[m] = out.get(m, 0) + c1 * c2
            return {m: c for m, c in out.items() if c != 0}
        if op == "Div":
            if set(b) == {()} and set(a) <= {()}:
                return {(): a.get((), 0) // b[()]} if b[()] else None
            return {(("div", _key(a), _key(b)),): 1}
        if op in ("BitAnd", "BitOr", "BitXor", "Shl", "Shr", "Rem"):
            if set(a) <= {()} and set(b) <= {()}:
                v = fold(e)
                return {(): v} if v else {}
            return {((op, _key(a), _key(b)),): 1}
        return None
    if k == "call" and e[2] and (_INT_FROM.match(strip_generics(e[1])) or _INT_FROM.match(e[1])):
        return poly(e[2][0])
    if k in ("param", "field", "call", "payload", "local", "phi"):
        return {(atom_of(e),): 1}
    return None


def _key(p):
    return tuple(sorted(p.items(), key=repr))


def _add(a, b, sign):
    out = dict(a)
    for m, c in b.items():
        out[m] = out.get(m, 0) + sign * c
    return {m: c for m, c in out.items() if c != 0}


def linear(e):
    """(sorted tuple of unit-coefficient atoms, constant) or None"""
    p = poly(e)
    if p is None:
        return None
    terms = []
    const = 0
    for m, c in p.items():
        if m == ():
            const = c
        elif len(m) == 1 and c == 1:
            terms.append(m[0])
        else:
            return None
    return (tuple(sorted(terms, key=repr)), const)


FLIP = {"Lt": "Gt", "Gt": "Lt", "Le": "Ge", "Ge": "Le", "Eq": "Eq", "Ne": "Ne"}
NEG = {"Lt": "Ge", "Ge": "Lt", "Gt": "Le", "Le": "Gt", "Eq": "Ne", "Ne": "Eq"}


def norm_cmp(e):
    """(op, poly_key(left - right)) with op in {Lt, Le, Eq, Ne}... canonical: everything moved to the left,
    `Gt/Ge` flipped by negating.  Returns (op, key) where key is the sorted items of (left - right)."""
    neg = False
    while e[0] == "unop" and e[1] == "Not":
        e = e[2]
        neg = not neg
    if e[0] != "binop" or e[1] not in FLIP:
        return None
    op = e[1]
    if neg:
        op = NEG[op]
    a, b = poly(e[2]), poly(e[3])
    if a is None or b is None:
        return None
    d = _add(a, b, -1)
    if op in ("Gt", "Ge"):
        d = {m: -c for m, c in d.items()}
        op = FLIP[op]
    if op in ("Eq", "Ne"):
        # sign-normalise
        items = sorted(d.items(), key=repr)
        if items and items[0][1] < 0:
            d = {m: -c for m, c in d.items()}
    return (op, _key(d))


def expect_cmp(op, left, right):
    """build the canonical form of `left op right` from term dicts: {atom: coef, (): const}"""
    def mk(x):
        out = {}
        for k, v in x.items():
            out[() if k == () else (k,) if not (isinstance(k, tuple) and k and isinstance(k[0], tuple)) else k] = v
        return out
    a, b = mk(left), mk(right)
    d = _add(a, b, -1)
    if op in ("Gt", "Ge"):
        d = {m: -c for m, c in d.items()}
        op = FLIP[op]
    if op in ("Eq", "Ne"):
        items = sorted(d.items(), key=repr)
        if items and items[0][1] < 0:
            d = {m: -c for m, c in d.items()}
    return (op, _key(d))


def ret_exprs(P, fn):
    """expressions of the return value at every `return`, phi split at top level"""
    tr = tracer(P, fn)
    out = []
    for rb in fn.exits():
        e = tr.local(0, endpos(fn, rb))
        alts = e[1] if e[0] == "phi" else (e,)
        for a in alts:
            if a not in out:
                out.append(a)
    return out


P1 = ("param", 1)
P2 = ("param", 2)
P3 = ("param", 3)


def F(name):
    return ("field:" + name,)
