"""Rules added after the second seeding round: necessary conditions on secondary code paths that several properties
share.  Each function takes the rule prefix of the property that uses it."""
from .lib import *
from .f12 import ret_exprs
from .f9 import _command_switches


# ------------------------------------------------------------------------------------------------
def _top_closures(P, e):
    return [x for x in sorted(strip(e) | ({e} if e[0] == "closure" else set()), key=repr) if x[0] == "closure" and x[1] in P.fns]


def _ret_writers(cf, region):
    """everything that writes the return place in `region`: ('const', v) | ('other', what)"""
    out = []
    for b in sorted(region):
        for i, s in enumerate(cf.stmts(b)):
            if s["k"] == "assign" and s["p"]["l"] == 0 and not s["p"]["proj"]:
                r = s["r"]
                if r["k"] == "use" and r["a"].get("k") == "const" and "val" in r["a"]:
                    out.append(("const", r["a"]["val"], b))
                else:
                    out.append(("other", r["k"], b))
        t = cf.term(b)
        if t["k"] == "call" and t.get("dest") and t["dest"]["l"] == 0 and not t["dest"]["proj"]:
            out.append(("other", method(cname(t)), b))
    return out


def _predicate_bodies(P, cf, depth=0):
    """the closure itself, or the local helper it hands the rerun to, whichever looks at the command's kind"""
    if _command_switches(P, cf):
        return [cf]
    out = []
    if depth < 2:
        for b, t in cf.calls():
            for tgt in P.call_targets(t):
                if tgt in P.fns and tgt != cf.name and not P.fns[tgt].in_tests():
                    out.extend(_predicate_bodies(P, P.fns[tgt], depth + 1))
    return out


def purges_keep_other_commands(ctx, P, pre):
    """the rerun queue `Zeroconf.retransmissions` is shared by every time-driven command (browse and hostname
    re-queries, resolve follow-ups, announcement and goodbye repeats): a `retain` that purges the reruns of one search
    must answer `true` for every command of another kind — a predicate written as `matches!(cmd, Variant(..) if ..)`
    answers false for all of them"""
    n = 0
    for f in P.lib_fns():
        tr = None
        k = 0
        for b, t in f.calls():
            if method(cname(t)) not in ("retain", "retain_mut") or not cname(t).startswith("std::vec::Vec::") or \
                    not recv_mentions(P, f, b, t, "retransmissions", "Zeroconf"):
                continue
            tr = tr or tracer(P, f)
            for a in t["args"][1:]:
                for cl in _top_closures(P, tr.operand(a, endpos(f, b))):
                    cf = P.fns[cl[1]]
                    n += 1
                    k += 1
                    bad = []
                    from .f9 import retain_predicate_facts
                    bodies = _predicate_bodies(P, cf)
                    if not bodies:
                        ws = _ret_writers(cf, cf.live_blocks())
                        if any(w[0] != "const" or not w[1] for w in ws):
                            bad.append("the predicate can answer false without looking at the kind of command")
                    for g in bodies:
                        r = retain_predicate_facts(P, g, None)
                        if r is None:
                            bad.append("the predicate is too large to enumerate its paths")
                        elif not r[0]:
                            bad.append("commands of another kind than the purged one can be dropped: some path that does not match the purged "
                                       "variant answers something else than the constant true")
                        elif len(r) > 3 and not r[3]:
                            ctx.ob(pre + ".purge-drops-the-matching", "%s|retransmissions.retain#%d" % (f.name, k), False, f.loc(b),
                                   "the comparison is the wrong way round: an entry whose name equals the search's name is kept and the others "
                                   "are dropped (retain keeps what the predicate answers true for)")
                        else:
                            ctx.ob(pre + ".purge-drops-the-matching", "%s|retransmissions.retain#%d" % (f.name, k), True, f.loc(b),
                                   "the predicate answers false for the entries whose name equals the search's name, true for the others")
                    ctx.ob(pre + ".purge-keeps-other-commands", "%s|retransmissions.retain#%d" % (f.name, k), not bad, f.loc(b),
                           "the purge answers `true` for every command of another kind" if not bad else "; ".join(sorted(set(bad)))[:400])
    ctx.floor(pre + ".purge-keeps-other-commands", n, 3, "retain calls on the rerun queue")


# ------------------------------------------------------------------------------------------------
def known_answers_always_consulted(ctx, P, pre):
    """every answer handle_query produces goes through DnsOutgoing::add_answer (the function that consults the query's
    known answers): nothing reachable from handle_query queues an answer with add_answer_at_time / add_answer_box /
    a direct push except add_answer itself"""
    h = P.one("Zeroconf::handle_query")
    allowed_callers = {P.one("DnsOutgoing::add_answer").name}
    scope = {n for n in P.reachable_from([h.name]) if n in P.fns}
    bad = []
    n = 0
    for name in sorted(scope):
        f = P.fns[name]
        if f.in_tests():
            continue
        for b, t in f.calls():
            tgt = cname(t)
            if name_matches(tgt, "DnsOutgoing::add_answer_at_time", "DnsOutgoing::add_answer_box") or \
                    (name_matches(tgt, "Vec::push") and recv_is_field(P, f, b, t, "answers", "DnsOutgoing")):
                n += 1
                if f.name in allowed_callers or f.short in ("add_answer_at_time", "add_answer_box"):
                    continue
                # only functions that handle_query reaches count
                bad.append("%s at %s" % (method(tgt), f.loc(b)))
    ctx.ob(pre + ".answers-go-through-add_answer", h.name, not bad and n >= 1, h.loc(),
           "every answer produced for a query is queued by DnsOutgoing::add_answer (known answers consulted)" if not bad else
           "answers queued without consulting the known answers: %s" % bad[:3])


# ------------------------------------------------------------------------------------------------
def cache_update_rules(ctx, P, pre, want=("reset", "flush")):
    """DnsCache::add_or_update: (reset) a record that matches a cached one always gets reset_ttl(incoming) — also a
    goodbye, whose TTL of 1 is what later known-answer lists and refresh decisions go by; (flush) the cache-flush
    processing is on every path that stores or refreshes a record whose cache-flush bit is set: a record that is already
    cached must still displace its stale siblings"""
    f = P.one("DnsCache::add_or_update")
    tr = tracer(P, f)
    if "reset" in want:
        finds = [(b, t) for b, t in f.calls() if method(cname(t)) in ("find", "position", "find_map")]
        resets = [b for b, t in f.calls() if name_matches(cname(t), "DnsRecord::reset_ttl", "DnsRecordExt::reset_ttl") or method(cname(t)) == "reset_ttl"]
        ok = False
        det = "no lookup of the matching cached record found"
        for (b, t) in finds:
            some = guard_edges(P, f, lambda atom, outcome, bb: atom[0] == "variant" and outcome == frozenset(["Some"]) and
                               any(x[0] == "call" and x[3] == (f.name, b) for x in walk(atom[1])))
            if not some:
                continue
            ok = bool(resets)
            for (sb, tgt) in some:
                for r in f.exits():
                    if r in f.reachable(tgt, removed_blocks=resets):
                        ok = False
                        det = "a matched record can be returned without reset_ttl(incoming)"
            if ok:
                det = "every path from `Some(matching record)` to the return calls reset_ttl"
        ctx.ob(pre + ".matched-record-always-reset", f.name, ok, f.loc(), det)
    if "flush" in want:
        # the flush pass: the for_each whose closure calls set_expire, or the loop in the function itself that does
        flush_blocks = []
        for b, t in f.calls():
            if method(cname(t)) in ("set_expire", "set_expire_sooner"):
                flush_blocks.append(lift_to_inner_loop(f, b))
                continue
            if method(cname(t)) != "for_each":
                continue
            for a in t["args"][1:]:
                for cl in _top_closures(P, tr.operand(a, endpos(f, b))):
                    if any(method(cname(tt)) in ("set_expire", "set_expire_sooner") for _bb, tt in P.fns[cl[1]].calls()):
                        flush_blocks.append(b)
        no_flush = guard_edges(P, f, lambda atom, outcome, bb: atom[0] == "call" and method(strip_generics(atom[1])) == "get_cache_flush" and outcome is False)
        somes = [b for b, i, s in aggregates(f, "option::Option", "Some") if s["p"]["l"] == 0 and not s["p"]["proj"]]
        ok = bool(flush_blocks) and bool(no_flush) and bool(somes)
        det = "flush block %s, Some-returns %d" % ([f.loc(b) for b in flush_blocks], len(somes))
        for sb in somes:
            if reachable_without(f, sb, removed_edges=no_flush, removed_blocks=flush_blocks):
                ok = False
                det = "a record can be stored/refreshed (return Some at %s) with its cache-flush bit set without the flush of its stale siblings having run" % f.loc(sb)
        ctx.ob(pre + ".flush-not-bypassed", f.name, ok, f.loc(), det)


# ------------------------------------------------------------------------------------------------
def _norm(e):
    while e[0] in ("cast", "coerce", "deref", "ref"):
        e = e[1]
    return e


def _same_value(a, b):
    fa, fb = fold(a), fold(b)
    if fa is not None and fa == fb:
        return True
    return show(_norm(a)) == show(_norm(b))


def expiry_only_brought_forward(ctx, P, pre):
    """a cached record's expiry time is extended by one thing only: reset_ttl with a record that was received.  Every
    other write (`set_expire`: the cache-flush rule, verify(), ...) may only bring the expiry forward: it is either
    set_expire_sooner or sits under the test `get_expire() > new_expire`.  A plain set_expire on a goodbye'd or dying
    record would revive it."""
    n = 0
    for f in P.lib_fns():
        if f.short in ("set_expire", "set_expire_sooner") and "dns_parser" in f.name:
            continue
        tr = None
        k = 0
        for b, t in f.calls():
            if method(cname(t)) != "set_expire" or len(t["args"]) < 2:
                continue
            tr = tr or tracer(P, f)
            n += 1
            k += 1
            A = arg_expr(tr, f, b, t, 1)

            def pred(atom, outcome, bb):
                if atom[0] != "binop" or atom[1] not in ("Gt", "Lt", "Ge", "Le"):
                    return False
                op, l, r = atom[1], atom[2], atom[3]
                if op in ("Lt", "Le"):
                    op, l, r = {"Lt": "Gt", "Le": "Ge"}[op], r, l
                # l > r  (or l >= r): the old expiry on the left, the new one on the right, taken as true
                if outcome is not True:
                    return False
                if not any(x[0] == "call" and method(strip_generics(x[1])) == "get_expire" for x in walk(l)):
                    return False
                return any(_same_value(alt, A2) for alt in (strip(r) or {r}) for A2 in (strip(A) or {A})) or _same_value(r, A)
            base = guard_edges(P, f, pred)
            ok = guarded(P, f, b, base)
            ctx.ob(pre + ".expiry-only-brought-forward", "%s|set_expire#%d" % (f.name, k), ok, f.loc(b),
                   "set_expire(%s) only runs under `get_expire() > %s`" % (show(A)[:40], show(A)[:40]) if ok else
                   "set_expire(%s) is not limited to bringing the expiry forward: it can extend the life of a record that was withdrawn, "
                   "flushed or is running out (use set_expire_sooner)" % show(A)[:60])
    sooner = sum(1 for f in P.lib_fns() for b, t in f.calls() if method(cname(t)) == "set_expire_sooner")
    ctx.floor(pre + ".expiry-only-brought-forward", n + sooner, 3, "set_expire / set_expire_sooner call sites outside the record type")


# ------------------------------------------------------------------------------------------------
VEC_SHRINK = ("retain", "retain_mut", "remove", "swap_remove", "pop", "clear", "drain", "truncate")
CACHE_MAPS = ("addr", "srv", "txt", "nsec", "ptr")
# one named exception: DnsCache::remove is only called by handle_response for a record that is already expired when it
# arrives; the decoder floors the TTL at 1 s and the record is handled in the same loop pass, so the call cannot happen
EMPTY_ENTRY_EXEMPT = {"dns_cache::DnsCache::remove": "only reached for a record that is expired on arrival (decoder floors the TTL at 1 s)"}


def _root_of(P, f):
    while f.is_closure and f.parent in P.fns:
        f = P.fns[f.parent]
    return f


def _closure_site(P, cf):
    """(parent fn, bb, terminator) of the call the closure `cf` is handed to"""
    par = P.fns.get(cf.parent)
    if par is None:
        return None
    tr = tracer(P, par)
    for b, t in par.calls():
        for a in t["args"]:
            if any(x[0] == "closure" and x[1] == cf.name for x in _top_closures(P, tr.operand(a, endpos(par, b)))):
                return (par, b, t)
    return None


def _maps_of_receiver(P, f, b, t, depth=0):
    """DnsCache maps the receiver of a call derives from (through closure parameters: the collection the closure is
    applied to)"""
    tr = tracer(P, f)
    e = tr.operand(t["args"][0], endpos(f, b))
    ms = {m for m in CACHE_MAPS if expr_mentions_field(e, m, "DnsCache")}
    if not ms and f.is_closure and depth < 3 and any(x[0] == "param" for x in walk(e)):
        site = _closure_site(P, f)
        if site:
            ms = _maps_of_receiver(P, site[0], site[1], site[2], depth + 1)
    return ms


def _is_nonempty_test(e):
    alts = e[1] if e[0] == "phi" else (e,)
    def one(x):
        if x[0] == "unop" and x[1] == "Not":
            return any(y[0] == "call" and method(strip_generics(y[1])) == "is_empty" for y in walk(x[2]))
        if x[0] == "binop" and x[1] in ("Gt", "Ne", "Ge", "Lt", "Le"):
            return any(y[0] == "call" and method(strip_generics(y[1])) == "len" for y in walk(x))
        return False
    return bool(alts) and all(one(x) for x in alts)


def sweeps_drop_empty_entries(ctx, P, pre, maps=CACHE_MAPS):
    """`get_addr(host).is_none()` and `if let Some(records) = get_srv(..)` decide what is missing and has to be asked
    for: a key must not outlive its last record.  Every DnsCache function that removes elements from the vectors of
    one of its maps also drops the entries that became empty (a map-level retain whose predicate ends in
    `!records.is_empty()`)."""
    shrinks = {}     # (root fn, map) -> [where]
    drops = set()    # (root fn, map)
    for f in P.lib_fns():
        root = _root_of(P, f)
        if "DnsCache" not in root.name or root.in_tests():
            continue
        tr = None
        for b, t in f.calls():
            n = cname(t)
            if n.startswith("std::vec::Vec::") and method(n) in VEC_SHRINK and t["args"] and "DnsRecordIntf" in str(t["args"][0].get("p", {}).get("ty", "")):
                for m in _maps_of_receiver(P, f, b, t):
                    shrinks.setdefault((root.name, m), []).append(f.loc(b))
            if "HashMap" in n and method(n) == "retain":
                tr = tr or tracer(P, f)
                for m in maps:
                    # the map itself, or one of several maps swept by the same statement (`for table in [&mut self.srv, ..]`)
                    if not recv_mentions(P, f, b, t, m, "DnsCache"):
                        continue
                    for a in t["args"][1:]:
                        for cl in _top_closures(P, tr.operand(a, endpos(f, b))):
                            if all(_is_nonempty_test(e) for e in ret_exprs(P, P.fns[cl[1]])):
                                drops.add((root.name, m))
    n = 0
    for (rn, m) in sorted(shrinks):
        if m not in maps:
            continue
        if rn in EMPTY_ENTRY_EXEMPT:
            continue
        n += 1
        ok = (rn, m) in drops
        ctx.ob(pre + ".no-empty-entry-left", "%s|DnsCache.%s" % (rn, m), ok, shrinks[(rn, m)][0],
               "records are removed from the vectors of DnsCache.%s and entries that became empty are dropped" % m if ok else
               "records are removed from the vectors of DnsCache.%s but a key can outlive its last record: `get_%s(..)` then still answers "
               "Some and the follow-up question for the missing records is never asked" % (m, m))
    ctx.floor(pre + ".no-empty-entry-left", n, 9, "(function, map) pairs that remove records from a cache vector")


# ------------------------------------------------------------------------------------------------
def evicted_addr_names_are_record_names(ctx, P, pre):
    """the host names in the result of evict_expired_addr are the expired records' own names (the spelling the SRV
    target comparison in get_instances_on_host uses), not the lower-cased map key"""
    f = P.one("DnsCache::evict_expired_addr")
    ok = False
    det = "no insertion into the result found"
    for g in [f] + [P.fns[c] for c in _closures_rec(P, f)]:
        tr = tracer(P, g)
        for b, t in g.calls():
            if method(cname(t)) == "entry" and "HashMap" in cname(t) and len(t["args"]) > 1:
                e = arg_expr(tr, g, b, t, 1)
                from_rec = any(x[0] == "call" and method(strip_generics(x[1])) == "get_name" for x in walk(e))
                from_key = any(x[0] == "param" and x[1] == 2 for x in strip(e))
                ok = from_rec and not from_key
                det = "result key: %s" % show(e)[:80]
    ctx.ob(pre + ".evicted-host-is-record-name", f.name, ok, f.loc(), det)


def _closures_rec(P, f, depth=0):
    out = []
    for c in P.closures_of.get(f.name, []):
        out.append(c)
        if depth < 3:
            out.extend(_closures_rec(P, P.fns[c], depth + 1))
    return out


# ------------------------------------------------------------------------------------------------
def interface_rules(ctx, P, pre, want=("status", "registry")):
    """add_interface: (status) every announce attempt for an auto-addressed service writes its status for that
    interface — Announced on success, Probing otherwise — so a stale `Announced` cannot sit on top of a registry that is
    probing again; (registry) the interface's DnsRegistry (probing/active records and the name changes) is created only
    when the interface has none"""
    f = P.one("Zeroconf::add_interface")
    if "status" in want:
        calls = [(b, t) for b, t in f.calls() if name_matches(cname(t), "announce_service_on_intf")]
        sets = [b for b, t in f.calls() if name_matches(cname(t), "ServiceInfo::set_status")]
        ctx.require(bool(calls) and bool(sets), pre + ".anchor", f.name + "|announce+set_status", f.loc(), "%d/%d" % (len(calls), len(sets)))
        loops = f.loops()
        for k, (b, t) in enumerate(calls):
            heads = [h for h, body in loops.items() if b in body]
            tgts = set(f.exits()) | ({min(heads, key=lambda h: len(loops[h]))} if heads else set())
            ok = True
            for s in f.succs(b):
                if _is_unwind(f, b, s):
                    continue
                if f.reachable(s, removed_blocks=sets) & tgts and s not in sets:
                    ok = False
            ctx.ob(pre + ".status-written-after-announce-attempt", "%s|announce#%d" % (f.name, k + 1), ok, f.loc(b),
                   "every path after the announce attempt sets the service's status for the interface" if ok else
                   "a path after the announce attempt leaves the old status in place: a service can stay `Announced` (answered for, never "
                   "re-announced) while its names are being probed again on a re-added interface")
    if "registry" in want:
        ins = [(g, b, t) for g in P.lib_fns() for b, t in g.calls()
               if "HashMap" in cname(t) and method(cname(t)) == "insert" and recv_is_field(P, g, b, t, "dns_registry_map", "Zeroconf")]
        bad = []
        for (g, b, t) in ins:
            absent = guard_edges(P, g, lambda atom, outcome, bb: (atom[0] == "variant" and outcome == frozenset(["None"]) and has_call(atom[1], "HashMap::get", "HashMap::get_mut") and
                                                                  expr_mentions_field(atom[1], "dns_registry_map", "Zeroconf")) or
                                 (atom[0] == "call" and name_matches(strip_generics(atom[1]), "HashMap::contains_key") and outcome is False and expr_mentions_field(atom, "dns_registry_map", "Zeroconf")))
            if not (absent and must_pass_edges(g, b, absent)):
                bad.append("%s" % g.loc(b))
        ctx.ob(pre + ".registry-created-only-when-absent", "Zeroconf.dns_registry_map", not bad, f.loc(),
               "an interface's DnsRegistry is only created through entry().or_insert_with / after a failed lookup (%d guarded insert(s))" % len(ins) if not bad else
               "dns_registry_map.insert at %s replaces an existing registry: the name changes of conflict resolution are lost while the services stay announced" % bad)


def _is_unwind(fn, b, s):
    t = fn.term(b)
    return t.get("unwind") == s


# ------------------------------------------------------------------------------------------------
def compression_key_is_exact(ctx, P, pre):
    """names are read back byte-exact: the key of the compression table is the very suffix that is written (no case
    folding or other transformation between `labels[i..].join(\".\")` and names.get / names.insert)"""
    f = P.one("DnsOutPacket::write_name")
    tr = tracer(P, f)
    n = 0
    bad = []
    for b, t in f.calls():
        if "HashMap" in cname(t) and method(cname(t)) in ("get", "insert", "contains_key", "entry") and recv_is_field(P, f, b, t, "names", "DnsOutPacket"):
            n += 1
            e = arg_expr(tr, f, b, t, 1)
            joins = [x for x in walk(e) if x[0] == "call" and method(strip_generics(x[1])) == "join"]
            transformed = [strip_generics(x[1]).rsplit("::", 1)[-1] for x in walk(e) if x[0] == "call" and
                           strip_generics(x[1]).rsplit("::", 1)[-1] in ("to_lowercase", "to_ascii_lowercase", "to_uppercase", "to_ascii_uppercase", "trim", "replace", "trim_end_matches")]
            if not joins or transformed:
                bad.append("%s key %s" % (method(cname(t)), show(e)[:60]))
    ctx.ob(pre + ".compression-key-exact", f.name, n >= 1 and not bad, f.loc(),
           "%d accesses of the compression table, all keyed by the joined label suffix itself" % n if not bad else "; ".join(bad))


# ------------------------------------------------------------------------------------------------
def srv_expiry_reported_for_every_listing(ctx, P, pre):
    """an instance can be listed by several PTR names (its type and its subtypes), each with its own browser.  The walk
    over the PTR names in evict_expired_services decides `SRV ran out` per name by looking the instance up in
    DnsCache.srv: nothing inside that walk may remove keys from the map, or only the first name (in HashMap order) gets
    the instance in the removal report"""
    f = P.one("DnsCache::evict_expired_services")
    loops = f.loops()
    look = [b for b, t in f.calls() if "HashMap" in cname(t) and method(cname(t)) in ("get", "get_mut", "contains_key") and recv_is_field(P, f, b, t, "srv", "DnsCache")]
    ctx.require(bool(look) and bool(loops), pre + ".anchor", f.name + "|srv lookup in the PTR walk", f.loc(), "%d lookups, %d loops" % (len(look), len(loops)))
    if not look or not loops:
        return
    walk_blocks = set()
    for h, body in loops.items():
        if any(b in body for b in look):
            walk_blocks |= set(body)
    bad = [f.loc(b) for b, t in f.calls() if b in walk_blocks and "HashMap" in cname(t) and
           method(cname(t)) in ("remove", "remove_entry", "retain", "clear", "drain", "extract_if") and recv_is_field(P, f, b, t, "srv", "DnsCache")]
    ctx.ob(pre + ".srv-expiry-reported-for-every-listing", f.name, bool(walk_blocks) and not bad, f.loc(),
           "the walk over the PTR names looks instances up in DnsCache.srv and removes no key from it" if not bad else
           "DnsCache.srv loses keys inside the walk over the PTR names (%s): an instance listed by a type and a subtype is reported "
           "removed to one of the two browsers only" % bad)


# ------------------------------------------------------------------------------------------------
def events_are_lossless(ctx, P, pre, chan_suffix="ServiceEvent", floor=5, only_fn=None):
    """the events of a search are a history the client replays (ServiceFound before ServiceResolved, one ServiceRemoved per
    withdrawal, SearchStopped last): every send on such a channel is the lossless `send`, never `try_send` /
    `send_timeout`, which drop the event when the client's bounded channel happens to be full"""
    n = 0
    per = {}
    label = chan_suffix if isinstance(chan_suffix, str) else "/".join(chan_suffix)
    for f in P.lib_fns():
        if f.in_tests() or (only_fn and not name_matches(f.name, only_fn)):
            continue
        for em in direct_sends(P, f):
            if not str(em.chan).endswith(chan_suffix):
                continue
            n += 1
            per[f.name] = per.get(f.name, 0) + 1
            ctx.ob(pre + ".events-lossless", "%s|send#%d" % (f.name, per[f.name]), em.blocking, f.loc(em.bb),
                   "%s is delivered with Sender::send (%s)" % (label, ", ".join(sorted(x for x in em.names() if isinstance(x, str))[:4]) or "forwarded event") if em.blocking else
                   "%s sent with %s: the event is dropped when the client's channel is full, and later events of the same instance "
                   "(ServiceResolved after a lost ServiceFound) arrive without it" % (label, method(cname(em.t))))
    ctx.floor(pre + ".events-lossless", n, floor, "sends on %s channels" % label)


# ------------------------------------------------------------------------------------------------
def command_queue_drained(ctx, P, pre):
    """every API call queues a Command and sends one wake-up datagram; the run loop drains all wake-up datagrams at once
    (signal_sock_drain), so it must also take every queued command before it goes back to sleep: the loop around
    `receiver.try_recv()` is left only when try_recv found the queue empty (its Err edge) or on the way out of run
    (Exit).  A cap on the batch leaves commands queued with nothing left to wake the daemon for them."""
    run = P.one("Zeroconf::run")
    tb = [b for b, t in run.calls() if name_matches(cname(t), "Receiver::try_recv") and "Command" in str(t.get("gargs") or t["args"][0])]
    ctx.require(len(tb) == 1, pre + ".anchor", run.name + "|receiver.try_recv()", run.loc(), "%d try_recv call(s) on the command channel" % len(tb))
    if len(tb) != 1:
        return
    tb = tb[0]
    loops = run.loops()
    main = max(loops, key=lambda h: len(loops[h]))
    inner = [h for h, body in loops.items() if tb in body and h != main]
    ctx.require(bool(inner), pre + ".anchor", run.name + "|drain loop", run.loc(tb), "try_recv sits in a loop nested in the run loop")
    if not inner:
        return
    h = min(inner, key=lambda x: len(loops[x]))
    body = loops[h]
    empty = guard_edges(P, run, lambda atom, outcome, bb: atom[0] == "variant" and any(x[0] == "call" and x[3] == (run.name, tb) for x in walk(atom[1]))
                        and "Ok" not in outcome and "Some" not in outcome)
    bad = []
    for b in sorted(body):
        t = run.term(b)
        for s in run.succs(b):
            if s in body or t.get("unwind") == s:
                continue
            if (b, s) in empty:
                continue
            # leaving for good: the run loop's head is not reachable any more
            if main not in run.reachable(s):
                continue
            bad.append("%s -> %s" % (run.loc(b), run.loc(s)))
    ctx.ob(pre + ".command-queue-drained", run.name, bool(empty) and not bad, run.loc(tb),
           "the drain loop ends only when try_recv reports an empty queue (or run returns)" if not bad else
           "the drain loop can be left with commands still queued (%s): their wake-up datagrams are already consumed, so an idle daemon "
           "never executes them — a shutdown() queued behind them never reports" % "; ".join(bad[:3]))


# ------------------------------------------------------------------------------------------------
def status_never_forgotten(ctx, P, pre):
    """goodbyes (unregister, shutdown) are sent on an interface exactly when the service's status there is Announced: the
    status may move between Probing and Announced, but is never reset to Unknown while the interface is still in use —
    the daemon would forget that the records are out and skip their withdrawal.  (A reset that is dominated by the
    removal of the interface from my_intfs is fine: nothing can be sent there any more.)"""
    n = 0
    per = {}
    for f in P.lib_fns():
        if f.in_tests():
            continue
        tr = None
        for b, t in f.calls():
            if not name_matches(cname(t), "ServiceInfo::set_status") or len(t["args"]) < 3:
                continue
            tr = tr or tracer(P, f)
            n += 1
            per[f.name] = per.get(f.name, 0) + 1
            vs = {v for (_a, v) in value_variants(tr.operand(t["args"][2], endpos(f, b)))}
            low = vs - {"Probing", "Announced"}
            ok = not low
            if low:
                rem = [rb for rb, rt in f.calls() if "HashMap" in cname(rt) and method(cname(rt)) in ("remove", "remove_entry") and recv_is_field(P, f, rb, rt, "my_intfs", "Zeroconf")]
                ok = bool(rem) and any(f.dominates(rb, b) for rb in rem)
            ctx.ob(pre + ".status-never-forgotten", "%s|set_status#%d" % (f.name, per[f.name]), ok, f.loc(b),
                   "writes %s" % "/".join(sorted(str(v) for v in vs)) if ok else
                   "the status of a service on an interface that is still in use is reset to %s: unregister and shutdown send their goodbye "
                   "only where the status is Announced, so the records announced there are never withdrawn" % "/".join(sorted(str(v) for v in low)))
    ctx.floor(pre + ".status-never-forgotten", n, 5, "ServiceInfo::set_status call sites")


# ------------------------------------------------------------------------------------------------
def followup_needs_open_browse(ctx, P, pre):
    """the follow-up questions for an unresolved instance (Command::Resolve reruns, up to three, 500 ms apart) belong to
    the browse that listed the instance.  Either every stop path purges them, or the handler re-checks that an open
    browse (service_queriers) still lists the instance before it asks: otherwise the daemon keeps querying after
    SearchStopped"""
    from .f9 import purge_info
    f = P.one("Zeroconf::exec_command_resolve")
    q = calls_to(f, "Zeroconf::query_unresolved")
    ctx.require(len(q) == 1, pre + ".anchor", f.name + "|query_unresolved", f.loc(), "%d call(s)" % len(q))
    if len(q) != 1:
        return
    open_edges = guard_edges(P, f, lambda atom, outcome, bb: expr_or_closure_mentions_field(P, atom, "service_queriers", "Zeroconf"))
    guarded_ = bool(open_edges) and guarded(P, f, q[0][0], open_edges)
    stop = P.one("Zeroconf::exec_command_stop_browse")
    purged = any("Resolve" in vs for (_b, vs) in purge_info(P, stop)["removes"])
    ctx.ob(pre + ".followup-needs-open-browse", f.name, guarded_ or purged, f.loc(q[0][0]),
           ("the follow-up question is asked only after a test on service_queriers (an open browse still lists the instance)" if guarded_ else
            "stop_browse purges the Resolve reruns") if (guarded_ or purged) else
           "a Resolve rerun queued before stop_browse still sends its question after SearchStopped: neither is it purged on stop nor does "
           "exec_command_resolve look at service_queriers before asking")


# ------------------------------------------------------------------------------------------------
def followup_chain_not_restarted(ctx, P, pre):
    """`at most three follow-up queries for a newly found instance`: add_pending_resolve starts a chain only for an
    instance that is not in pending_resolves, and the instance leaves that set when it resolves (or when no open browse
    wants it).  In exec_command_resolve nothing removes the instance once the follow-up question may have been sent —
    an unresolved instance whose three tries are used up must stay marked, or every later record about it starts three
    more questions"""
    f = P.one("Zeroconf::exec_command_resolve")
    q = calls_to(f, "Zeroconf::query_unresolved")
    ctx.require(len(q) == 1, pre + ".anchor", f.name + "|query_unresolved", f.loc(), "%d call(s)" % len(q))
    if len(q) != 1:
        return
    after = f.reachable(q[0][0]) - {q[0][0]}
    bad = [f.loc(b) for b, t in f.calls() if b in after and name_matches(cname(t), "HashSet::remove", "HashSet::take", "HashSet::clear", "HashSet::retain", "HashSet::drain")
           and recv_mentions(P, f, b, t, "pending_resolves", "Zeroconf")]
    ctx.ob(pre + ".followup-chain-not-restarted", f.name, not bad, f.loc(q[0][0]),
           "after its question may have gone out the instance stays in pending_resolves until it resolves" if not bad else
           "the instance is taken out of pending_resolves after its follow-up round (%s): the next record about the still unresolved instance "
           "starts another chain of three questions" % bad)
    # and the set really gates the chain
    ap = P.one("Zeroconf::add_pending_resolve")
    e_new = guard_edges(P, ap, lambda atom, outcome, bb: atom[0] == "call" and name_matches(strip_generics(atom[1]), "HashSet::contains", "HashSet::insert") and
                        expr_mentions_field(atom, "pending_resolves", "Zeroconf"))
    adds = calls_to(ap, "Zeroconf::add_retransmission")
    ctx.ob(pre + ".followup-gated-by-pending", ap.name, bool(adds) and bool(e_new) and must_pass_edges(ap, adds[0][0], e_new), ap.loc(),
           "a chain is started only after a test on pending_resolves")


def _option_edges_implying(P, fn, base_edges):
    """edges `Some` of switches on an Option-valued local whose `Some` definitions all sit behind base_edges (and whose other
    definitions are `None`): taking the Some edge implies base_edges was taken"""
    out = set()
    for b in sorted(fn.live_blocks()):
        t = fn.term(b)
        if t["k"] != "switch" or "p" not in t["d"]:
            continue
        dl = t["d"]["p"]["l"]
        src = None
        for (db, di, kind, payload) in fn.defs().get(dl, []):
            if kind == "assign" and payload["k"] == "discr" and not payload["p"]["proj"]:
                src = (payload["p"]["l"], (db, di))
        if src is None:
            continue
        defs = fn.reaching_defs(src[0], src[1])
        somes, others_ok = [], True
        for (db, di, kind, payload) in defs:
            if kind == "assign" and payload["k"] == "aggregate" and str(payload.get("adt", "")).endswith("option::Option"):
                if payload.get("vname") == "Some":
                    somes.append(db)
            else:
                others_ok = False
        if not somes or not others_ok:
            continue
        if all(must_pass_edges(fn, db, base_edges) for db in somes):
            for (tgt, atom, outcome) in switch_edges(P, fn, b):
                if atom[0] == "variant" and outcome == frozenset(["Some"]):
                    out.add((b, tgt))
    return out


def verify_chain_is_finite(ctx, P, pre):
    """verify() asks twice: the handler schedules its one repeat only on the run that came from the API call, never on
    the repeat itself — a repeat that re-arms itself keeps one rerun and one query per second alive for as long as the
    responder answers"""
    f = P.one("Zeroconf::exec_command_verify")
    idx = rerun_flag_param(P, f)
    if idx is None:
        idx = param_index(f, "repeating", "bool")
    adds = calls_to(f, "Zeroconf::add_retransmission")
    ctx.require(idx is not None and len(adds) >= 1, pre + ".anchor", f.name + "|repeat", f.loc(), "rerun flag and add_retransmission found")
    if idx is None or not adds:
        return
    first = guard_edges(P, f, lambda atom, outcome, bb: atom == ("param", idx) and outcome is False)
    edges = set(first) | _option_edges_implying(P, f, first)
    for k, (b, t) in enumerate(adds):
        ok = bool(first) and must_pass_edges(f, b, edges)
        ctx.ob(pre + ".verify-repeats-once", "%s|add_retransmission#%d" % (f.name, k + 1), ok, f.loc(b),
               "the repeat is scheduled only when the run is not itself a repeat" if ok else
               "a repeated Verify schedules another repeat: the chain never ends while the records stay in the cache")


# ------------------------------------------------------------------------------------------------
def rewritten_probe_restarts(ctx, P, pre):
    """when a host name loses a conflict, DnsRegistry::update_hostname rewrites the SRV records that point at it — also
    inside probes that are under way.  Such a probe has to start over (`start_time := probe_time`): its 750 ms window is
    counted from start_time, and only a restarted probe sends three probes that carry the rewritten record"""
    f = P.one("DnsRegistry::update_hostname")
    tp = param_index(f, "probe_time", "u64")
    ws = []
    others = []
    for g in [f] + [P.fns[c] for c in P.closures_of.get(f.name, [])]:
        tr = tracer(P, g)
        for b, i, s in g.assigns():
            pr = s["p"].get("proj") or []
            if pr and pr[-1][0] == "field" and (pr[-1][4] or "").endswith("Probe"):
                if pr[-1][2] == "start_time":
                    ws.append((g, b, i, tr.rvalue(s["r"], (b, i))))
                else:
                    others.append((pr[-1][2], g.loc(b, i)))
    ok = bool(ws) and all(tp is not None and g is f and strip(v) == {("param", tp)} for (g, b, i, v) in ws)
    ctx.ob(pre + ".rewritten-probe-restarts", f.name, ok, f.loc(),
           "a probe whose records are rewritten is restarted: start_time := probe_time (%d write(s))" % len(ws) if ok else
           "update_hostname does not set Probe.start_time to its probe_time for the probes it rewrites (writes to other Probe fields: %s): the "
           "probe keeps its old deadline and finishes before three probes carried the rewritten record" % (others or "none"))


# ------------------------------------------------------------------------------------------------
def refresh_asks_for_the_due_type(ctx, P, pre):
    """DnsCache::refresh_due_srv_txt tells the daemon which record types of an instance to ask for again: the type it
    records under `the SRV records of the instance have a refresh due` is SRV, under the TXT test it is TXT — a due SRV
    answered with a TXT question is never refreshed and runs out although the responder is alive"""
    f = P.one("DnsCache::refresh_due_srv_txt")
    ftr = tracer(P, f)
    want = {"srv": "SRV", "txt": "TXT"}
    guards = {}
    for m in want:
        guards[m] = guard_edges(P, f, lambda atom, outcome, bb, m=m: atom[0] == "call" and method(strip_generics(atom[1])) == "is_empty" and outcome is False and
                                expr_mentions_field(atom, m, "DnsCache") and not any(expr_mentions_field(atom, o, "DnsCache") for o in want if o != m))
    ctx.require(all(guards.values()), pre + ".anchor", f.name + "|due tests", f.loc(), "a `!is_empty()` test per map: %s" % {m: len(v) for m, v in guards.items()})
    # RRType values written in f, or in a closure handed to a call of f (attributed to that call's block)
    vals = []
    for b, i, s in aggregates(f, "dns_parser::RRType"):
        vals.append((b, s["r"].get("vname"), f.loc(b, i)))
    for c in P.closures_of.get(f.name, []):
        cf = P.fns[c]
        vs = [s["r"].get("vname") for _b, _i, s in aggregates(cf, "dns_parser::RRType")]
        if not vs:
            continue
        for fb, ft in f.calls():
            if any(x[0] == "closure" and x[1] == cf.name for a in ft["args"] for x in walk(ftr.operand(a, endpos(f, fb)))):
                for v in vs:
                    vals.append((fb, v, f.loc(fb)))
    n = 0
    bad = []
    for (b, v, where_) in vals:
        under = [m for m in want if guards[m] and must_pass_edges(f, b, guards[m])]
        if len(under) != 1:
            continue        # not under exactly one of the two tests: not a `due type` record
        n += 1
        if v != want[under[0]]:
            bad.append("RRType::%s recorded at %s under the test on DnsCache.%s" % (v, where_, under[0]))
    ctx.ob(pre + ".refresh-asks-for-the-due-type", f.name, n >= 2 and not bad, f.loc(),
           "%d type value(s), each the type of the map whose records are due" % n if not bad else "; ".join(bad))


# ------------------------------------------------------------------------------------------------
def compares_like_with_like(ctx, P, pre, fnames=("matches", "compare_rdata", "rrdata_match")):
    """every `==` / cmp in the record-identity and tiebreak comparisons pairs a field of self with the SAME field of the
    other record (weight with weight, not weight with priority): for records whose fields hold different values the two
    sides of a simultaneous probe otherwise reach the same verdict, and a record no longer matches a copy of itself"""
    n = 0
    for f in P.lib_fns():
        if f.in_tests() or f.is_closure or not f.impl_trait or not str(f.impl_trait).endswith("DnsRecordExt") or f.short.split("::")[-1] not in fnames:
            if not (not f.in_tests() and not f.is_closure and any(f.name.endswith(">::" + x) for x in fnames) and "DnsRecordExt" in f.name):
                continue
        tr = tracer(P, f)
        pairs = []
        for b, t in f.calls():
            if method(cname(t)) in ("eq", "ne", "cmp", "partial_cmp") and len(t["args"]) == 2:
                pairs.append((b, tr.operand(t["args"][0], endpos(f, b)), tr.operand(t["args"][1], endpos(f, b))))
        for b, i, s in f.assigns():
            if s["r"]["k"] == "binop" and s["r"]["op"] in ("Eq", "Ne", "Lt", "Le", "Gt", "Ge"):
                e = tr.rvalue(s["r"], (b, i))
                pairs.append((b, e[2], e[3]))
        for (b, l, r) in pairs:
            def last_field(e):
                fs = [x[2] for x in walk(e) if x[0] == "field" and isinstance(x[2], str) and (x[3] or "").startswith("dns_parser::Dns")]
                return fs[0] if fs else None
            fl, fr = last_field(l), last_field(r)
            if fl is None or fr is None:
                continue
            n += 1
            ctx.ob(pre + ".compares-like-with-like", "%s|%s~%s" % (f.name, fl, fr), fl == fr, f.loc(b),
                   "%s is compared with the other record's %s" % (fl, fr) if fl == fr else
                   "%s of one record is compared with %s of the other: records whose two fields differ are mis-ordered / do not match themselves" % (fl, fr))
    ctx.floor(pre + ".compares-like-with-like", n, 10, "field-to-field comparisons in matches / compare_rdata / rrdata_match")


def resend_goes_out_on_the_family_it_was_built_for(ctx, P, pre):
    """exec_command_unregister builds one goodbye per IP family and queues its repeat as Command::UnregisterResend(packet,
    if_index, is_ipv4): the flag is true exactly in the branch that used the IPv4 socket.  With the wrong flag the repeat
    of the IPv6 goodbye leaves through the IPv4 socket (or not at all)"""
    f = P.one("Zeroconf::exec_command_unregister")
    tr = tracer(P, f)
    e4 = guard_edges(P, f, lambda atom, outcome, bb: atom[0] == "variant" and outcome == frozenset(["Some"]) and expr_mentions_field(atom[1], "ipv4_sock", "Zeroconf"))
    e6 = guard_edges(P, f, lambda atom, outcome, bb: atom[0] == "variant" and outcome == frozenset(["Some"]) and expr_mentions_field(atom[1], "ipv6_sock", "Zeroconf"))
    sites = [(b, i, s) for b, i, s in aggregates(f, "service_daemon::Command", "UnregisterResend")]
    ctx.require(bool(e4) and bool(e6) and len(sites) >= 2, pre + ".anchor", f.name + "|per-family resend", f.loc(), "%d/%d guards, %d resend site(s)" % (len(e4), len(e6), len(sites)))
    for k, (b, i, s) in enumerate(sites):
        flag = fold(tr.operand(s["r"]["ops"][2], (b, i))) if len(s["r"]["ops"]) > 2 else None
        in4 = must_pass_edges(f, b, e4)
        in6 = must_pass_edges(f, b, e6)
        ok = (in4 != in6) and flag in (0, 1) and bool(flag) == in4
        ctx.ob(pre + ".resend-on-its-own-family", "%s|UnregisterResend#%d" % (f.name, k + 1), ok, f.loc(b, i),
               "built in the %s branch with is_ipv4 = %s" % ("IPv4" if in4 else "IPv6", bool(flag)) if ok else
               "the repeat of the goodbye built for %s is queued with is_ipv4 = %s" % ("IPv4" if in4 else "IPv6" if in6 else "?", flag))


def changed_instance_is_the_ptr_target(ctx, P, pre):
    """handle_response collects the instances whose records changed and resolves them afterwards.  For a new PTR record
    the instance is the PTR's target (DnsPointer::alias), not the record's own name (the service type): otherwise an
    instance whose PTR arrives last is found but never resolved"""
    f = P.one("Zeroconf::handle_response")
    tr = tracer(P, f)
    sites = list(aggregates(f, "InstanceChange"))
    ctx.require(len(sites) >= 2, pre + ".anchor", f.name + "|InstanceChange", f.loc(), "%d construction(s)" % len(sites))
    e_ptr = guard_edges(P, f, lambda atom, outcome, bb: atom[0] == "variant" and outcome == frozenset(["Some"]) and
                        any(x[0] == "call" and "downcast_ref" in x[1] and "DnsPointer" in x[1] for x in walk(atom[1])))
    adt = [a for a in P.adts if a.endswith("InstanceChange")]
    fields = P.adt_fields(adt[0]) if adt else []
    ni = fields.index("name") if "name" in fields else 1
    n = 0
    for k, (b, i, s) in enumerate(sites):
        e = tr.operand(s["r"]["ops"][ni], (b, i))
        under_ptr = bool(e_ptr) and must_pass_edges(f, b, e_ptr)
        if under_ptr:
            n += 1
            ok = has_call(e, "DnsPointer::alias")
            ctx.ob(pre + ".changed-instance-is-the-ptr-target", "%s|InstanceChange#%d" % (f.name, k + 1), ok, f.loc(b, i),
                   "for a PTR the changed instance is DnsPointer::alias()" if ok else "for a PTR the changed `instance` is %s, not the PTR's target" % show(e)[:60])
    ctx.floor(pre + ".changed-instance-is-the-ptr-target", n, 1, "InstanceChange built for a PTR record")


# ------------------------------------------------------------------------------------------------
def _family_of_call(P, f, b, t):
    n = cname(t).lower()
    m = method(cname(t)).lower()
    marks = set()
    for fam, keys in (("4", ("_v4", "ipv4", "v4_")), ("6", ("_v6", "ipv6", "v6_"))):
        if any(k in m for k in keys):
            marks.add(fam)
    return marks


def family_arms_consistent(ctx, P, pre, scope=("service_daemon::Zeroconf::del_interface_addr", "service_daemon::Zeroconf::add_interface",
                                               "service_daemon::Zeroconf::handle_read", "service_daemon::Zeroconf::del_ip",
                                               "service_daemon::Zeroconf::check_ip_changes")):
    """the daemon treats the two IP families in mirror-image arms (`if is_ipv4 { ..v4.. } else { ..v6.. }`,
    `match ip { V4(..) => .., V6(..) => .. }`).  Inside the arm taken for one family no accessor of the other family is
    consulted (next_ifaddr_v4 in the IPv6 arm, leave_multicast_v6 in the IPv4 arm, ..): a copy-paste between the arms
    tests or changes the state of the wrong family"""
    n = 0
    for name in scope:
        fs = P.find(name.split("::", 1)[1]) if name not in P.fns else [P.fns[name]]
        for f in fs:
            e4 = guard_edges(P, f, lambda atom, outcome, bb: (atom[0] == "call" and method(strip_generics(atom[1])) == "is_ipv4" and outcome is True) or
                             (atom[0] == "call" and method(strip_generics(atom[1])) == "is_ipv6" and outcome is False) or
                             (atom[0] == "variant" and outcome == frozenset(["V4"])))
            e6 = guard_edges(P, f, lambda atom, outcome, bb: (atom[0] == "call" and method(strip_generics(atom[1])) == "is_ipv4" and outcome is False) or
                             (atom[0] == "call" and method(strip_generics(atom[1])) == "is_ipv6" and outcome is True) or
                             (atom[0] == "variant" and outcome == frozenset(["V6"])))
            if not e4 or not e6:
                continue
            k = 0
            for b, t in f.calls():
                marks = _family_of_call(P, f, b, t)
                if len(marks) != 1:
                    continue
                in4 = guarded(P, f, b, e4)
                in6 = guarded(P, f, b, e6)
                if in4 == in6:
                    continue        # not inside exactly one family's arm
                n += 1
                k += 1
                fam = "4" if in4 else "6"
                ok = marks == {fam}
                ctx.ob(pre + ".family-arms-consistent", "%s|%s#%d" % (f.name, method(cname(t)), k), ok, f.loc(b),
                       "%s in the IPv%s arm" % (method(cname(t)), fam) if ok else
                       "%s is consulted in the arm taken for IPv%s: the other family's state decides (copy-paste between the mirror-image arms)" % (method(cname(t)), fam))
    ctx.floor(pre + ".family-arms-consistent", n, 4, "family-specific calls inside a family arm")


def removed_iff_no_ptr_left(ctx, P, pre):
    """DnsCache::remove_records_on_intf reports an instance as removed exactly when none of the PTR records that remain names
    it: the `any` over the remaining records tests `alias == instance`, negated outside — not `!=`, which asks whether some
    OTHER instance remains"""
    f = P.one("DnsCache::remove_records_on_intf")
    from .f12 import ret_exprs
    found = 0
    bad = []
    for g in [P.fns[c] for c in _closures_rec(P, f)]:
        site = _closure_site(P, g)
        adaptor = method(cname(site[2])) if site else "any"
        want_eq = adaptor != "all"        # `!any(alias == x)` and `all(alias != x)` say the same
        for e in ret_exprs(P, g):
            for a in (e[1] if e[0] == "phi" else (e,)):
                neg = False
                while a[0] == "unop" and a[1] == "Not":
                    a = a[2]
                    neg = not neg
                if a[0] == "call" and method(strip_generics(a[1])) in ("eq", "ne") and has_call(a, "DnsPointer::alias"):
                    found += 1
                    is_eq = (method(strip_generics(a[1])) == "eq") != neg
                    if is_eq != want_eq:
                        bad.append(g.loc())
    ctx.ob(pre + ".removed-iff-no-ptr-left", f.name, found >= 1 and not bad, f.loc(),
           "the remaining PTR records are searched for `alias == instance` (%d test(s))" % found if not bad else
           "the remaining PTR records are searched for `alias != instance` (%s): an instance is reported removed only when no OTHER instance "
           "of the type remains" % bad)


# ------------------------------------------------------------------------------------------------
def address_types_come_in_pairs(ctx, P, pre):
    """`is this an address record` is `ty == A || ty == AAAA` everywhere: a function (or closure) that compares a record type
    with one of the two compares it with the other as well — `A || ANY` silently drops every IPv6-only change"""
    n = 0
    for f in P.lib_fns():
        if f.in_tests():
            continue
        tr = None
        S = set()
        where_ = None
        for b, t in f.calls():
            if method(cname(t)) in ("eq", "ne") and "RRType" in cname(t) and len(t["args"]) == 2:
                tr = tr or tracer(P, f)
                for a in t["args"]:
                    for (adt, v) in value_variants(tr.operand(a, endpos(f, b))):
                        if str(adt).endswith("RRType"):
                            S.add(v)
                            where_ = where_ or f.loc(b)
        for b in f.live_blocks():
            t = f.term(b)
            if t["k"] == "switch":
                for (tgt, atom, outcome) in switch_edges(P, f, b):
                    if atom[0] == "variant" and isinstance(outcome, frozenset) and len(outcome) == 1:
                        ty = _expr_type_hint_safe(f, t)
                        if ty and ty.replace("&", "").strip().endswith("RRType"):
                            S |= set(outcome)
                            where_ = where_ or f.loc(b)
        if not ({"A", "AAAA"} & S):
            continue
        n += 1
        ok = {"A", "AAAA"} <= S
        ctx.ob(pre + ".address-types-come-in-pairs", f.name, ok, where_ or f.loc(),
               "record types compared here: %s" % sorted(S) if ok else
               "a record type is compared with %s but not with %s (types compared: %s): changes of the other address family are not treated as address changes" % (
                   "A" if "A" in S else "AAAA", "AAAA" if "A" in S else "A", sorted(S)))
    ctx.floor(pre + ".address-types-come-in-pairs", n, 4, "functions that compare a record type with A / AAAA")


def _expr_type_hint_safe(fn, t):
    d = t.get("d") or {}
    if "p" not in d:
        return None
    for (b, i, kind, payload) in fn.defs().get(d["p"]["l"], []):
        if kind == "assign" and payload["k"] == "discr":
            return payload["p"]["ty"]
    return None


def stop_forgets_every_record_kind(ctx, P, pre):
    """DnsCache::remove_service_type (stop_browse) removes the SRV, TXT, NSEC records and the subtype of each instance the
    type lists: all under the same key, the instance name — a `remove` under another name is a silent no-op and leaves
    that kind of record cached for good"""
    f = P.one("DnsCache::remove_service_type")
    tr = tracer(P, f)
    keys = {}
    for b, t in f.calls():
        if "HashMap" in cname(t) and method(cname(t)) in ("remove", "remove_entry") and len(t["args"]) >= 2:
            for m in ("srv", "txt", "nsec", "subtype"):
                if recv_is_field(P, f, b, t, m, "DnsCache"):
                    keys.setdefault(m, set()).add(show(tr.operand(t["args"][1], endpos(f, b))))
    ctx.require(len(keys) >= 3, pre + ".anchor", f.name + "|per-instance removals", f.loc(), "maps with a removal: %s" % sorted(keys))
    ref = keys.get("srv") or set()
    for m in sorted(keys):
        ok = keys[m] == ref and len(ref) == 1
        ctx.ob(pre + ".stop-forgets-every-record-kind", "%s|DnsCache.%s" % (f.name, m), ok, f.loc(),
               "removed under the instance name like the SRV records" if ok else
               "DnsCache.%s is removed under %s while the SRV records go under %s: nothing is removed, the records stay cached after stop_browse" % (m, sorted(keys[m]), sorted(ref)))


def subtype_map_pruned_on_every_sweep(ctx, P, pre):
    """the reverse map instance -> subtype has no TTL of its own: evict_expired_services prunes it against the PTR records
    that are left, on every sweep, unless the map itself is empty (the only case in which there is nothing to prune)"""
    f = P.one("DnsCache::evict_expired_services")
    rets = [b for b, t in f.calls() if "HashMap" in cname(t) and method(cname(t)) == "retain" and recv_is_field(P, f, b, t, "subtype", "DnsCache")]
    ctx.require(bool(rets), pre + ".anchor", f.name + "|subtype.retain", f.loc(), "%d" % len(rets))
    if not rets:
        return
    skip = guard_edges(P, f, lambda atom, outcome, bb: atom[0] == "call" and method(strip_generics(atom[1])) == "is_empty" and outcome is True and
                       expr_mentions_field(atom, "subtype", "DnsCache"))
    reach = f.reachable(0, removed_edges=skip, removed_blocks=rets)
    bypass = any(f.term(r)["k"] == "return" for r in reach)
    ctx.ob(pre + ".subtype-map-pruned-on-every-sweep", f.name, not bypass, f.loc(rets[0]),
           "every sweep prunes DnsCache.subtype unless it is empty" if not bypass else
           "a sweep can end without pruning DnsCache.subtype although it has entries (the pruning is skipped on a condition about something "
           "else): the entries of instances whose PTRs ran out stay for ever")


# ------------------------------------------------------------------------------------------------
def every_answer_reaches_the_cache(ctx, P, pre):
    """`is_for_us` only decides whether a record may create a NEW cache entry; records of names that are already cached
    must still get their TTL refresh, goodbye and cache-flush.  So handle_response hands every answer to
    DnsCache::add_or_update whatever is_for_us says: no path leaves the function before the caching loop except when the
    receiving interface is unknown"""
    f = P.one("Zeroconf::handle_response")
    calls = calls_to(f, "DnsCache::add_or_update")
    ctx.require(len(calls) >= 1, pre + ".anchor", f.name + "|add_or_update", f.loc(), "%d call(s)" % len(calls))
    if not calls:
        return
    head = lift_to_inner_loop(f, calls[0][0])
    allowed = guard_edges(P, f, lambda atom, outcome, bb: atom[0] == "variant" and outcome == frozenset(["None"]) and expr_mentions_field(atom[1], "my_intfs", "Zeroconf"))
    reach = f.reachable(0, removed_blocks=[head], removed_edges=allowed)
    early = [f.loc(r) for r in reach if f.term(r)["k"] == "return"]
    ctx.ob(pre + ".every-answer-reaches-the-cache", f.name, not early, f.loc(head),
           "every path through handle_response (known interface) enters the loop that hands the answers to add_or_update" if not early else
           "handle_response can return before the caching loop (%s): records of names that are already cached miss their TTL refresh, "
           "goodbye and cache-flush" % early[:2])


def verify_always_shortens(ctx, P, pre):
    """verify(instance, timeout) always reaches DnsCache::service_verify_queries (which shortens the expiry of the
    instance's SRV and addresses): no early return for a kind of browse or instance"""
    f = P.one("Zeroconf::exec_command_verify")
    calls = calls_to(f, "DnsCache::service_verify_queries")
    ok = len(calls) == 1 and all_paths_to_return_pass(f, 0, [calls[0][0]], include_from=True) and not _returns_without_block(f, calls[0][0])
    ctx.ob(pre + ".verify-always-shortens", f.name, ok, f.loc(),
           "every path through exec_command_verify calls service_verify_queries" if ok else
           "exec_command_verify can return without calling service_verify_queries: for those instances an unanswered verify removes nothing")


def _returns_without_block(f, b):
    reach = f.reachable(0, removed_blocks=[b])
    return any(f.term(r)["k"] == "return" for r in reach)


def refresh_result_is_per_record(ctx, P, pre):
    """DnsCache::refresh_due_hostname_resolutions returns one entry per due address RECORD (name, address): the caller asks one
    question per entry, A or AAAA by the address's family.  A map keyed by the host name keeps one family only"""
    f = P.one("DnsCache::refresh_due_hostname_resolutions")
    ty = str(f.ret or "")
    ok = ("HashSet<(" in ty or "Vec<(" in ty or "BTreeSet<(" in ty) and "HashMap<" not in ty.split("(")[0]
    ctx.ob(pre + ".refresh-result-is-per-record", f.name, ok, f.loc(), "returns %s" % ty[:90] if ok else
           "returns %s: keyed by host name, so of a dual-stack host only one address family is re-queried and the other runs out" % ty[:90])


def goodbye_independent_of_reply_and_state_order(ctx, P, pre):
    """exec_command_unregister: once the service was found (remove_entry is Some) the goodbye loop runs on every path — it
    does not depend on whether the caller still listens for the status — and nothing edits DnsRegistry.name_changes before
    the goodbye is built (unregister_service reads it to name the records)"""
    f = P.one("Zeroconf::exec_command_unregister")
    rem = [(b, t) for b, t in f.calls() if name_matches(cname(t), "HashMap::remove_entry", "HashMap::remove") and recv_mentions(P, f, b, t, "my_services", "Zeroconf")]
    gb = calls_to(f, "Zeroconf::unregister_service")
    ctx.require(len(rem) == 1 and len(gb) >= 1, pre + ".anchor", f.name + "|remove + goodbye", f.loc(), "%d/%d" % (len(rem), len(gb)))
    if len(rem) != 1 or not gb:
        return
    rb = rem[0][0]
    e_some = guard_edges(P, f, lambda atom, outcome, bb: atom[0] == "variant" and atom[1][0] == "call" and atom[1][3] == (f.name, rb) and outcome == frozenset(["Some"]))
    srcs = {b for (b, _t) in e_some}
    e_some = {(b, t) for (b, t) in e_some if not any(o != b and f.dominates(o, b) for o in srcs)}
    head = lift_to_inner_loop(f, gb[0][0])
    ok = bool(e_some)
    for (b, tgt) in e_some:
        reach = f.reachable(tgt, removed_blocks=[head])
        if any(f.term(r)["k"] == "return" for r in reach):
            ok = False
    ctx.ob(pre + ".goodbye-whatever-the-reply", f.name, ok, f.loc(head),
           "every path after a successful removal enters the goodbye loop" if ok else
           "after the service was removed a path returns without the goodbye loop (e.g. when the status reply cannot be delivered): the "
           "records stay announced")
    edits = [f.loc(b) for b, t in f.calls() if "HashMap" in cname(t) and method(cname(t)) in ("remove", "remove_entry", "clear", "insert", "retain") and
             recv_mentions(P, f, b, t, "name_changes", "DnsRegistry") and any(g in f.reachable(b) for g, _t in gb)]
    ctx.ob(pre + ".names-intact-until-goodbye", f.name, not edits, f.loc(),
           "DnsRegistry.name_changes is not edited before the goodbye is built" if not edits else
           "DnsRegistry.name_changes is edited at %s before unregister_service reads it: the goodbye of a renamed service goes out under the "
           "name it lost" % edits)


def both_families_every_interface(ctx, P, pre, fnames=("Zeroconf::cleanup", "Zeroconf::exec_command_unregister")):
    """the goodbye is sent over IPv4 and over IPv6 on every interface: after the IPv4 goodbye of an interface every path goes on
    to the test of the IPv6 socket (no `continue` in between)"""
    for name in fnames:
        f = P.one(name)
        tr = tracer(P, f)
        gb = [(b, t) for b, t in calls_to(f, "Zeroconf::unregister_service")]
        v4 = [b for b, t in gb if expr_mentions_field(tr.operand(t["args"][3], endpos(f, b)), "ipv4_sock", "Zeroconf")]
        t6 = {b for (b, _t) in guard_edges(P, f, lambda atom, outcome, bb: atom[0] == "variant" and expr_mentions_field(atom[1], "ipv6_sock", "Zeroconf"))}
        loops = f.loops()
        ok = bool(v4) and bool(t6)
        for b in v4:
            heads = [h for h, body in loops.items() if b in body]
            if not heads:
                ok = False
                continue
            h = min(heads, key=lambda x: len(loops[x]))
            # from the IPv4 goodbye back to the loop head without passing the IPv6 test?
            seen = {b}
            st = [b]
            while st:
                x = st.pop()
                for s_ in f.succs(x):
                    if s_ in t6 or s_ in seen or s_ not in loops[h]:
                        continue
                    if s_ == h:
                        ok = False
                        continue
                    seen.add(s_)
                    st.append(s_)
        ctx.ob(pre + ".both-families-every-interface", f.name, ok, f.loc(v4[0]) if v4 else f.loc(),
               "after the IPv4 goodbye of an interface the IPv6 socket is always tried" if ok else
               "an iteration can go back to the next interface after the IPv4 goodbye without trying IPv6: services are withdrawn on one family only")
