"""E0 driver side: run the mirfacts rustc wrapper over /repo's current tree and load the facts.

Every call re-extracts from the working tree (fresh CARGO_TARGET_DIR, deleted afterwards); nothing
is cached between runs.  Fail closed: a missing fact file, a wrong crate name or a body count
below the floor raises FactsError.
"""
import json
import os
import shutil
import subprocess
import tempfile
import time

VERIF = os.path.dirname(os.path.dirname(os.path.abspath(__file__)))
REPO = os.environ.get("VERIF_REPO", "/repo")
DRIVER = os.path.join(VERIF, "engine", "mirfacts", "target", "release", "mirfacts")

# body-count floor: counted on the pinned tree (740 fn/closure bodies + 11 consts in the default
# configuration); a run that sees far fewer bodies did not analyse the crate.
FLOOR_BODIES = 600

CONFIGS = {
    "default": [],
    "no-default-features": ["--no-default-features"],
    "serde": ["--features", "serde"],
    "cfgtest": ["--profile", "test"],
}


class FactsError(Exception):
    pass


def _sysroot():
    out = subprocess.run(["rustc", "+nightly", "--print", "sysroot"], capture_output=True, text=True)
    if out.returncode != 0:
        raise FactsError("cannot find nightly sysroot: " + out.stderr)
    return out.stdout.strip()


def workdir():
    base = os.environ.get("VERIF_TMPDIR") or os.environ.get("TMPDIR") or "/var/tmp"
    if base.rstrip("/") == "/tmp":
        base = "/var/tmp"
    os.makedirs(base, exist_ok=True)
    return tempfile.mkdtemp(prefix="mdnsverif.", dir=base)


def ensure_driver():
    if not os.path.exists(DRIVER):
        r = subprocess.run([os.path.join(VERIF, "setup.sh")], cwd=VERIF, capture_output=True, text=True)
        if r.returncode != 0 or not os.path.exists(DRIVER):
            raise FactsError("mirfacts driver missing and setup.sh failed:\n" + r.stdout + r.stderr)


def extract(config="default", repo=None, crate="mdns_sd", floor=FLOOR_BODIES, lib_only=True):
    """Run the extractor; return (facts_dict, meta)."""
    repo = repo or REPO
    ensure_driver()
    wd = workdir()
    t0 = time.time()
    try:
        out = os.path.join(wd, "facts.json")
        env = dict(os.environ)
        env["LD_LIBRARY_PATH"] = _sysroot() + "/lib" + (
            ":" + env["LD_LIBRARY_PATH"] if env.get("LD_LIBRARY_PATH") else "")
        env["RUSTFLAGS"] = "-Zmir-opt-level=0 -Awarnings"
        env["RUSTC_WORKSPACE_WRAPPER"] = DRIVER
        env["MIRFACTS_OUT"] = out
        env["MIRFACTS_CRATE"] = crate
        env["CARGO_TARGET_DIR"] = os.path.join(wd, "target")
        env["CARGO_NET_OFFLINE"] = "true"
        env.pop("RUSTC_WRAPPER", None)
        cmd = ["cargo", "+nightly", "check", "--offline"]
        if lib_only:
            cmd.append("--lib")
        cmd += CONFIGS[config]
        r = subprocess.run(cmd, cwd=repo, env=env, capture_output=True, text=True)
        if r.returncode != 0:
            raise FactsError("cargo check failed for config %s (the tree does not build):\n%s" % (
                config, r.stderr[-4000:]))
        if not os.path.exists(out):
            raise FactsError("fact file missing for config %s (wrapper skipped?)\n%s" % (config, r.stderr[-2000:]))
        raw = open(out, encoding="utf-8").read()
        # harmonise def paths with type strings (types print local paths without the crate name)
        raw = raw.replace(crate + "::", "")
        facts = json.loads(raw)
        if facts.get("crate") != crate:
            raise FactsError("fact file is for crate %r, expected %r" % (facts.get("crate"), crate))
        nb = len(facts["fns"])
        if nb < floor:
            raise FactsError("FLOOR: only %d bodies extracted (< %d) in config %s" % (nb, floor, config))
        meta = {"config": config, "bodies": nb, "extract_s": round(time.time() - t0, 2),
                "cfg_test": facts.get("cfg_test"), "unsafe_code_level": facts.get("unsafe_code_level")}
        return facts, meta
    finally:
        shutil.rmtree(wd, ignore_errors=True)


def load_file(path, crate="mdns_sd"):
    """development helper: load a fact file written earlier"""
    raw = open(path, encoding="utf-8").read().replace(crate + "::", "")
    return json.loads(raw)
