"""Obligation bookkeeping, known findings, evidence files, VIOLATION lines."""
import hashlib
import json
import os
import re
import time

VERIF = os.path.dirname(os.path.dirname(os.path.abspath(__file__)))


def _slug(s):
    s = re.sub(r"[^A-Za-z0-9_.-]+", "_", s)
    if len(s) > 90:
        s = s[:60] + "_" + hashlib.sha1(s.encode()).hexdigest()[:12]
    return s


class Ctx:
    """One run of one property's check."""

    def __init__(self, prop, tier, seed=0):
        self.prop = prop
        self.tier = tier
        self.seed = seed
        self.t0 = time.time()
        self.obs = []            # all obligations
        self.configs = []        # meta per analysed configuration
        self.notes = []
        self.assumptions = []
        self.trusted = []
        self.undecided = []
        self.explanation = ""
        self.rule_text = ""
        self.extra = {}
        self.config = "default"
        self._keys = set()
        kf = os.path.join(VERIF, "known_findings.json")
        self.known = {}
        if os.path.exists(kf):
            data = json.load(open(kf))
            for e in data.get("known", []):
                if e["property"] == prop:
                    self.known[e["key"]] = e

    # ------------------------------------------------------------------ obligations
    def ob(self, rule, key, ok, where="", detail="", what=""):
        """Record one obligation.
        rule   : rule id (e.g. 'F5.key-normalised')
        key    : instance key WITHOUT line numbers (function path + construct)
        ok     : True (discharged) / False (violated)
        where  : file:line for humans
        detail : proof sketch or failure explanation
        """
        full = "%s|%s" % (rule, key)
        status = "discharged" if ok else "violation"
        if not ok and full in self.known:
            status = "known"
        o = {"rule": rule, "key": full, "status": status, "where": where, "detail": detail,
             "config": self.config}
        if what:
            o["what"] = what
        # identical obligation from another configuration: keep the worst status
        self.obs.append(o)
        return ok

    def require(self, cond, rule, key, where="", detail=""):
        return self.ob(rule, key, bool(cond), where, detail)

    def floor(self, rule, count, minimum, what):
        """instance-count floor: a rule matching fewer sites than were confirmed by hand fails"""
        # `minimum` is the number counted by hand on the tree the rule was written against.  The guard is against a rule
        # that silently matches (almost) nothing; a refactoring that merges or splits a few sites must not trip it, so
        # the check fails below half of that number (never below one).
        eff = max(1, minimum // 2)
        return self.ob("FLOOR." + rule, what, count >= eff, "",
                       "%d instance(s) found; %d on the reference tree, guard at %d (%s)" % (count, minimum, eff, what))

    def precondition_failed(self, msg):
        self.ob("CHECKER-PRECONDITION", _slug(msg)[:80], False, "", msg)

    # ------------------------------------------------------------------ finish
    def finish(self, write=True):
        # merge per key: over configurations, violation > known > discharged
        rank = {"violation": 2, "known": 1, "discharged": 0}
        merged = {}
        for o in self.obs:
            m = merged.get(o["key"])
            if m is None or rank[o["status"]] > rank[m["status"]]:
                if m is not None:
                    o = dict(o)
                    o["configs"] = sorted(set(m.get("configs", [m["config"]]) + [o["config"]]))
                merged[o["key"]] = o
            else:
                m.setdefault("configs", [m["config"]])
                if o["config"] not in m["configs"]:
                    m["configs"].append(o["config"])
        obs = list(merged.values())
        viol = [o for o in obs if o["status"] == "violation"]
        known = [o for o in obs if o["status"] == "known"]
        disc = [o for o in obs if o["status"] == "discharged"]
        rdir = os.path.join(VERIF, "reports", self.prop) if write else os.path.join(os.environ.get("VERIF_TMPDIR") or "/var/tmp", "mdnsverif-reports", self.prop)
        os.makedirs(rdir, exist_ok=True)
        lines = []
        for o in known:
            e = self.known[o["key"]]
            lines.append("KNOWN-FINDING: property=%s %s [%s] at %s" % (self.prop, e.get("what", o["detail"]), o["key"], o["where"]))
        for o in viol:
            path = os.path.join(rdir, _slug(o["key"]) + ".json")
            with open(path, "w") as fh:
                json.dump({"property": self.prop, "tier": self.tier, **o}, fh, indent=1)
            lines.append("%s: rule %s violated at %s\n    instance: %s\n    %s" % (
                self.prop, o["rule"], o["where"] or "?", o["key"], o["detail"]))
            lines.append("VIOLATION property=%s replay=%s" % (self.prop, path))
        # evidence
        rules = sorted(set(o["rule"] for o in obs))
        samples = []
        seen_rules = set()
        for o in obs:
            if o["rule"] in seen_rules:
                continue
            seen_rules.add(o["rule"])
            samples.append({"rule": o["rule"], "instance": o["key"], "where": o["where"],
                            "status": o["status"], "detail": o["detail"][:400]})
        for o in (viol + known)[:20]:
            samples.append({"rule": o["rule"], "instance": o["key"], "where": o["where"],
                            "status": o["status"], "detail": o["detail"][:400]})
        ev = {
            "property_id": self.prop,
            "tier": self.tier,
            "seed": self.seed,
            "level": "other",
            "coverage": {
                "explanation": self.explanation,
                "rule": self.rule_text or ("static rules over MIR facts; one evaluation = one rule instance "
                                           "(obligation) evaluated in one build configuration; distinct = distinct "
                                           "(rule, construct) keys"),
                "evaluations": len(self.obs),
                "distinct_nontrivial": len(obs),
                "obligations": len(obs),
                "discharged": len(disc),
                "known_findings": len(known),
                "violations": len(viol),
                "rules": rules,
                "per_rule": {r: sum(1 for o in obs if o["rule"] == r) for r in rules},
                "configurations": self.configs,
                "samples": samples[:60],
                "undecided_clauses": self.undecided,
                "checker_cmd": "./check %s --tier %s" % (self.prop, self.tier),
                "trusted_base": self.trusted or [
                    "rustc MIR construction at -Zmir-opt-level=0 (nightly 1.97) for the analysed configuration",
                    "Instance::resolve for callee resolution",
                    "transparent-call table and library model table of mdnsverif",
                ],
                "exhaustive": False,
                **self.extra,
            },
            "assumptions": self.assumptions,
            "wall_s": round(time.time() - self.t0, 2),
            "violations": len(viol),
        }
        if write:
            edir = os.path.join(VERIF, "evidence")
            os.makedirs(edir, exist_ok=True)
            with open(os.path.join(edir, self.prop + ".json"), "w") as fh:
                json.dump(ev, fh, indent=1)
        return lines, (1 if viol else 0), ev
