"""E4 field effects: which (ADT, field) a function may write, closed over the call graph."""
from .model import callee_name, strip_generics

MUTATING = ("push", "insert", "remove", "retain", "truncate", "clear", "extend", "drain", "entry", "get_mut", "remove_entry",
            "values_mut", "iter_mut", "pop", "append", "push_str", "extend_from_slice", "copy_from_slice", "swap_remove",
            "resize", "sort", "sort_by", "dedup", "retain_mut", "index_mut", "as_mut", "deref_mut", "as_mut_slice", "take",
            "insert_str", "set_len", "fill", "swap", "reverse", "split_off", "or_default", "or_insert_with", "or_insert")


def _fields_of_place(p):
    out = []
    for pe in p["proj"]:
        if pe[0] == "field" and pe[2] != "" and pe[4]:
            out.append((pe[4], pe[2]))
    return out


def direct_writes(fn):
    """set of (owner, field) written directly in fn: assignments into a place under the field, and mutable borrows
    of a place under the field (handed to any callee, std mutators included)"""
    out = set()
    for b, i, s in fn.assigns():
        fs = _fields_of_place(s["p"])
        if fs and s["p"]["proj"]:
            # a store through the field path
            for f in fs:
                out.add(f)
        r = s["r"]
        if r["k"] in ("ref", "addrof") and r.get("bk") in ("mut", "Mut"):
            for f in _fields_of_place(r["p"]):
                out.add(f)
    return out


class Effects:
    def __init__(self, P):
        self.P = P
        self.direct = {}
        for f in P.fns.values():
            self.direct[f.name] = direct_writes(f)
        self.trans = None

    def transitive(self):
        if self.trans is not None:
            return self.trans
        cg = self.P.callgraph()
        trans = {n: set(v) for n, v in self.direct.items()}
        changed = True
        while changed:
            changed = False
            for n, outs in cg.items():
                cur = trans.setdefault(n, set())
                before = len(cur)
                for o in outs:
                    cur |= trans.get(o, set())
                if len(cur) != before:
                    changed = True
        self.trans = trans
        return trans

    def writes(self, fname, owner_suffix=None):
        w = self.transitive().get(fname, set())
        if owner_suffix:
            return {f for (o, f) in w if o.endswith(owner_suffix)}
        return w

    def call_writes(self, t, owner_suffix=None):
        """fields a call terminator may write (through its local targets)"""
        out = set()
        for tg in self.P.call_targets(t):
            out |= self.writes(tg, owner_suffix)
        return out

    def writers_of(self, owner_suffix, field):
        return sorted(n for n, w in self.direct.items() if any(o.endswith(owner_suffix) and f == field for (o, f) in w))
